#!/venv/bin/python
"""setup / self-test: nothing to build (pure python); verifies the explorer core and that mystic resolves to /repo"""
import os, sys
HERE = os.path.dirname(os.path.dirname(os.path.abspath(__file__)))
sys.path.insert(0, HERE); sys.path.insert(0, os.environ.get('MYSTIC_REPO', '/repo'))
from mc import tree
def run(ch):
    a = ch.choose(3, 'a'); b = ch.choose(2, 'b') if a else 0; c = ch.choose(2, 'c')
    return (a, b, c)
full = sorted(r for _, r in tree.explore(run))
assert len(full) == 2 + 4 + 4 and len(set(full)) == len(full), full
b1 = sorted(r for _, r in tree.explore(run, bound=1))
assert b1 == sorted(r for r in full if sum(1 for v in r if v) <= 1), b1
def bad(ch, k=[0]):
    k[0] += 1
    return ch.choose(2 + (k[0] > 1), 'x')
try:
    list(tree.explore(bad)); raise SystemExit('divergence not detected')
except tree.Diverged:
    pass
import mystic
assert os.path.realpath(mystic.__file__).startswith(os.path.realpath(os.environ.get('MYSTIC_REPO', '/repo'))), mystic.__file__
for d in ('evidence', 'replays'):
    os.makedirs(os.path.join(HERE, d), exist_ok=True)
print('selftest ok')
