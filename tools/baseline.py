#!/venv/bin/python
"""run the pinned baseline command against a tree (default /repo) and compare with BASELINE.json
usage: baseline.py [repo_dir] [-k expr]"""
import json, subprocess, sys, os, tempfile, xml.etree.ElementTree as ET
repo = sys.argv[1] if len(sys.argv) > 1 and not sys.argv[1].startswith('-') else '/repo'
extra = [a for a in sys.argv[1:] if a != repo]
base = json.load(open('/root/.vp/BASELINE.json'))
out = tempfile.mktemp(suffix='.xml', dir='/tmp')
env = dict(os.environ); env.pop('MYSTIC_VERIF', None); env['PYTHONPATH'] = repo
cmd = ['/venv/bin/python', '-m', 'pytest', '-ra', '-q', '-p', 'no:cacheprovider', '--timeout=900',
       '--continue-on-collection-errors', '--junitxml=' + out] + extra
p = subprocess.run(cmd, cwd=repo, env=env, stdout=subprocess.PIPE, stderr=subprocess.STDOUT, text=True)
passed = set()
for tc in ET.parse(out).getroot().iter('testcase'):
    if not any(ch.tag in ('failure', 'error', 'skipped') for ch in tc):
        passed.add('%s::%s' % (tc.get('classname'), tc.get('name')))
os.remove(out)
if os.path.exists(os.path.join(repo, 'ave.db')):     # written into the working directory by one of the tests
    os.remove(os.path.join(repo, 'ave.db'))
want = set(base['stable_pass'])
missing = sorted(want - passed)
print('passed=%d baseline=%d missing=%d' % (len(passed), len(want), len(missing)))
for m in missing: print('  MISSING', m)
sys.exit(1 if missing and not extra else 0)
