#!/venv/bin/python
"""confirm one candidate property-breaking change and file it under /verif/seeded/<id>/

usage: tools/confirm_seed.py <candidate dir with patch.diff demo.py notes.md> <seed id e.g. C01-1> <property> "<needs text>" [--no-suite]

Steps (all in a scratch git worktree of /repo under /tmp, removed afterwards):
  1. demo.py on the unmodified worktree must exit 0
  2. patch applies; `import mystic` works; demo.py must exit non-zero
  3. the pinned suite (tools/baseline.py <worktree>) must still pass every stable test
Writes seeded/<id>/{patch.diff,demo.py,notes.md,meta.json}.  Exit 0 when all three hold."""
import json, os, shutil, subprocess, sys, tempfile, time

HERE = os.path.dirname(os.path.dirname(os.path.abspath(__file__)))


def sh(cmd, **kw):
    return subprocess.run(cmd, capture_output=True, text=True, **kw)


def main(argv):
    cand, sid, prop, needs = argv[:4]
    suite = '--no-suite' not in argv
    wt = tempfile.mkdtemp(prefix='seedconf-', dir='/tmp')
    os.rmdir(wt)
    r = sh(['git', '-C', '/repo', 'worktree', 'add', '--detach', wt, 'HEAD', '-q'])
    if r.returncode:
        print('worktree failed', r.stderr); return 2
    res = {}
    try:
        env = dict(os.environ, PYTHONPATH=wt, PYTHONDONTWRITEBYTECODE='1')
        demo = os.path.join(cand, 'demo.py')
        t0 = time.time()
        a = sh(['/venv/bin/python', demo], env=env, cwd=wt, timeout=900)
        res['demo_on_unchanged_tree'] = {'exit': a.returncode, 'wall_s': round(time.time() - t0, 1)}
        p = sh(['git', '-C', wt, 'apply', os.path.abspath(os.path.join(cand, 'patch.diff'))])
        res['patch_applies'] = p.returncode == 0
        if p.returncode:
            print('patch does not apply:', p.stderr[:300])
        imp = sh(['/venv/bin/python', '-c', 'import mystic, sys; sys.exit(0 if mystic.__file__.startswith(%r) else 3)' % wt], env=env, cwd=wt)
        res['imports'] = imp.returncode == 0
        t0 = time.time()
        b = sh(['/venv/bin/python', demo], env=env, cwd=wt, timeout=900)
        res['demo_with_change'] = {'exit': b.returncode, 'wall_s': round(time.time() - t0, 1), 'tail': (b.stdout + b.stderr)[-400:]}
        if suite:
            t0 = time.time()
            s = sh(['/venv/bin/python', os.path.join(HERE, 'tools', 'baseline.py'), wt])
            res['pinned_suite_with_change'] = {'exit': s.returncode, 'summary': s.stdout.strip().splitlines()[-1:] , 'wall_s': round(time.time() - t0, 1),
                                               'missing': [l.strip() for l in s.stdout.splitlines() if 'MISSING' in l][:10]}
        files = sh(['git', '-C', wt, 'diff', '--stat']).stdout.strip().splitlines()
        res['diffstat'] = files[-1].strip() if files else ''
    finally:
        sh(['git', '-C', '/repo', 'worktree', 'remove', '--force', wt])
        shutil.rmtree(wt, ignore_errors=True)
    ok = (res['demo_on_unchanged_tree']['exit'] == 0 and res.get('patch_applies') and res.get('imports')
          and res['demo_with_change']['exit'] != 0 and (not suite or res['pinned_suite_with_change']['exit'] == 0))
    res['confirmed'] = bool(ok)
    print(json.dumps(res, indent=1))
    if ok:
        out = os.path.join(HERE, 'seeded', sid)
        os.makedirs(out, exist_ok=True)
        for name in os.listdir(cand):
            if name in ('patch.diff', 'notes.md') or (name.startswith('demo') and name.endswith('.py')):
                shutil.copy(os.path.join(cand, name), os.path.join(out, name))
        meta = {'id': sid, 'property': prop, 'checks': [prop], 'needs': needs,
                'source': 'independent sub-agent given only the property record and a scratch worktree',
                'base_commit': sh(['git', '-C', '/repo', 'rev-parse', '--short', 'HEAD']).stdout.strip(),
                'confirmed': res}
        json.dump(meta, open(os.path.join(out, 'meta.json'), 'w'), indent=1)
    return 0 if ok else 1


if __name__ == '__main__':
    sys.exit(main(sys.argv[1:]))
