#!/venv/bin/python
"""apply every seeded property-breaking change to a scratch copy of /repo/mystic and run the
checks that are expected to catch it.

usage: tools/seeded.py [--tier quick|thorough] [--demo] [--all-checks] [id ...]

seeded/<id>/meta.json: {"id", "property", "checks": [...], "needs": "...", "confirmed": {...}}
seeded/<id>/patch.diff is relative to the repository root (a/mystic/...).

Nothing is written under /repo or /verif (evidence and replays of scratch-tree runs go to /tmp and
are removed); the scratch copy is deleted after each change.  Exit 0 when every change was caught by
every check named for it."""
import json, os, shutil, subprocess, sys, tempfile, time

HERE = os.path.dirname(os.path.dirname(os.path.abspath(__file__)))
REPO = '/repo'


def run_one(sid, tier, demo, all_checks):
    d = os.path.join(HERE, 'seeded', sid)
    meta = json.load(open(os.path.join(d, 'meta.json')))
    tmp = tempfile.mkdtemp(prefix='seedrun-', dir='/tmp')
    rows = []
    try:
        shutil.copytree(os.path.join(REPO, 'mystic'), os.path.join(tmp, 'mystic'),
                        ignore=shutil.ignore_patterns('__pycache__', '*.pyc'))
        p = subprocess.run(['patch', '-p1', '-s', '-d', tmp, '-i', os.path.join(d, 'patch.diff')],
                           capture_output=True, text=True)
        if p.returncode:
            return [(sid, '-', 'PATCH-FAILED', (p.stdout + p.stderr).strip()[:200])]
        env = dict(os.environ, MYSTIC_REPO=tmp, PYTHONPATH=tmp, PYTHONDONTWRITEBYTECODE='1')
        if demo:
            for name in sorted(os.listdir(d)):
                if name.startswith('demo') and name.endswith('.py'):
                    q = subprocess.run(['/venv/bin/python', os.path.join(d, name)], env=env, cwd=tmp,
                                       capture_output=True, text=True, timeout=600)
                    rows.append((sid, name, 'demo-fails' if q.returncode else 'DEMO-PASSES(!)', ''))
        checks = meta['checks']
        if all_checks:
            man = json.load(open(os.path.join(HERE, 'MANIFEST.json')))
            checks = [c['property_id'] for c in man['checks']]
        for chk in checks:
            t0 = time.time()
            q = subprocess.run([os.path.join(HERE, 'check'), chk, '--tier', tier], env=env, cwd=HERE,
                               capture_output=True, text=True)
            viol = [l for l in q.stdout.splitlines() if l.startswith('VIOLATION')]
            if q.returncode == 1 and viol:
                first = [l for l in q.stdout.splitlines() if l.startswith('  ') and 'sig=' in l][:1]
                rows.append((sid, chk, 'caught', '%d sig(s), %.0fs %s' % (len(viol), time.time() - t0, first[0].strip()[:150] if first else '')))
            elif q.returncode == 0:
                rows.append((sid, chk, 'missed(recorded)' if meta.get('expected') == 'missed' else 'MISSED', '%.0fs' % (time.time() - t0)))
            else:
                rows.append((sid, chk, 'rc=%d' % q.returncode, (q.stdout + q.stderr)[-300:].replace('\n', ' | ')))
    finally:
        shutil.rmtree(tmp, ignore_errors=True)
        shutil.rmtree('/tmp/verif-scratch-evidence', ignore_errors=True)
        shutil.rmtree('/tmp/verif-scratch-replays', ignore_errors=True)
    return rows


def main(argv):
    tier, demo, all_checks, ids = 'quick', False, False, []
    it = iter(argv)
    for a in it:
        if a == '--tier':
            tier = next(it)
        elif a == '--demo':
            demo = True
        elif a == '--all-checks':
            all_checks = True
        else:
            ids.append(a)
    root = os.path.join(HERE, 'seeded')
    if not ids:
        ids = sorted(x for x in os.listdir(root) if os.path.exists(os.path.join(root, x, 'meta.json')))
    bad = 0
    for sid in ids:
        for row in run_one(sid, tier, demo, all_checks):
            print('%-14s %-10s %-14s %s' % row, flush=True)
            if row[2] not in ('caught', 'demo-fails', 'missed(recorded)') and not all_checks:
                bad += 1
    return 1 if bad else 0


if __name__ == '__main__':
    sys.exit(main(sys.argv[1:]))
