#!/usr/bin/env python3
"""validate MANIFEST.json and every evidence file named in it against the schemas (run with python3-vt)"""
import json, jsonschema, os, sys
HERE = os.path.dirname(os.path.dirname(os.path.abspath(__file__)))
man = json.load(open(os.path.join(HERE, 'MANIFEST.json')))
jsonschema.validate(man, json.load(open('/root/.vp/MANIFEST.schema.json')))
es = json.load(open('/root/.vp/EVIDENCE.schema.json'))
props = [json.loads(l)['id'] for l in open(os.path.join(HERE, 'properties.jsonl'))]
claimed = [c['property_id'] for c in man['checks']]
na = [n['property_id'] for n in man.get('not_applicable', [])]
assert sorted(claimed + na) == sorted(props), (sorted(claimed + na), props)
bad = 0
for c in man['checks']:
    p = os.path.join(HERE, c['evidence_file'])
    if not os.path.exists(p):
        print('MISSING', c['evidence_file']); bad += 1; continue
    ev = json.load(open(p))
    try:
        jsonschema.validate(ev, es)
    except jsonschema.ValidationError as e:
        print('INVALID', c['evidence_file'], e.message[:200]); bad += 1; continue
    cov = ev['coverage']
    print('%s ok tier=%s level=%s states=%s transitions=%s traces=%s nontrivial=%s exhaustive=%s wall=%ss violations=%s'
          % (c['property_id'], ev['tier'], ev['level'], cov.get('states'), cov.get('transitions'),
             cov.get('traces_validated_against_impl'), cov.get('distinct_nontrivial'), cov.get('exhaustive'), ev['wall_s'], ev.get('violations')))
sys.exit(1 if bad else 0)
