#!/venv/bin/python
"""regenerate /verif/MANIFEST.json from the table below (kept valid at all times)"""
import json, os, sys, subprocess

HERE = os.path.dirname(os.path.dirname(os.path.abspath(__file__)))

# id -> (engine, technique, level text, level note, design ref)
CHECKS = {
 'C01': ('E1 state-graph / E3', 'exhaustive enumeration of the full configuration product (solver x dim x cost x start x box/mode x constraint x penalty x reducer), each run explored Step by Step with every iteration boundary judged against an objective rebuilt from the raw user functions',
         'The complete product of a finite configuration alphabet is executed on the real solvers (and each scipy-style wrapper once per configuration); at every iteration boundary the best point must be in the recorded call log with energy reducer(cost)+penalty recomputed by the harness, every member energy must equal the harness objective at that member, and the best must not be worse than the initial energy.',
         'constraints restricted to deterministic idempotent box-preserving ones (mechanically pre-checked); clip=False excluded; 5+1 cost functions; runs of 8 (quick) / 12 (thorough) iterations', '3/C01'),
 'C02': ('E1 state-graph + E2 choice-tree', 'explicit-state exploration of all op sequences (SetStrictRanges/SetConstraints interleaved with Step) per solver and (tight,clip) mode, special boxes, plus exhaustive enumeration of every random answer of the clip=False re-entry and of the initial-point generators',
         'Every call the recorded cost function receives while a box is in force is checked against the box the harness knows to be current, over all histories <= depth 4/5 of a 6-op alphabet x 4 solvers x 7 range modes, over degenerate / one-sided / None / negative boxes, over every answer (within a deviation bound) of the random draws made by the randomising bounds constraint, and over every draw of SetRandomInitialPoints / SetInitialPoints.',
         'DE under clip=False uses a seeded private generator; an exception raised while installing ranges is recorded, not judged; best-inside-box judged for configurations unchanged since before the first iteration', '3/C02'),
 'C03': ('E1 state-graph', 'explicit-state exploration of every (configuration, installation time, stop point) history on real solvers with instrumented pure/in-place constraints: every recorded cost call after installation judged against a harness-owned copy of the constraint, every stop judged for c(best)==best and the recomputed energy, pure and in-place variants compared bit for bit',
         'For each solver x constraint kind (pin, clamp, round, tie, symbolic; pure and in-place) x box/mode (all but clip=False) x cost x start, every schedule of the alphabet is executed: configured before the first Step, installed by SetConstraints after k in {0,1,2,3} Steps, installed on a run stopped by a limit and continued, replacing another live constraint; stops at every Step boundary of an 8 (12) step run and by maxiter/maxfun in {1,2,3,5}.',
         'constraints restricted to deterministic idempotent ones that map the box into itself (mechanically pre-checked); best after a mid-run installation and populations are evidence only; a Nelder-Mead pure/in-place divergence explained by the documented aliasing rule is counted, anything else raised', '3/C03'),
 'C06': ('E1 state-graph with crash-point enumeration', 'crash-point enumeration: every generation boundary of a recorded run x every save path (SaveSolver, periodic SetSaveFrequency file, dill) x every restore path (LoadSolver, dill.load, dill.copy, deepcopy), restore of a restore over all pairs of crash points; confluence oracle on a canonical form of the whole solver object (closure cells, sharing structure, float.hex)',
         'For each base solver x configuration (plain, box+constraint+penalty, tight, clip, clip=False, monitors incl. LoggingMonitor, limits+termination, two mid-run reconfigurations) the uninterrupted run of n Steps is recorded; at every boundary k the solver is transferred by each path, must be canonically equal to the original at k, bit-identical after each remaining Step with the random state reinstated, count exactly its own cost calls, and neither copy nor original may change the other; periodic dumps as they exist after every step, Solve continuation and log files are compared too.',
         'restart files are written to a per-shard temporary directory and never torn; masked by construction: _state, the DUMPED()/LOADED() info lines, a LoggingMonitor file handle; ensembles and non-default maps out of scope', '3/C06'),
 'C09': ('E1 state-graph + E2 choice-tree', 'exhaustive enumeration of ensemble configurations (bin layouts / point counts x nested solver x box x constraint/penalty/limits/termination x map order and copying x Solve/step/Step-loop modes) with per-member instrumentation, every member evaluation order for small ensembles, every answer of the rand draws behind Buckshot starts and the point generators',
         'Every Lattice layout in {1,2,3}^dim (dim<=2), Buckshot/Sparsity point counts, nested NM/Powell (DE thorough), three boxes, features on/off, serial/reversed/permuted/dill-copying maps, three drive modes and the lattice/buckshot/sparsity wrappers: best energy = min over members and is that member\'s solution, total evaluations = sum over members = real cost calls, member count, first call of each member inside the box (lattice: cell centre), members carry and obey box, constraints, penalty, limits and termination; gridpts/samplepts/random_samples/fillpts/randomly_bin against their definitions under every scripted draw.',
         'MixedSolver, Collapse on ensembles, tight/clip range modes and SetNestedSolver with a configured instance are out of scope; scripted rand limited to dim x npts <= 4 (6 thorough)', '3/C09'),
 'C11': ('E3 + E1 state-graph', 'complete enumeration of monitor histories x tolerance x window x target x mask (every subset, every accepted format) for the five collapse detectors against an independent plain-Python definition, plus explicit-state exploration of op sequences {Step, StepTo(stop), Collapse, Solve} on real solvers with collapse terminations, judging every later cost call',
         'Detectors: every history of length 1-4 over {0,1e-5,1}^dim (dim<=3), product-measure monitors with npts (2,),(2,2),(3,2), masks in dict/set/where formats; result = definition minus mask, in the format of the mask, and feeding the result back as mask yields nothing. Solvers: NM, Powell, DE, DE2 on flat / tied costs with Or/And/When trees of ChangeOverGeneration, CollapseAt, CollapseAs, CollapseWeight, CollapsePosition; after a collapse every logged call and the final solution satisfy the relation exactly, termination masks grow by exactly what was applied, nothing is reported twice, Solve returns within the horizon under every generation limit 2..23.',
         'ensemble Collapse (documented as not implemented), CollapseCost at solver level and the offset=True relation are not judged; three known findings (F38-F40) are matched by signature', '3/C11'),
 'C07': ('E1 state-graph (diamond lattice) + E2 choice-tree (map schedules, baton-scheduled threads)', 'explicit-state diamond check over the lattice of subsets of the configuration calls (every U, every pair a,b outside U: U.a.b == U.b.a in canonical settings state, random-generator state and bit-exact trajectory) plus all literal permutations of a smaller call set; exhaustive enumeration of map evaluation orders (deviation bound) for DE2 and ensembles, sharing and dill-copying maps, Solve vs step-wise vs manual Step loop, and real threads under a baton scheduler with bounded preemptions at member-Step boundaries',
         'Part A: the full 9-call lattice (4608 diamonds per solver) on NM, Powell, DE, DE2 plus a tight=True lattice, and all 720 (40320 thorough) literal orders of 6 (8) calls; part B: DE2 under a scripted map, every order of the NP work items per map call over 3 generations within a deviation bound, sharing and copying; part C: Lattice/Buckshot ensembles with nested NM/Powell, every member order per map call, sharing and copying map, three drive modes, and thread schedules with <= 1 (2) preemptions. One trajectory / result digest per configuration is required, equal to the serial default.',
         'OS-process pools are represented by the dill-copying map; thread hand-offs only at member-Step boundaries; Solve(step=True) is compared on its final state only', '3/C07'),
 'C08': ('E3 + E2 choice-tree', 'lock-step comparison with reference models over a complete grid (NM/Powell) and exhaustive enumeration of every answer of sample/randrange/random() for every DE strategy call (complete tree) and whole generations (deviation bound 2)',
         'Nelder-Mead and Powell solvers are stepped iteration by iteration against independent reference implementations (textbook NM; direction-set loop around the same Brent search) over a cost x start x tolerance x maxiter grid with all NM branches and exact ties exercised, fmin/fmin_powell against scipy.optimize.fmin and the vendored scipy-0.6 routines; every DE trial is decoded from an encoded population under every scripted random answer and judged by the strategy definition; selection judged strictly.',
         'random() answers from {0, CR, 0.999}; four *Bin strategies judged under either crossover rule (DESIGN section 5); Powell stop rule (gtol=2) differences recorded, not judged', '3/C08'),
 'C04': ('E1 state-graph', 'explicit-state exploration of all operation sequences up to a depth on real solver objects (replayed histories, canonical snapshots) against a list-based reference model of counters, monitors and callbacks',
         'Every history of length <= 4 (quick) / 5 (thorough) over a 10-operation alphabet (Step, Solve, SetEvaluationLimits(new), SetPenalty, SetConstraints, SetStrictRanges, SetEvaluationMonitor new/old, SetGenerationMonitor, Finalize) is executed on each base solver x cost x monitor kind, and after every operation the real call count, monitor contents, iteration count, callback log and energy history are compared with the harness reference model.',
         'iterations counted by wrapping the bound _Step on the instance; cost alphabet {sphere, steps, infwall}; in-process map; monotonicity judged per segment of unchanged objective (DESIGN section 5)', '3/C04'),
 'C05': ('E1 state-graph', 'explicit-state exploration of operation sequences (general alphabet to a depth + complete limit alphabet at every prefix) with a harness-side model of the absolute limits; stop conditions observed at the moment each iteration begins',
         'All histories <= depth over a 10-op alphabet, plus Step^k . SetEvaluationLimits(g,e,new) . tail for all 40 limit triples, k<=3, 9 tails, on every base solver and two terminations, plus the four scipy-style wrappers over 30 limit pairs; at each iteration start the real generation/evaluation counts, exit flag and termination truth are compared with the modelled limits, and every stop message / warnflag is judged against the final state.',
         'exit request = the flag the signal handler sets; default limits taken from the documented formula; limits <= 5 plus None', '3/C05'),
 'C10': ('E3 small-scope enumerator', 'complete enumeration of energy histories / populations / counters on a duck-typed stand-in solver and of every And/Or/When tree to depth 3 under all leaf truth assignments, against an exact-arithmetic evaluation of each documented inequality',
         'Every built-in (non-collapse) termination factory is evaluated on every energy history up to a length over a dyadic value alphabet (incl. inf), every small population on a grid, every counter/clock reading, for every tolerance/window/target of the alphabet; every compound expression of depth <= 3 with <= 3 members per node over three leaves is evaluated under all 8 leaf truth assignments; plain call, info, self and the condition rebuilt from its reported state must all agree with the reference.',
         'reference returns None where the docstring does not decide a case (readings R1-R10 in ref/termination.py): those cases are counted, not judged; real solvers are used to validate that the stand-in exposes what conditions read', '3/C10'),
 'C12': ('E3 + E2 choice-tree', 'exhaustive enumeration of constraint programs over a coefficient/comparator alphabet, each simplified by the real code under every scripted answer of its random test points (deviation bound), judged point-wise by an exact rational interpreter on a grid plus constructed boundary points',
         'All one-line and reduced two/three-line linear systems, the rational templates of the statement, three naming schemes; simplify(all=True) with rand= answered from a 4-value alphabet at every draw (choice tree); a point satisfies the input iff it satisfies every line of some returned case; solve on all small full-rank systems; linear_symbolic and symbolic_bounds against direct matrix / interval evaluation.',
         'non-dyadic coefficients judged off-boundary only; programs outside the stated class are classified by outcome and reported in evidence, not raised (DESIGN section 5)', '3/C12'),
 'C13': ('E3 small-scope enumerator', 'complete enumeration of relation texts (comparator x right-hand side x isolated variable x naming scheme) compiled by the real generator and run on a complete input grid including exact boundary and one-ulp neighbours, judged in IEEE and exact rational arithmetic',
         'Every program xi CMP f of the alphabet, every pair of non-interfering relations, and boundsconstrain over boxes with None/inf/degenerate sides are compiled once and applied to every vector of the grid (list and ndarray): the relation must hold at the output, only xi may change, feasible input is returned unchanged (inputs inside the documented strictness margin may move to the margin).',
         'strictness margin is mystic.math.tolerance (1e-15 rel+abs); value alphabet of 9 magnitudes incl. +-1e300', '3/C13'),
 'C14': ('E3 small-scope enumerator', 'complete enumeration of constraint texts x penalty types x k,h x grid points against exact-rational evaluation of lhs-rhs and of the documented penalty expressions',
         'Every text of 1-3 lines over the lhs/rhs/comparator alphabet (named, indexed and 12-variable forms) is compiled by generate_conditions / generate_penalty; each condition must equal lhs-rhs in the documented orientation, the penalty must be zero iff all lines hold and equal the documented sum of per-line terms, and penalty(constraint(x)) must be zero for the constraint generated from the same text, at every grid and boundary point.',
         'epsilon for strict comparators as in C13; penalty types quadratic/linear/uniform (equality and inequality)', '3/C14'),
 'C15': ('E1 state-graph + E3', 'explicit-state exploration of every operation sequence (iter, iter(2), clear, store) up to a depth on real penalty objects of every type and nesting, in lock step with a reference model of the documented formulae, evaluated at every grid point in every distinct state',
         'For each of the 9 penalty types x conditions x k x h x nesting depth 1-3, every op sequence up to the depth is executed on a fresh real penalty; after every operation iteration(), stored() and the closure state are compared with the model, and in every distinct canonical state penalty(x) and error(x) are compared with the documented expression at every point of the grid (zero on the feasible set, positive on violations, inf on ZeroDivisionError).',
         'barrier_inequality judged against its documented log-barrier expression (DESIGN section 5); value alphabet of 7 points per dimension', '3/C15'),
 'C18': ('E3 small-scope enumerator', 'complete Cartesian enumeration of sample vectors x weight vectors x targets x selections over dyadic alphabets through the real measures/distance functions, judged in exact rationals (fractions.Fraction)',
         'Every impose_* transform, statistic, norm and metric of the statement is run on all sample vectors of length 2-4 over a 5-value alphabet with every weight vector over a 4-value alphabet (and None), every target/selection/trim fraction: targets reached within 1e-12 relative, promised invariants kept, support surgery zeroes exactly the designated weights and keeps total weight and mean, statistics equal their textbook weighted definitions.',
         'degenerate inputs (zero variance/spread) excluded as the statement says; median family judged under the library\'s own statistic (DESIGN section 5); inputs on a discontinuity of that statistic counted, not judged', '3/C18'),
 'C19': ('E3 small-scope enumerator', 'complete enumeration of product-measure shapes (1-3 factors of 1-3 points) with weights/positions/values over small alphabets, observational comparison with explicit weighted sums in exact rationals',
         'Every measure of the bounded shapes is built with the real classes; flatten/load/unflatten, compose/decompose, pack/unpack round trips must return observationally equal measures, update must change exactly the addressed slots, product weights/positions must follow the documented first-factor-fastest Cartesian order, and expect/expect_var/pof/support/mass/center_mass/range/var must equal explicit sums.',
         'measure equality is observational (wts, pos, values, flatten()); complete for shapes with <= 4 points, representative strata above (stated in evidence)', '3/C19'),
 'C20': ('E1 state-graph + E3', 'explicit-state exploration of every operation sequence up to a depth over monitor operations on two monitors against a list-of-tuples reference, plus complete enumeration of record histories through LoggingMonitor / write_*_file and their readers (incl. the history write, read, overwrite, read)',
         'Every record of the value alphabet (list/tuple/ndarray/numpy scalars, inf/nan/tiny/huge, ids) and every k; every op sequence <= depth over {record, slice, index, len, +, extend, prepend, Null} for every (kA,kB); every history up to a length through LoggingMonitor(interval, all) then logfile_reader/read_history, and through write_raw/support/converge_file then the matching readers; the reference is compared after every operation and arguments must stay unchanged.',
         'files live in a per-shard temporary directory; nan compared as nan; list-valued fancy indexing not exercised', '3/C20'),
 'C16': ('E3 + E2 choice-tree', 'complete enumeration of (decorator configuration, input vector, container) cases over small alphabets with every answer of the numpy/stdlib random draws enumerated by the choice-tree explorer; each case run as t(x) and t(t(x)) against exact membership predicates, selectivity and fixed-point oracles',
         'Every constraint decorator of the statement around the identity, over all input vectors of length 1-4 on an 8-value alphabet (list and ndarray), index selections incl. negative and out-of-range, interval/sample-set/digit/mask alphabets; impose_bounds(clip=False) and unique with every choice/uniform/shuffle/random answer; impose_as over every list of 1-2 (3) ordered pairs on 4 nodes incl. cyclic masks under a watchdog; one decorated function applied twice in a row (state carried between calls); tools.connected over every list of pairs.',
         'ties (x.5) and gap values may go to either neighbour; sorting/monotonic rejecting an out-of-range index is counted, not raised; out-of-range mask entries of impose_as judged only in the shapes its docstring shows; integers(ints=True) casts unaddressed entries by documentation (DESIGN section 5)', '3/C16'),
 'C17': ('E2 choice-tree', 'exhaustive enumeration of every random answer of the cycle-breaking draws (choice-tree DFS, complete first event + deviation bound) over all member tuples/inputs/iteration caps, on the real combinators',
         'Bounded exhaustive exploration of the real and_/or_/not_ under a harness-owned random source: every configuration of the member alphabet x input grid x maxiter, every answer of the first randomisation event and all later answers within a deviation bound; success-path results re-judged against each member. Couplers and penalty combinators are enumerated over a grid against their literal definitions.',
         'member alphabet of 10 functions on 2-vectors; random() answers from a 5-value alphabet, randint complete; python semantics of list equality', '3/C17'),
}

TITLES = {}
for line in open(os.path.join(HERE, 'properties.jsonl')):
    p = json.loads(line)
    TITLES[p['id']] = p['title']


# parts added after the first registration (one line each; the evidence file lists the bounds)
EXTRA = {
 'C01': 'continued runs (Steps, an operation that makes the solver decorate its objective again, Steps); one-component vector costs, reducers sumsq/rms and two-argument reducers; a penalty installed mid-run (Powell).',
 'C02': 'the box replaced mid-run by one written in another numeric type (int endpoints -> non-integer endpoints and three other moves), all modes and solvers; initial points requested with None upper limits.',
 'C03': 'ranges set twice with different boxes in one mode (before the first Step and mid-run) with constraints that fit the final box only.',
 'C11': 'shared terminations, look-back windows longer than the history, a collapse condition and an ordinary stop of one compound termination becoming true at one generation (every (g,h) in a small range, four tree shapes).',
 'C13': 'histories (build A, build B, use A), tuple-of-strings inputs, named constants whose names math / numpy export too.',
 'C14': 'histories, clear() after iterations, a named constant called pi (the user value must win over the prelude).',
 'C15': 'worlds (nests iterated out of step, combinators as objects), store with the explicit index 0.',
 'C17': 'the penalty combinators x ptype keyword x member kind; constraint combinators with members that raise the handled errors.',
 'C04': 'settings handed over as Step/Solve keywords; terminations that collapse and continue inside one Solve (callback, counters and monitors after a collapse); the callback as a falsy callable object.',
 'C05': 'exit requested from inside the cost during iteration j in 1..6 x periodic restart file of frequency {none,1,2,3} x {Step loop, Step loop with looks, Solve}; a real SIGINT answered by a script on the same / copied / restarted solver.',
 'C06': 'sticky Solve settings, DE2 under a copying map, monitors with a cost multiplier, sentinels named by the module attribute they are.',
 'C07': 'Sparsity and Lattice(nbins) ensembles in four drive modes; instance isolation (B first then A vs A alone, pristine process per scenario, 64 ordered pairs per solver).',
 'C08': 'adaptive Nelder-Mead coefficients; NaN costs; boundary (CR,F) as keywords; the eligible-member pool at NP 258/300 [1030]; user-supplied direction sets by type.',
 'C09': 'DE-type members, tight/clip range modes, each member against a stand-alone solver, pre-loaded evaluation/step monitors, a second Solve.',
 'C12': 'repeated calls (library-kept state), decimal literals, rational templates written with blanks around the division sign.',
 'C16': 'cyclic and converging masks, setter histories, out-of-range / negative / mixed-sign / empty index selections.',
 'C18': 'large-offset vectors with a stated noise allowance, tol families for mean/moment/standard_moment/impose_moment, underflow/overflow scale families for Lnorm, the metrics and normalize.',
 'C19': 'update on copy-constructed measures and shared factors; one-factor measures with a large common offset.',
 'C20': 'step slices, munge readers on live monitors, list / array / boolean-mask indices.',
}

def fix_commits():
    p = os.path.join(HERE, 'known_findings.json')
    if not os.path.exists(p):
        return []
    return [f['commit'] for f in json.load(open(p)).get('findings', []) if f.get('status') == 'fixed' and f.get('commit')]


def main():
    checks = []
    for pid in sorted(CHECKS):
        eng, tech, text, note, ref = CHECKS[pid]
        if pid in EXTRA:
            text = text + ' Parts added in the detection rounds (DESIGN.md section 10): ' + EXTRA[pid]
        checks.append({
            'property_id': pid,
            'quick_cmd': './check %s --tier quick' % pid,
            'thorough_cmd': './check %s --tier thorough' % pid,
            'evidence_file': 'evidence/%s.json' % pid,
            'replay_cmd_template': './check %s --replay {path}' % pid,
            'engine': eng,
            'level_claimed': {'category': 'model_checking', 'text': text, 'design_ref': 'DESIGN.md section ' + ref},
            'level_note': note,
            'technique': tech,
        })
    na = [{'property_id': pid, 'reason': 'check not built yet in this session (planned in DESIGN.md section 3; model checking applies)'}
          for pid in sorted(TITLES) if pid not in CHECKS]
    man = {
        'version': 1,
        'setup_cmd': 'cd /verif && /venv/bin/python tools/selftest.py',
        'hooks': {
            'guard': 'MYSTIC_VERIF',
            'enable': 'none needed: the checks import /repo directly and replace user-supplied seams (cost, map, random, clock) from outside; no guarded source hooks exist',
            'baseline_off_cmd': 'cd /repo && /venv/bin/python -m pytest -ra -q -p no:cacheprovider --timeout=900 --continue-on-collection-errors',
            'source_commits': [],
            'add_only': True,
        },
        'engines': [
            {'name': 'E1 state-graph explorer', 'path': 'mc/graph.py', 'serves_properties': ['C01', 'C02', 'C03', 'C04', 'C05', 'C06', 'C07', 'C09', 'C11', 'C15', 'C20'],
             'kind_free_text': 'BFS over operation sequences on real objects rebuilt by replay; canonical hashing; invariants + reference model in every state'},
            {'name': 'E2 choice-tree explorer', 'path': 'mc/tree.py + mc/env.py', 'serves_properties': ['C02', 'C07', 'C08', 'C09', 'C12', 'C16', 'C17'],
             'kind_free_text': 'stateless DFS over every environment answer (random draws, map evaluation order, thread hand-offs) with prefix replay and deviation bounding'},
            {'name': 'E3 small-scope enumerator', 'path': 'props/*.py', 'serves_properties': ['C10', 'C12', 'C13', 'C14', 'C15', 'C16', 'C18', 'C19', 'C20'],
             'kind_free_text': 'complete Cartesian enumeration of finite input/program alphabets against independent exact oracles'},
        ],
        'checks': checks,
        'notes': 'All checks run the real code in /repo (imported from the working tree, nothing cached). known_findings.json lists repaired (fix:) and recorded defects. tools/baseline.py re-runs the pinned suite.',
        'not_applicable': na,
    }
    with open(os.path.join(HERE, 'MANIFEST.json'), 'w') as f:
        json.dump(man, f, indent=1)
    # validate
    try:
        r = subprocess.run(['python3-vt', '-c', '''
import json,jsonschema,sys
jsonschema.validate(json.load(open("%s/MANIFEST.json")), json.load(open("/root/.vp/MANIFEST.schema.json")))
print("MANIFEST valid")''' % HERE], capture_output=True, text=True)
        sys.stdout.write(r.stdout); sys.stderr.write(r.stderr[-2000:])
    except FileNotFoundError:
        pass


if __name__ == '__main__':
    main()
