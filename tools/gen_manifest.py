#!/venv/bin/python
"""regenerate /verif/MANIFEST.json from the table below (kept valid at all times)"""
import json, os, sys, subprocess

HERE = os.path.dirname(os.path.dirname(os.path.abspath(__file__)))

# id -> (engine, technique, level text, level note, design ref)
CHECKS = {
 'C01': ('E1 state-graph / E3', 'exhaustive enumeration of the full configuration product (solver x dim x cost x start x box/mode x constraint x penalty x reducer), each run explored Step by Step with every iteration boundary judged against an objective rebuilt from the raw user functions',
         'The complete product of a finite configuration alphabet is executed on the real solvers (and each scipy-style wrapper once per configuration); at every iteration boundary the best point must be in the recorded call log with energy reducer(cost)+penalty recomputed by the harness, every member energy must equal the harness objective at that member, and the best must not be worse than the initial energy.',
         'constraints restricted to deterministic idempotent box-preserving ones (mechanically pre-checked); clip=False excluded; 5+1 cost functions; runs of 8 (quick) / 12 (thorough) iterations', '3/C01'),
 'C02': ('E1 state-graph + E2 choice-tree', 'explicit-state exploration of all op sequences (SetStrictRanges/SetConstraints interleaved with Step) per solver and (tight,clip) mode, special boxes, plus exhaustive enumeration of every random answer of the clip=False re-entry and of the initial-point generators',
         'Every call the recorded cost function receives while a box is in force is checked against the box the harness knows to be current, over all histories <= depth 4/5 of a 6-op alphabet x 4 solvers x 7 range modes, over degenerate / one-sided / None / negative boxes, over every answer (within a deviation bound) of the random draws made by the randomising bounds constraint, and over every draw of SetRandomInitialPoints / SetInitialPoints.',
         'DE under clip=False uses a seeded private generator; an exception raised while installing ranges is recorded, not judged; best-inside-box judged for configurations unchanged since before the first iteration', '3/C02'),
 'C08': ('E3 + E2 choice-tree', 'lock-step comparison with reference models over a complete grid (NM/Powell) and exhaustive enumeration of every answer of sample/randrange/random() for every DE strategy call (complete tree) and whole generations (deviation bound 2)',
         'Nelder-Mead and Powell solvers are stepped iteration by iteration against independent reference implementations (textbook NM; direction-set loop around the same Brent search) over a cost x start x tolerance x maxiter grid with all NM branches and exact ties exercised, fmin/fmin_powell against scipy.optimize.fmin and the vendored scipy-0.6 routines; every DE trial is decoded from an encoded population under every scripted random answer and judged by the strategy definition; selection judged strictly.',
         'random() answers from {0, CR, 0.999}; four *Bin strategies judged under either crossover rule (DESIGN section 5); Powell stop rule (gtol=2) differences recorded, not judged', '3/C08'),
 'C04': ('E1 state-graph', 'explicit-state exploration of all operation sequences up to a depth on real solver objects (replayed histories, canonical snapshots) against a list-based reference model of counters, monitors and callbacks',
         'Every history of length <= 4 (quick) / 5 (thorough) over a 10-operation alphabet (Step, Solve, SetEvaluationLimits(new), SetPenalty, SetConstraints, SetStrictRanges, SetEvaluationMonitor new/old, SetGenerationMonitor, Finalize) is executed on each base solver x cost x monitor kind, and after every operation the real call count, monitor contents, iteration count, callback log and energy history are compared with the harness reference model.',
         'iterations counted by wrapping the bound _Step on the instance; cost alphabet {sphere, steps, infwall}; in-process map; monotonicity judged per segment of unchanged objective (DESIGN section 5)', '3/C04'),
 'C05': ('E1 state-graph', 'explicit-state exploration of operation sequences (general alphabet to a depth + complete limit alphabet at every prefix) with a harness-side model of the absolute limits; stop conditions observed at the moment each iteration begins',
         'All histories <= depth over a 10-op alphabet, plus Step^k . SetEvaluationLimits(g,e,new) . tail for all 40 limit triples, k<=3, 9 tails, on every base solver and two terminations, plus the four scipy-style wrappers over 30 limit pairs; at each iteration start the real generation/evaluation counts, exit flag and termination truth are compared with the modelled limits, and every stop message / warnflag is judged against the final state.',
         'exit request = the flag the signal handler sets; default limits taken from the documented formula; limits <= 5 plus None', '3/C05'),
 'C17': ('E2 choice-tree', 'exhaustive enumeration of every random answer of the cycle-breaking draws (choice-tree DFS, complete first event + deviation bound) over all member tuples/inputs/iteration caps, on the real combinators',
         'Bounded exhaustive exploration of the real and_/or_/not_ under a harness-owned random source: every configuration of the member alphabet x input grid x maxiter, every answer of the first randomisation event and all later answers within a deviation bound; success-path results re-judged against each member. Couplers and penalty combinators are enumerated over a grid against their literal definitions.',
         'member alphabet of 10 functions on 2-vectors; random() answers from a 5-value alphabet, randint complete; python semantics of list equality', '3/C17'),
}

TITLES = {}
for line in open(os.path.join(HERE, 'properties.jsonl')):
    p = json.loads(line)
    TITLES[p['id']] = p['title']


def fix_commits():
    p = os.path.join(HERE, 'known_findings.json')
    if not os.path.exists(p):
        return []
    return [f['commit'] for f in json.load(open(p)).get('findings', []) if f.get('status') == 'fixed' and f.get('commit')]


def main():
    checks = []
    for pid in sorted(CHECKS):
        eng, tech, text, note, ref = CHECKS[pid]
        checks.append({
            'property_id': pid,
            'quick_cmd': './check %s --tier quick' % pid,
            'thorough_cmd': './check %s --tier thorough' % pid,
            'evidence_file': 'evidence/%s.json' % pid,
            'replay_cmd_template': './check %s --replay {path}' % pid,
            'engine': eng,
            'level_claimed': {'category': 'model_checking', 'text': text, 'design_ref': 'DESIGN.md section ' + ref},
            'level_note': note,
            'technique': tech,
        })
    na = [{'property_id': pid, 'reason': 'check not built yet in this session (planned in DESIGN.md section 3; model checking applies)'}
          for pid in sorted(TITLES) if pid not in CHECKS]
    man = {
        'version': 1,
        'setup_cmd': 'cd /verif && /venv/bin/python tools/selftest.py',
        'hooks': {
            'guard': 'MYSTIC_VERIF',
            'enable': 'none needed: the checks import /repo directly and replace user-supplied seams (cost, map, random, clock) from outside; no guarded source hooks exist',
            'baseline_off_cmd': 'cd /repo && /venv/bin/python -m pytest -ra -q -p no:cacheprovider --timeout=900 --continue-on-collection-errors',
            'source_commits': [],
            'add_only': True,
        },
        'engines': [
            {'name': 'E1 state-graph explorer', 'path': 'mc/graph.py', 'serves_properties': ['C01', 'C02', 'C03', 'C04', 'C05', 'C06', 'C07', 'C09', 'C11', 'C15', 'C20'],
             'kind_free_text': 'BFS over operation sequences on real objects rebuilt by replay; canonical hashing; invariants + reference model in every state'},
            {'name': 'E2 choice-tree explorer', 'path': 'mc/tree.py + mc/env.py', 'serves_properties': ['C02', 'C07', 'C08', 'C09', 'C12', 'C16', 'C17'],
             'kind_free_text': 'stateless DFS over every environment answer (random draws, map evaluation order, thread hand-offs) with prefix replay and deviation bounding'},
            {'name': 'E3 small-scope enumerator', 'path': 'props/*.py', 'serves_properties': ['C10', 'C12', 'C13', 'C14', 'C15', 'C16', 'C18', 'C19', 'C20'],
             'kind_free_text': 'complete Cartesian enumeration of finite input/program alphabets against independent exact oracles'},
        ],
        'checks': checks,
        'notes': 'All checks run the real code in /repo (imported from the working tree, nothing cached). known_findings.json lists repaired (fix:) and recorded defects. tools/baseline.py re-runs the pinned suite.',
        'not_applicable': na,
    }
    with open(os.path.join(HERE, 'MANIFEST.json'), 'w') as f:
        json.dump(man, f, indent=1)
    # validate
    try:
        r = subprocess.run(['python3-vt', '-c', '''
import json,jsonschema,sys
jsonschema.validate(json.load(open("%s/MANIFEST.json")), json.load(open("/root/.vp/MANIFEST.schema.json")))
print("MANIFEST valid")''' % HERE], capture_output=True, text=True)
        sys.stdout.write(r.stdout); sys.stderr.write(r.stderr[-2000:])
    except FileNotFoundError:
        pass


if __name__ == '__main__':
    main()
