"""Exact-rational interpreter for mystic constraint text (reference model of C12).

Independent of mystic and of sympy: the text is tokenised here, every numeric
literal becomes a ``fractions.Fraction`` (``0.1`` is exactly 1/10, ``1e-05`` is
exactly 1/100000), and the only operations are + - * / unary minus, integer
powers and parentheses over named variables.  A line is ``expr CMP expr`` with
CMP in  <  <=  =  ==  >=  >  != .  Division by zero (and 0**negative) makes the
line *undefined* at that point: ``Line.holds`` returns None, never raises.

``inf`` is accepted as a literal (python float infinity; only meaningful as a
whole side of a comparison, which is all that symbolic_bounds / linear_symbolic
can produce).
"""
import re
from fractions import Fraction

__all__ = ['ParseError', 'Undefined', 'Line', 'parse_line', 'parse_program',
           'holds_all', 'literals', 'is_dyadic_text', 'COMPARATORS']

COMPARATORS = ('<=', '>=', '==', '!=', '<', '>', '=')


class ParseError(ValueError):
    """the text is not in the supported grammar"""


class Undefined(ArithmeticError):
    """the expression has no value at the point (division by zero)"""


_TOKEN = re.compile(r"""\s*(?:
    (?P<num>(?:\d+\.\d*|\.\d+|\d+)(?:[eE][+-]?\d+)?)
  | (?P<name>[A-Za-z_][A-Za-z_0-9]*)
  | (?P<op>\*\*|<=|>=|==|!=|[-+*/()<>=])
)""", re.X)


def tokenize(text):
    out, pos, n = [], 0, len(text)
    while pos < n:
        m = _TOKEN.match(text, pos)
        if m is None or m.end() == pos:
            if text[pos:].strip() == '':
                break
            raise ParseError('cannot tokenise %r at %d' % (text, pos))
        pos = m.end()
        if m.group('num') is not None:
            out.append(('num', m.group('num')))
        elif m.group('name') is not None:
            out.append(('name', m.group('name')))
        else:
            out.append(('op', m.group('op')))
    return out


def _number(tok):
    s = tok
    if s.endswith('.'):
        s += '0'
    if s.startswith('.'):
        s = '0' + s
    s = s.replace('.e', '.0e').replace('.E', '.0E')
    return Fraction(s)


# ---------------------------------------------------------------- AST nodes
# ('num', Fraction) ('inf',) ('var', name) ('neg', a) ('add', a, b) ('sub', a, b)
# ('mul', a, b) ('div', a, b) ('pow', a, int)

class _Parser(object):
    def __init__(self, toks, text):
        self.t = toks
        self.i = 0
        self.text = text

    def peek(self):
        return self.t[self.i] if self.i < len(self.t) else (None, None)

    def take(self):
        tok = self.peek()
        self.i += 1
        return tok

    def expr(self):
        a = self.term()
        while self.peek() in (('op', '+'), ('op', '-')):
            op = self.take()[1]
            b = self.term()
            a = ('add' if op == '+' else 'sub', a, b)
        return a

    def term(self):
        a = self.unary()
        while self.peek() in (('op', '*'), ('op', '/')):
            op = self.take()[1]
            b = self.unary()
            a = ('mul' if op == '*' else 'div', a, b)
        return a

    def unary(self):
        if self.peek() == ('op', '-'):
            self.take()
            return ('neg', self.unary())
        if self.peek() == ('op', '+'):
            self.take()
            return self.unary()
        return self.power()

    def power(self):
        a = self.atom()
        if self.peek() == ('op', '**'):
            self.take()
            e = self.unary()          # right associative, binds tighter than unary minus on its left
            k = _const(e)
            if k is None or k.denominator != 1:
                raise ParseError('only constant integer powers are supported: %r' % self.text)
            return ('pow', a, int(k))
        return a

    def atom(self):
        kind, val = self.take()
        if kind == 'num':
            return ('num', _number(val))
        if kind == 'name':
            if val == 'inf':
                return ('inf',)
            if self.peek() == ('op', '('):
                raise ParseError('function call %s(...) is outside the grammar: %r' % (val, self.text))
            return ('var', val)
        if (kind, val) == ('op', '('):
            a = self.expr()
            if self.take() != ('op', ')'):
                raise ParseError('missing ) in %r' % self.text)
            return a
        raise ParseError('unexpected %r in %r' % (val, self.text))


def _const(node):
    """value of a variable-free node, else None"""
    try:
        return _ev(node, None)
    except (KeyError, TypeError, Undefined):
        return None


def _ev(node, env):
    k = node[0]
    if k == 'num':
        return node[1]
    if k == 'var':
        return env[node[1]]
    if k == 'inf':
        return float('inf')
    if k == 'neg':
        return -_ev(node[1], env)
    if k == 'pow':
        a = _ev(node[1], env)
        if node[2] < 0 and a == 0:
            raise Undefined('0**negative')
        return a ** node[2]
    a = _ev(node[1], env)
    b = _ev(node[2], env)
    if k == 'add':
        return a + b
    if k == 'sub':
        return a - b
    if k == 'mul':
        return a * b
    if k == 'div':
        if b == 0:
            raise Undefined('division by zero')
        return a / b
    raise AssertionError(k)


def _vars(node, acc):
    if node[0] == 'var':
        acc.add(node[1])
    elif node[0] in ('neg', 'pow'):
        _vars(node[1], acc)
    elif node[0] in ('add', 'sub', 'mul', 'div'):
        _vars(node[1], acc)
        _vars(node[2], acc)
    return acc


def _lits(node, acc):
    if node[0] == 'num':
        acc.append(node[1])
    elif node[0] in ('neg', 'pow'):
        _lits(node[1], acc)
    elif node[0] in ('add', 'sub', 'mul', 'div'):
        _lits(node[1], acc)
        _lits(node[2], acc)
    return acc


_CMP = {
    '<': lambda a, b: a < b, '<=': lambda a, b: a <= b,
    '>': lambda a, b: a > b, '>=': lambda a, b: a >= b,
    '=': lambda a, b: a == b, '==': lambda a, b: a == b,
    '!=': lambda a, b: a != b,
}


class Line(object):
    """one parsed relation"""
    __slots__ = ('text', 'lhs', 'cmp', 'rhs', 'variables')

    def __init__(self, text, lhs, cmp, rhs):
        self.text, self.lhs, self.cmp, self.rhs = text, lhs, cmp, rhs
        self.variables = frozenset(_vars(lhs, set()) | _vars(rhs, set()))

    def sides(self, env):
        """(lhs value, rhs value); raises Undefined"""
        return _ev(self.lhs, env), _ev(self.rhs, env)

    def holds(self, env):
        """True / False, or None when a divisor is zero at the point"""
        try:
            a, b = self.sides(env)
        except Undefined:
            return None
        return bool(_CMP[self.cmp](a, b))

    def gap(self, env):
        """lhs - rhs (exact), or None when undefined / infinite"""
        try:
            a, b = self.sides(env)
        except Undefined:
            return None
        if isinstance(a, float) or isinstance(b, float):
            return None
        return a - b

    def __repr__(self):
        return 'Line(%r)' % self.text


def parse_line(text):
    toks = tokenize(text)
    idx = [i for i, t in enumerate(toks) if t[0] == 'op' and t[1] in COMPARATORS]
    if len(idx) != 1:
        raise ParseError('expected exactly one comparator in %r' % text)
    i = idx[0]
    if i == 0 or i == len(toks) - 1:
        raise ParseError('empty side in %r' % text)
    sides = []
    for part in (toks[:i], toks[i + 1:]):
        p = _Parser(part, text)
        node = p.expr()
        if p.i != len(part):
            raise ParseError('trailing tokens in %r' % text)
        sides.append(node)
    return Line(text.strip(), sides[0], toks[i][1], sides[1])


def parse_program(text):
    """list of Lines of a multi-line constraint text (blank lines ignored)"""
    return [parse_line(l) for l in text.split('\n') if l.strip()]


def holds_all(lines, env):
    """conjunction: True when every line holds; None when no line is False
    but at least one is undefined; False otherwise"""
    undefined = False
    for ln in lines:
        h = ln.holds(env)
        if h is False:
            return False
        if h is None:
            undefined = True
    return None if undefined else True


def literals(text):
    """all numeric literals of a text as Fractions"""
    acc = []
    for ln in parse_program(text):
        _lits(ln.lhs, acc)
        _lits(ln.rhs, acc)
    return acc


def is_dyadic_text(text):
    """True when every numeric literal is a dyadic rational (so binary floating
    point and this interpreter agree exactly on the literal)"""
    for q in literals(text):
        d = q.denominator
        if d & (d - 1):
            return False
    return True
