"""C11 reference: the documented definitions of the collapse detectors.

Written from the docstrings of mystic.collapse / mystic.termination only; plain
Python on tuples of floats, no numpy, no mystic import.

A *history* is a list of parameter tuples (oldest first).  The look-back window
of N generations is the last N recorded entries (all of them when fewer exist).

  collapse_at      change(param[i]) <= tolerance over the window, where
                   change = max - min              (target None)
                   change = max |param[i] - t_i|   (target scalar or per-parameter list)
  collapse_as      pairs i<j with  max_t |x_i - x_j| <= tolerance           (offset False)
                                   max_t |x_i-x_j| - min_t |x_i-x_j| <= tol (offset True)
  collapse_weight  (measure, index) with max_t weight <= tolerance
  collapse_position(measure, (i,j)) with max_t |pos_i - pos_j| <= tolerance
                   (the detector's docstring leaves the formula blank; this is the
                   CollapsePosition docstring's "max(pairwise(positions))", with the
                   same non-strict comparison the other three detectors document)

Masks (canonical form used here):
  at        a set of ints
  as        a set holding ints (drop every pair containing the index) and
            2-tuples (drop that pair, either orientation)
  weight    a set of (measure, index)
  position  a set of (measure, frozenset({i,j}))
"""
import itertools


def window(hist, generations):
    n = int(generations)
    return list(hist[-n:]) if n > 0 else list(hist)


# ------------------------------------------------------------------ parameters
def at_unmasked(hist, target, tolerance, generations):
    w = window(hist, generations)
    dim = len(w[0])
    out = set()
    for i in range(dim):
        col = [x[i] for x in w]
        if target is None:
            change = max(col) - min(col)
        else:
            t = target[i] if isinstance(target, (list, tuple)) else target
            change = max(abs(v - t) for v in col)
        if change <= tolerance:
            out.add(i)
    return out


def at_ref(hist, target, tolerance, generations, mask=None):
    out = at_unmasked(hist, target, tolerance, generations)
    if mask:
        out -= set(int(i) for i in mask)
    return out


def as_unmasked(hist, offset, tolerance, generations):
    w = window(hist, generations)
    dim = len(w[0])
    out = set()
    for i, j in itertools.combinations(range(dim), 2):
        d = [abs(x[i] - x[j]) for x in w]
        change = (max(d) - min(d)) if offset else max(d)
        if change <= tolerance:
            out.add((i, j))
    return out


def as_mask_hits(mask, pair):
    """does the documented mask (indices and/or pairs) cover this pair?"""
    i, j = pair
    for m in mask or ():
        if isinstance(m, (tuple, list)):
            if set(int(v) for v in m) == {i, j} and len(m) == 2:
                return True
        elif int(m) in (i, j):
            return True
    return False


def as_ref(hist, offset, tolerance, generations, mask=None):
    return set(p for p in as_unmasked(hist, offset, tolerance, generations) if not as_mask_hits(mask, p))


# ------------------------------------------------------------------ product measures
def layout(npts):
    """parameter-vector layout of a product measure (mystic.math.discrete
    product_measure.flatten/load): for each measure its n weights, then its n positions"""
    out, off = [], 0
    for n in npts:
        out.append((list(range(off, off + n)), list(range(off + n, off + 2 * n))))
        off += 2 * n
    return out


def nparams(npts):
    return 2 * sum(npts)


def weight_unmasked(hist, npts, tolerance, generations):
    w = window(hist, generations)
    out = set()
    for m, (wi, pi) in enumerate(layout(npts)):
        for k, idx in enumerate(wi):
            if max(x[idx] for x in w) <= tolerance:
                out.add((m, k))
    return out


def position_unmasked(hist, npts, tolerance, generations):
    w = window(hist, generations)
    out = set()
    for m, (wi, pi) in enumerate(layout(npts)):
        for a, b in itertools.combinations(range(len(pi)), 2):
            if max(abs(x[pi[a]] - x[pi[b]]) for x in w) <= tolerance:
                out.add((m, frozenset((a, b))))
    return out


# ------------------------------------------------------------------ formats (weight / position)
FORMATS = ('dict', 'set', 'where')


def weight_universe(npts):
    return [(m, k) for m, n in enumerate(npts) for k in range(n)]


def position_universe(npts, reversed_too=False):
    out = []
    for m, n in enumerate(npts):
        for a, b in itertools.combinations(range(n), 2):
            out.append((m, (a, b)))
            if reversed_too:
                out.append((m, (b, a)))
    return out


def build_mask(fmt, items):
    """items: ordered list of (measure, index) or (measure, (i,j)) -> a mask in the named accepted format"""
    items = list(items)
    if fmt == 'dict':
        d = {}
        for m, v in items:
            d.setdefault(m, set()).add(v)
        return d
    if fmt == 'set':
        return set(items)
    if fmt == 'where':
        return (tuple(m for m, v in items), tuple(v for m, v in items))
    if fmt == 'wherelist':
        return [[m for m, v in items], [v for m, v in items]]
    raise KeyError(fmt)


def fmt_of(obj):
    if obj is None:
        return 'dict'          # documented default
    if type(obj) is dict:
        return 'dict'
    if type(obj) is set:
        return 'set'
    return 'where'


def items_of(obj):
    """a detector result / mask in any of the three formats -> list of raw (measure, value) items;
    raises ValueError when the object is not in one of the formats"""
    if obj is None:
        return []
    if type(obj) is dict:
        return [(m, v) for m, vs in obj.items() for v in vs]
    if type(obj) is set:
        return [tuple(e) for e in obj]
    if isinstance(obj, (tuple, list)):
        if len(obj) == 0:
            return []
        if len(obj) != 2 or len(obj[0]) != len(obj[1]):
            raise ValueError('not a (measures, values) pair: %r' % (obj,))
        return list(zip(obj[0], obj[1]))
    raise ValueError('unknown format: %r' % (obj,))


def canon_weight(obj):
    return set((int(m), int(k)) for m, k in items_of(obj))


def canon_position(obj):
    out = set()
    for m, p in items_of(obj):
        p = tuple(p)
        if len(p) != 2:
            raise ValueError('not a pair: %r' % (p,))
        out.add((int(m), frozenset((int(p[0]), int(p[1])))))
    return out


def union_mask(mask, result):
    """the mask a caller obtains by extending `mask` with a detector's own output
    (raw objects of the output are kept, so the detector sees its own element types)"""
    if mask is None:
        return result
    f = fmt_of(mask)
    if f == 'dict':
        d = dict((m, set(v)) for m, v in mask.items())
        for m, vs in (result or {}).items():
            d.setdefault(m, set()).update(vs)
        return d
    if f == 'set':
        return set(mask) | set(result or ())
    a = items_of(mask) + items_of(result)
    return (tuple(m for m, v in a), tuple(v for m, v in a))


def subsets(universe):
    universe = list(universe)
    for r in range(len(universe) + 1):
        for c in itertools.combinations(universe, r):
            yield list(c)


# ------------------------------------------------------------------ collapse_cost (weak, sound consequences of the docstring)
def cost_facts(xs, ys, limit, samples):
    """collapse_cost documents: 'bounds collapse will occur when cost(param) - min(cost) >= limit,
    for all N samples within an interval'; the result lists the intervals that remain.
    Returned per parameter p (only where the sorted order of the samples along p is
    unambiguous, i.e. the p-coordinates are pairwise distinct):
       runs[p]   = True  when >= N consecutive samples (sorted along p) are all strictly
                         above the limit  -> a collapse is documented,
                   False when no run of N consecutive samples at-or-above the limit exists
                         -> no collapse is documented,
                   None  otherwise (decided only by the >=/> boundary: not judged)
       good[p]   = p-coordinates of the samples strictly below the limit (they must never be cut away)
    """
    lo = min(ys)
    dim = len(xs[0])
    runs, good = {}, {}
    for p in range(dim):
        col = [x[p] for x in xs]
        if len(set(col)) != len(col):
            continue
        order = sorted(range(len(xs)), key=lambda k: col[k])
        strict = [ys[k] - lo > limit for k in order]
        weak = [ys[k] - lo >= limit for k in order]

        def longest(flags):
            best = cur = 0
            for f in flags:
                cur = cur + 1 if f else 0
                best = max(best, cur)
            return best
        if longest(strict) >= samples:
            runs[p] = True
        elif longest(weak) < samples:
            runs[p] = False
        else:
            runs[p] = None
        good[p] = [col[k] for k in order if ys[k] - lo < limit]
    return runs, good
