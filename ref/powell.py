"""Powell's direction-set method (reference model for C08).

An independent loop written from Powell (1964) in the form given in Numerical
Recipes ("powell"): one *iteration* minimises along every direction of the
current set in turn, remembering the direction of largest decrease; then, unless
the run stops, the extrapolated point 2*Pn - P0 is tried and the direction of
largest decrease is discarded in favour of Pn - P0 when

    f_E < f_0   and   2 (f_0 - 2 f_N + f_E) (f_0 - f_N - delta)^2 - delta (f_0 - f_E)^2 < 0

(the new direction is minimised along first, the last direction moves into the
discarded slot and the new one becomes the last).  The stop rule is the
relative decrease of one iteration: 2 (f_0 - f_N) <= ftol (|f_0| + |f_N|) + 1e-20.

The property says "given the same Brent line search": the 1-D minimiser is the
repository's own ``brent`` (vendored scipy 0.6), called exactly as documented
(bracket from (0, 1), tolerance 100*xtol).  Everything else is this file's own.
"""
import numpy as np


def _brent():
    from mystic._scipy060optimize import brent
    return brent


class Counted(object):
    def __init__(self, f):
        self.f = f
        self.n = 0

    def __call__(self, x):
        self.n += 1
        return self.f(x)


def line_minimum(f, p, xi, tol, maxiter=500):
    """minimise f(p + a*xi) over a with Brent; return (fmin, p + a*xi, a*xi)"""
    a, fa, _it, _num = _brent()(lambda t: f(p + t * xi), full_output=1, tol=tol, maxiter=maxiter)
    step = a * xi
    return float(np.squeeze(fa)), p + step, step


def powell(func, x0, xtol=1e-4, ftol=1e-4, maxiter=None, maxfun=None, direc=None):
    """generator of records.

    ('init',  dict(x, fval, ncalls))
    ('lines', dict(iter, x, fval, f0, p0, bigind, delta, ncalls, stop))   after the n line minimisations
    ('extra', dict(iter, x, fval, direc, ncalls, branch, t, fe))          after the extrapolation step
        branch in 'no-gain' (f_E >= f_0), 'keep' (t >= 0), 'replace' (t < 0); t is None for 'no-gain'
    """
    f = Counted(func)
    x = np.array(x0, dtype=float).flatten()
    n = len(x)
    if maxiter is None:
        maxiter = n * 1000
    if maxfun is None:
        maxfun = n * 1000
    U = np.eye(n) if direc is None else np.array(direc, dtype=float)
    fval = float(np.squeeze(f(x)))
    yield 'init', dict(x=x.copy(), fval=fval, ncalls=f.n)
    p0 = x.copy()
    it = 0
    while True:
        f0 = fval
        big, delta = 0, 0.0
        for i in range(n):
            before = fval
            fval, x, _ = line_minimum(f, x, U[i], xtol * 100)
            if before - fval > delta:
                delta = before - fval
                big = i
        it += 1
        stop = None
        if 2.0 * (f0 - fval) <= ftol * (abs(f0) + abs(fval)) + 1e-20:
            stop = 'converged'
        elif f.n >= maxfun:
            stop = 'maxfun'
        elif it >= maxiter:
            stop = 'maxiter'
        yield 'lines', dict(iter=it, x=x.copy(), fval=fval, f0=f0, p0=p0.copy(), bigind=big,
                            delta=delta, ncalls=f.n, stop=stop)
        if stop:
            return
        new = x - p0
        xe = 2 * x - p0
        p0 = x.copy()
        fe = float(np.squeeze(f(xe)))
        branch, t = 'no-gain', None
        if fe < f0:
            t = 2.0 * (f0 - 2.0 * fval + fe) * (f0 - fval - delta) ** 2 - delta * (f0 - fe) ** 2
            branch = 'keep'
            if t < 0.0:
                branch = 'replace'
                fval, x, new = line_minimum(f, x, new, xtol * 100)
                U[big] = U[-1]
                U[-1] = new
        yield 'extra', dict(iter=it, x=x.copy(), fval=fval, direc=U.copy(), ncalls=f.n, branch=branch,
                             t=t, fe=fe)
