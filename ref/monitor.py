"""Reference model for C20: a monitor is a plain list of (x, y, id) tuples.

Nothing here imports mystic.  Values are normalised to nested python lists of
python floats by `plain`; comparison is by `canon` (float.hex, so nan == nan,
-0.0 != 0.0, and nesting depth / lengths must agree).  The model knows nothing
about the scaling factor k: the statement says it is transparent.
"""
import numpy


def plain(v):
    """nested list / tuple / ndarray / numpy scalar -> nested list of floats"""
    if isinstance(v, numpy.ndarray):
        return plain(v.tolist()) if v.ndim else float(v)
    if isinstance(v, (list, tuple)):
        return [plain(i) for i in v]
    if v is None:
        return None
    return float(v)


def canon(v):
    """hashable, bit-exact form of a nested value (sequence type is ignored)"""
    t = type(v)
    if t is float:
        return v.hex()
    if t is list or t is tuple:
        return tuple([canon(i) for i in v])
    if v is None:
        return None
    if isinstance(v, numpy.ndarray):
        return canon(v.tolist()) if v.ndim else float(v).hex()
    if isinstance(v, (list, tuple)):
        return tuple([canon(i) for i in v])
    if isinstance(v, (bool, numpy.bool_)):
        return ('bool', bool(v))
    return float(v).hex()


def canon_ids(ids):
    return tuple(None if i is None else int(i) for i in ids)


class RefMonitor(object):
    """records are tuples (x, y, id, key): x and y normalised by `plain`, key their
    canonical form (computed once, when the record is made)"""

    def __init__(self, records=()):
        self.r = list(records)

    # ---- the operations of the statement
    def record(self, x, y, id=None):
        self.record_plain(plain(x), plain(y), id)

    def record_plain(self, px, py, id=None, key=None):
        """px, py already normalised by `plain` (and never mutated afterwards)"""
        if key is None:
            key = (canon(px), canon(py), id)
        self.r.append((px, py, id, key))

    def __len__(self):
        return len(self.r)

    def index(self, i):
        rec = self.r[i]              # IndexError exactly when a list raises it
        return rec[0], rec[1]

    def slice(self, a, b, c=None):
        return RefMonitor(self.r[a:b:c])

    def concat(self, other):
        return RefMonitor(self.r + other.r)

    def extend(self, other):
        self.r = self.r + list(other.r)

    def prepend(self, other):
        self.r = list(other.r) + self.r

    # ---- observations
    @property
    def x(self):
        return [r[0] for r in self.r]

    @property
    def y(self):
        return [r[1] for r in self.r]

    @property
    def id(self):
        return [r[2] for r in self.r]

    def key(self):
        return tuple([r[3] for r in self.r])


# ---------------------------------------------------------------- file layouts
def population(x):
    """a recorded parameter set as a list of candidates: a 1-d x is one candidate"""
    x = plain(x)
    if not isinstance(x, list):
        return [[x]]
    if len(x) and not isinstance(x[0], list):
        return [x]
    return x


def cube(xs):
    """c[t][j][i]: iteration t, candidate j, parameter i"""
    return [population(x) for x in xs]


def permute(c, order):
    """pure axis permutation of a rectangular cube c[t][j][i]; order is a string
    over 'tji' naming the axes of the result from the outside in, e.g. 'itj' is
    the documented support layout r[i][t][j] == c[t][j][i]"""
    nt = len(c)
    nj = len(c[0]) if nt else 0
    ni = len(c[0][0]) if nj else 0
    size = {'t': nt, 'j': nj, 'i': ni}
    a, b, d = order
    out = []
    for p in range(size[a]):
        row = []
        for q in range(size[b]):
            col = []
            for s in range(size[d]):
                ix = {a: p, b: q, d: s}
                col.append(c[ix['t']][ix['j']][ix['i']])
            row.append(col)
        out.append(row)
    return out


def iterations_global(ids, logged=None):
    """what a LoggingMonitor writes: (call number,) or (call number, id)"""
    out = []
    for n, i in enumerate(ids):
        if logged is not None and n not in logged:
            continue
        out.append((n,) if i is None else (n, i))
    return out


def iterations_per_id(ids):
    """(iteration, id) with one iteration counter per id; (iteration,) when no
    record carries an id (documented in munge._process_ids / read_history)"""
    if all(i is None for i in ids):
        return [(n,) for n in range(len(ids))]
    seen = {}
    out = []
    for i in ids:
        n = seen.get(i, 0)
        seen[i] = n + 1
        out.append((n, i))
    return out
