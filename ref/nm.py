"""Textbook Nelder-Mead (reference model for C08).

Written from the description of ``scipy.optimize.fmin`` (Nelder & Mead 1965 in
the formulation of Lagarias, Reeds, Wright & Wright 1998, which is what scipy
documents): standard coefficients rho=1 (reflection), chi=2 (expansion),
psi=1/2 (contraction), sigma=1/2 (shrink); the initial simplex is x0 plus one
vertex per coordinate with that coordinate increased by 5 % (or set to 0.00025
when it is zero); vertices are kept ordered by function value, ties keep their
previous relative order and an accepted point goes *after* the vertices it ties
with (Lagarias et al. tie-breaking rule = a stable sort with the new point in
the last slot).

Plain Python floats and lists only - nothing from mystic, nothing from scipy.
Each completed iteration is labelled with the branch that produced it:

    reflect        xr accepted            (f1 <= fr < fn)           1 evaluation
    expand         xe accepted            (fr < f1 and fe < fr)     2 evaluations
    reflect*       xr accepted after a failed expansion (fe >= fr)  2 evaluations
    contract-out   xc accepted            (fn <= fr < fn+1, fc <= fr)  2 evaluations
    contract-in    xcc accepted           (fr >= fn+1, fcc < fn+1)  2 evaluations
    shrink         all but the best vertex moved half way to it     2+n evaluations

and with the exact ties met by its comparisons (``ties`` - a tuple of names),
because the comparisons are where a one-token slip (< for <=) hides.
"""

RHO, CHI, PSI, SIGMA = 1.0, 2.0, 0.5, 0.5
NONZDELT, ZDELT = 0.05, 0.00025


class Counted(object):
    """cost wrapper counting evaluations"""

    def __init__(self, f):
        self.f = f
        self.n = 0

    def __call__(self, x):
        self.n += 1
        return float(self.f(list(x)))


def initial_simplex(x0, zdelt=ZDELT):
    sim = [list(map(float, x0))]
    for k in range(len(x0)):
        y = list(map(float, x0))
        if y[k] != 0:
            y[k] = (1 + NONZDELT) * y[k]
        else:
            y[k] = zdelt
        sim.append(y)
    return sim


def _order(sim, fsim):
    """stable ordering by function value"""
    idx = sorted(range(len(fsim)), key=lambda i: fsim[i])
    return [sim[i] for i in idx], [fsim[i] for i in idx]


def converged(sim, fsim, xtol, ftol):
    dx = max(abs(v[i] - sim[0][i]) for v in sim[1:] for i in range(len(sim[0])))
    df = max(abs(fsim[0] - f) for f in fsim[1:])
    return dx <= xtol and df <= ftol


def adaptive_coefficients(n):
    """Gao & Han 2012 (scipy's ``adaptive=True``): rho=1, chi=1+2/n, psi=0.75-1/(2n), sigma=1-1/n"""
    n = float(n)
    return 1.0, 1.0 + 2.0 / n, 0.75 - 1.0 / (2.0 * n), 1.0 - 1.0 / n


def nelder_mead(func, x0, xtol=1e-4, ftol=1e-4, maxiter=None, maxfun=None, zdelt=ZDELT, coefficients=None):
    """generator of records, one per iteration (iteration 0 = f(x0), iteration 1
    = the ordered initial simplex, iteration k >= 2 = one Nelder-Mead move).

    record: dict(iter, branch, ties, sim, fsim, ncalls, stop) where ``stop`` is
    None or the reason no further iteration follows ('converged', 'maxiter',
    'maxfun').  ``zdelt`` (the vertex coordinate used for a zero coordinate of x0,
    0.00025 in the reference) is a parameter only so that a deviation can be
    attributed to it."""
    n = len(x0)
    RHO, CHI, PSI, SIGMA = coefficients or (1.0, 2.0, 0.5, 0.5)
    if maxiter is None:
        maxiter = n * 200
    if maxfun is None:
        maxfun = n * 200
    f = Counted(func)
    sim = initial_simplex(x0, zdelt)
    fsim = [f(sim[0])]
    yield dict(iter=0, branch='init', ties=(), sim=[sim[0]], fsim=list(fsim), ncalls=f.n, stop=None)
    for v in sim[1:]:
        fsim.append(f(v))
    ties = ('sort',) if len(set(fsim)) < len(fsim) else ()
    sim, fsim = _order(sim, fsim)
    it = 1

    def why():
        if f.n >= maxfun:
            return 'maxfun'
        if it >= maxiter:
            return 'maxiter'
        if converged(sim, fsim, xtol, ftol):
            return 'converged'
        return None

    stop = why()
    yield dict(iter=it, branch='simplex', ties=ties, sim=[list(v) for v in sim], fsim=list(fsim),
               ncalls=f.n, stop=stop)
    while stop is None:
        ties = []
        worst = sim[-1]
        xbar = [0.0] * n
        for v in sim[:-1]:
            for i in range(n):
                xbar[i] += v[i]
        xbar = [s / n for s in xbar]
        xr = [(1 + RHO) * xbar[i] - RHO * worst[i] for i in range(n)]
        fr = f(xr)
        if fr == fsim[0]: ties.append('fr=f1')
        if fr == fsim[-2]: ties.append('fr=fn')
        if fr == fsim[-1]: ties.append('fr=fn+1')
        shrink = False
        if fr < fsim[0]:
            xe = [(1 + RHO * CHI) * xbar[i] - RHO * CHI * worst[i] for i in range(n)]
            fe = f(xe)
            if fe == fr: ties.append('fe=fr')
            if fe < fr:
                sim[-1], fsim[-1], branch = xe, fe, 'expand'
            else:
                sim[-1], fsim[-1], branch = xr, fr, 'reflect*'
        elif fr < fsim[-2]:
            sim[-1], fsim[-1], branch = xr, fr, 'reflect'
        elif fr < fsim[-1]:
            xc = [(1 + PSI * RHO) * xbar[i] - PSI * RHO * worst[i] for i in range(n)]
            fc = f(xc)
            if fc == fr: ties.append('fc=fr')
            if fc <= fr:
                sim[-1], fsim[-1], branch = xc, fc, 'contract-out'
            else:
                shrink = True
        else:
            xcc = [(1 - PSI) * xbar[i] + PSI * worst[i] for i in range(n)]
            fcc = f(xcc)
            if fcc == fsim[-1]: ties.append('fcc=fn+1')
            if fcc < fsim[-1]:
                sim[-1], fsim[-1], branch = xcc, fcc, 'contract-in'
            else:
                shrink = True
        if shrink:
            branch = 'shrink'
            for j in range(1, n + 1):
                sim[j] = [sim[0][i] + SIGMA * (sim[j][i] - sim[0][i]) for i in range(n)]
                fsim[j] = f(sim[j])
        if len(set(fsim)) < len(fsim): ties.append('sort')
        sim, fsim = _order(sim, fsim)
        it += 1
        stop = why()
        yield dict(iter=it, branch=branch, ties=tuple(ties), sim=[list(v) for v in sim],
                   fsim=list(fsim), ncalls=f.n, stop=stop)
