"""Exact-rational interpreter for mystic constraint text (reference model, C12-C14).

Independent of mystic: the text is tokenised and parsed here (no str.replace, no
eval/exec, no sympy).  Supported: numeric literals (int, decimal, exponent
form), variables (``x0..x11`` with any base name, or an explicit list of names),
named constants (``locals``), ``+ - * / **`` (``**`` with integer exponents),
unary ``+``/``-``, parentheses, ``abs()`` and the comparators
``=  ==  <  <=  >  >=  !=``.  Precedence and associativity are Python's.

Two evaluation modes share one syntax tree:

* ``exact``  - every literal is a ``fractions.Fraction`` of its *decimal text*
  (``Fraction('0.1')``; or of the float the text denotes with
  ``float_literals=True``), every input number is converted exactly
  (``Fraction(0.1)`` is the double, not 1/10) and all arithmetic is rational.
  Non-finite inputs, division by zero and non-integer exponents raise
  ``Undefined``.
* ``float``  - plain IEEE double arithmetic in the order the text states it, "as
  the user would" evaluate the line at a Python prompt; overflow gives +-inf,
  ``inf-inf`` gives nan, division by zero raises ``Undefined``.

    >>> r = parse_line('x0 <= 2*x1 - x10', variables='x')
    >>> r.holds([1, 1, 0,0,0,0,0,0,0,0, 1])          # exact
    True
    >>> r.value([1.5, 1, 0,0,0,0,0,0,0,0, 1])        # lhs - rhs, exact
    Fraction(1, 2)
    >>> sys_ = parse('a > b\\nabs(c) != 1e300*a', variables=['a','b','c'])
    >>> [q.cmp for q in sys_], holds_all(sys_, [1, 0, 5])
    (['>', '!='], True)
"""
import re
import math
from fractions import Fraction

__all__ = ['Undefined', 'ParseError', 'Relation', 'Expr', 'parse', 'parse_line', 'parse_expr',
           'holds_all', 'parse_cases', 'holds_any', 'boundary_value', 'exact', 'is_float_exact', 'COMPARATORS']

COMPARATORS = ('<=', '>=', '==', '!=', '<', '>', '=')
MAX_EXPONENT = 64


class Undefined(ArithmeticError):
    """the expression has no value at this point (division by zero, non-finite input in exact mode...)"""


class ParseError(ValueError):
    pass


_TOKEN = re.compile(r"""\s*(?:
    (?P<num>(?:\d+\.\d*|\.\d+|\d+)(?:[eE][+-]?\d+)?)
  | (?P<name>[A-Za-z_][A-Za-z_0-9]*)
  | (?P<op>\*\*|<=|>=|==|!=|[-+*/()<>=,])
)""", re.X)


def tokenize(text):
    pos, out = 0, []
    text = text.rstrip()
    while pos < len(text):
        m = _TOKEN.match(text, pos)
        if not m or m.end() == pos:
            raise ParseError('cannot tokenise %r at column %d' % (text, pos))
        pos = m.end()
        kind = m.lastgroup
        out.append((kind, m.group(kind)))
    return out


def exact(v):
    """exact Fraction of a python/numpy number (the double itself, not its repr)"""
    if isinstance(v, Fraction):
        return v
    if isinstance(v, bool):
        return Fraction(int(v))
    if isinstance(v, int):
        return Fraction(v)
    f = float(v)
    if f != f or f in (float('inf'), float('-inf')):
        raise Undefined('non-finite value %r has no rational value' % (v,))
    return Fraction(f)


def is_float_exact(q):
    """True when the rational q is exactly a finite double"""
    try:
        f = float(q)
    except OverflowError:
        return False
    return f not in (float('inf'), float('-inf')) and Fraction(f) == q


# ----------------------------------------------------------------- syntax tree
class Expr(object):
    """syntax tree node: ('num', Fraction, text) ('var', index, name) ('const', name)
    ('neg', a) ('pos', a) ('abs', a) ('+',a,b) ('-',a,b) ('*',a,b) ('/',a,b) ('**',a,b)"""
    __slots__ = ('op', 'args')

    def __init__(self, op, *args):
        self.op, self.args = op, args

    def __repr__(self):
        return 'Expr(%r, %s)' % (self.op, ', '.join(map(repr, self.args)))

    def variables(self):
        """sorted indices of the variables the expression mentions"""
        if self.op == 'var':
            return [self.args[0]]
        out = set()
        for a in self.args:
            if isinstance(a, Expr):
                out.update(a.variables())
        return sorted(out)

    # -- evaluation ---------------------------------------------------------
    def eval(self, x, mode='exact', consts=None, float_literals=False):
        """value at the point x (sequence indexed by variable number)"""
        if mode == 'exact':
            return self._exact(x, consts or {}, float_literals)
        if mode == 'float':
            return self._float(x, consts or {})
        raise ValueError(mode)

    def _exact(self, x, consts, fl):
        op, a = self.op, self.args
        if op == 'num':
            return exact(float(a[1])) if fl else a[0]
        if op == 'var':
            try:
                return exact(x[a[0]])
            except IndexError:
                raise Undefined('point of length %d has no entry %d (%s)' % (len(x), a[0], a[1]))
        if op == 'const':
            return exact(consts[a[0]])
        if op == 'neg':
            return -a[0]._exact(x, consts, fl)
        if op == 'pos':
            return a[0]._exact(x, consts, fl)
        if op == 'abs':
            return abs(a[0]._exact(x, consts, fl))
        l = a[0]._exact(x, consts, fl)
        r = a[1]._exact(x, consts, fl)
        if op == '+':
            return l + r
        if op == '-':
            return l - r
        if op == '*':
            return l * r
        if op == '/':
            if r == 0:
                raise Undefined('division by zero')
            return l / r
        if op == '**':
            if r.denominator != 1 or abs(r) > MAX_EXPONENT:
                raise Undefined('exponent %s is not a small integer' % r)
            if l == 0 and r < 0:
                raise Undefined('0 to a negative power')
            return l ** int(r)
        raise AssertionError(op)

    def _float(self, x, consts):
        op, a = self.op, self.args
        if op == 'num':
            return float(a[1])
        if op == 'var':
            try:
                return float(x[a[0]])
            except IndexError:
                raise Undefined('point of length %d has no entry %d (%s)' % (len(x), a[0], a[1]))
        if op == 'const':
            return float(consts[a[0]])
        if op == 'neg':
            return -a[0]._float(x, consts)
        if op == 'pos':
            return a[0]._float(x, consts)
        if op == 'abs':
            return abs(a[0]._float(x, consts))
        l = a[0]._float(x, consts)
        r = a[1]._float(x, consts)
        if op == '+':
            return l + r
        if op == '-':
            return l - r
        if op == '*':
            return l * r
        if op == '/':
            if r == 0:
                raise Undefined('division by zero')
            return l / r
        if op == '**':
            if r != int(r) or abs(r) > MAX_EXPONENT:
                raise Undefined('exponent %s is not a small integer' % r)
            if l == 0 and r < 0:
                raise Undefined('0 to a negative power')
            try:
                return l ** int(r)
            except OverflowError:
                return math.inf if (l > 0 or int(r) % 2 == 0) else -math.inf
        raise AssertionError(op)


class _Parser(object):
    def __init__(self, tokens, variables, consts, text):
        self.t, self.i, self.text = tokens, 0, text
        self.consts = consts
        if isinstance(variables, str):
            self.base = re.compile(r'^' + re.escape(variables) + r'(\d+)$')
            self.names = None
        else:
            self.base = None
            self.names = {n: k for k, n in enumerate(variables)}
            if len(self.names) != len(list(variables)):
                raise ParseError('duplicate variable names %r' % (variables,))

    def peek(self):
        return self.t[self.i] if self.i < len(self.t) else (None, None)

    def take(self, val=None):
        k, v = self.peek()
        if k is None or (val is not None and v != val):
            raise ParseError('expected %r at token %d of %r' % (val, self.i, self.text))
        self.i += 1
        return k, v

    def arith(self):
        node = self.term()
        while self.peek()[1] in ('+', '-'):
            op = self.take()[1]
            node = Expr(op, node, self.term())
        return node

    def term(self):
        node = self.factor()
        while self.peek()[1] in ('*', '/'):
            op = self.take()[1]
            node = Expr(op, node, self.factor())
        return node

    def factor(self):
        v = self.peek()[1]
        if v == '-':
            self.take()
            return Expr('neg', self.factor())
        if v == '+':
            self.take()
            return Expr('pos', self.factor())
        return self.power()

    def power(self):
        node = self.atom()
        if self.peek()[1] == '**':
            self.take()
            node = Expr('**', node, self.factor())   # right associative, binds tighter than unary minus on its left
        return node

    def atom(self):
        k, v = self.peek()
        if k == 'num':
            self.take()
            return Expr('num', Fraction(v), v)
        if k == 'name':
            self.take()
            if self.peek()[1] == '(':
                if v != 'abs':
                    raise ParseError('function %r is not supported (only abs) in %r' % (v, self.text))
                self.take('(')
                inner = self.arith()
                self.take(')')
                return Expr('abs', inner)
            if self.names is not None and v in self.names:
                return Expr('var', self.names[v], v)
            if self.base is not None:
                m = self.base.match(v)
                if m:
                    return Expr('var', int(m.group(1)), v)
            if v in self.consts:
                return Expr('const', v)
            raise ParseError('unknown name %r in %r' % (v, self.text))
        if v == '(':
            self.take('(')
            inner = self.arith()
            self.take(')')
            return inner
        raise ParseError('unexpected token %r in %r' % (v, self.text))


def parse_expr(text, variables='x', locals=None):
    """parse an expression without a comparator"""
    p = _Parser(tokenize(text), variables, dict(locals or {}), text)
    node = p.arith()
    if p.peek()[0] is not None:
        raise ParseError('trailing tokens in %r' % text)
    return node


# ------------------------------------------------------------------- relations
def _compare(cmp, l, r):
    if cmp in ('=', '=='):
        return l == r
    if cmp == '!=':
        return l != r
    if cmp == '<':
        return l < r
    if cmp == '<=':
        return l <= r
    if cmp == '>':
        return l > r
    if cmp == '>=':
        return l >= r
    raise ValueError(cmp)


class Relation(object):
    """one line ``lhs CMP rhs``"""

    def __init__(self, lhs, cmp, rhs, text, consts=None, float_literals=False):
        self.lhs, self.cmp, self.rhs, self.text = lhs, cmp, rhs, text
        self.consts = dict(consts or {})
        self.float_literals = float_literals

    def __repr__(self):
        return 'Relation(%r)' % self.text

    @property
    def is_equality(self):
        """'=' and '==' (mystic files '!=' with the equalities too: see kind)"""
        return self.cmp in ('=', '==')

    @property
    def kind(self):
        return {'=': 'equality', '==': 'equality', '!=': 'disequality'}.get(self.cmp, 'inequality')

    @property
    def strict(self):
        return self.cmp in ('<', '>', '!=')

    def variables(self):
        return sorted(set(self.lhs.variables()) | set(self.rhs.variables()))

    def isolated(self):
        """index of the variable standing alone on the left, or None"""
        return self.lhs.args[0] if self.lhs.op == 'var' else None

    def sides(self, x, mode='exact'):
        kw = dict(consts=self.consts)
        if mode == 'exact':
            kw['float_literals'] = self.float_literals
        return self.lhs.eval(x, mode, **kw), self.rhs.eval(x, mode, **kw)

    def holds(self, x, mode='exact'):
        """truth of the line at x; raises Undefined where a side has no value"""
        l, r = self.sides(x, mode)
        return bool(_compare(self.cmp, l, r))

    def value(self, x, mode='exact'):
        """lhs - rhs"""
        l, r = self.sides(x, mode)
        return l - r

    def violation(self, x, mode='exact'):
        """lhs - rhs oriented so that a non-strict inequality holds iff the value <= 0
        ('>' and '>=' are negated); for '=', '==' and '!=' it is lhs - rhs."""
        v = self.value(x, mode)
        return -v if self.cmp in ('>', '>=') else v


def parse_line(text, variables='x', locals=None, float_literals=False):
    """parse ``lhs CMP rhs`` into a Relation"""
    toks = tokenize(text)
    at = [k for k, (kind, v) in enumerate(toks) if kind == 'op' and v in COMPARATORS]
    if len(at) != 1:
        raise ParseError('expected exactly one comparator in %r' % text)
    k = at[0]
    consts = dict(locals or {})
    pl = _Parser(toks[:k], variables, consts, text)
    lhs = pl.arith()
    if pl.peek()[0] is not None:
        raise ParseError('trailing tokens on the left of %r' % text)
    pr = _Parser(toks[k + 1:], variables, consts, text)
    rhs = pr.arith()
    if pr.peek()[0] is not None:
        raise ParseError('trailing tokens on the right of %r' % text)
    return Relation(lhs, toks[k][1], rhs, text.strip(), consts, float_literals)


def parse(text, variables='x', locals=None, float_literals=False):
    """parse a multi-line constraint text into a list of Relations (blank lines skipped)"""
    return [parse_line(line, variables, locals, float_literals)
            for line in text.splitlines() if line.strip()]


def holds_all(relations, x, mode='exact'):
    """every line of one system holds at x (raises Undefined where a side has no value)"""
    return all(r.holds(x, mode) for r in relations)


def parse_cases(texts, variables='x', locals=None, float_literals=False):
    """``simplify(..., all=True)`` returns one multi-line text or a tuple of them (alternative
    cases): parse into a list of systems"""
    if isinstance(texts, str):
        texts = (texts,)
    return [parse(t, variables, locals, float_literals) for t in texts]


def holds_any(cases, x, mode='exact'):
    """x satisfies every line of at least one case"""
    return any(holds_all(c, x, mode) for c in cases)


def boundary_value(rel, x, j):
    """the value t for which ``rel`` is an exact equality at x with x[j] = t, when
    lhs - rhs is affine in x[j] (checked by exact evaluation at three points) and t is
    exactly a double; otherwise None.  Used to build points exactly on a boundary."""
    x = list(x)

    def g(t):
        y = list(x)
        y[j] = t
        return rel.value(y, 'exact')
    try:
        g0, g1, g2 = g(Fraction(0)), g(Fraction(1)), g(Fraction(2))
    except Undefined:
        return None
    slope = g1 - g0
    if slope == 0 or g2 - g1 != slope:
        return None
    t = -g0 / slope
    try:
        if g(t) != 0:
            return None
    except Undefined:
        return None
    return float(t) if is_float_exact(t) else None
