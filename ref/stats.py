"""Reference statistics for C18 / C19: textbook definitions in exact rationals.

Everything here works on ``fractions.Fraction`` (floats are converted exactly,
so a dyadic alphabet gives exact results on both sides).  Nothing is imported
from mystic.  Roots (std, L-p norms with p > 1, euclidean / minkowski distances)
are the only non-rational operations: the rational radicand is computed exactly
and one float root is taken at the very end.
"""
from fractions import Fraction
import math

F = Fraction
INF = float('inf')


_coprime = getattr(Fraction, '_from_coprime_ints', None)


def fr(x):
    """exact Fraction of an int / float / numpy scalar / Fraction"""
    if type(x) is Fraction:
        return x
    if isinstance(x, float):                      # includes numpy.float64
        if _coprime is not None:
            return _coprime(*x.as_integer_ratio())
        return Fraction(x)
    if isinstance(x, int):
        return Fraction(x)
    if isinstance(x, Fraction):
        return x
    return Fraction(float(x))


def frs(xs):
    return [fr(x) for x in xs]


def _ratio(x):
    try:
        return x.as_integer_ratio()              # float, int and Fraction all provide it
    except AttributeError:
        return fr(x).as_integer_ratio()


def ints(xs):
    """exact integers a_i and a common denominator D with x_i = a_i / D"""
    rs = [_ratio(x) for x in xs]
    D = math.lcm(*[r[1] for r in rs]) if rs else 1
    return [r[0] * (D // r[1]) for r in rs], D


def finite(xs):
    try:
        return all(math.isfinite(float(x)) for x in xs)
    except (TypeError, ValueError):
        return False


# ------------------------------------------------------------------ closeness
def close(got, want, rel=1e-12, floor=1):
    """|got - want| <= rel * max(|want|, floor).

    `want` may be exact (it is rounded to the nearest float, a relative error of 1e-16);
    `floor` is the absolute scale below which 'relative' stops shrinking (the
    alphabets are O(1), so floor=1 makes a target of 0 testable)."""
    try:
        g = float(got)
        w = float(want)
    except (ValueError, OverflowError, TypeError):
        return False
    if not math.isfinite(g):
        return False
    return abs(g - w) <= rel * max(abs(w), floor)


def close_root(got, radicand, p, rel=1e-12, floor=1):
    """got ~ radicand**(1/p) for an exact non-negative radicand"""
    want = float(radicand) ** (1.0 / p)
    try:
        g = float(got)
    except (TypeError, ValueError):
        return False
    if not math.isfinite(g):
        return False
    return abs(g - want) <= rel * max(abs(want), floor)


# ------------------------------------------------------------------ moments
def total(ws):
    a, D = ints(ws)
    return Fraction(sum(a), D)


def wmean(xs, ws=None):
    """sum(w x) / sum(w); None for zero total weight"""
    a, D = ints(xs)
    if ws is None:
        return Fraction(sum(a), D * len(a))
    b, _ = ints(ws)
    W = sum(b)
    if not W:
        return None
    return Fraction(sum(x * w for x, w in zip(a, b)), D * W)


def wmoment(xs, ws=None, order=2):
    """central moment  sum(w (x - mean)^order) / sum(w), by exact integer arithmetic:
    with x = a/D, w ~ b, W = sum b, S = sum a b:  sum b (W a - S)^k / (W^(k+1) D^k)"""
    a, D = ints(xs)
    b = [1] * len(a) if ws is None else ints(ws)[0]
    W = sum(b)
    if not W:
        return None
    S = sum(x * w for x, w in zip(a, b))
    num = sum(w * (W * x - S) ** order for x, w in zip(a, b))
    return Fraction(num, W ** (order + 1) * D ** order)


def wvariance(xs, ws=None):
    return wmoment(xs, ws, 2)


def spread(xs):
    """max - min, exact (comparisons of floats / Fractions are exact; only the difference needs rationals)"""
    return fr(max(xs)) - fr(min(xs))


def support_index(ws, tol=0):
    tol = fr(tol)
    return [i for i, w in enumerate(frs(ws)) if w > tol]


def support(xs, ws, tol=0):
    return [xs[i] for i in support_index(ws, tol)]


def expectation(f, pts, ws=None, tol=0):
    """sum_{w>tol} w f(x) / sum_{w>tol} w   (f maps a point to a Fraction-able number)"""
    ys = [fr(f(p)) for p in pts]
    if ws is None:
        return wmean(ys)
    idx = [i for i, w in enumerate(frs(ws)) if abs(w) > fr(tol)]
    if not idx:
        return None
    return wmean([ys[i] for i in idx], [ws[i] for i in idx])


def expected_moment(f, pts, ws=None, order=2, tol=0):
    ys = [fr(f(p)) for p in pts]
    if ws is None:
        return wmoment(ys, None, order)
    idx = [i for i, w in enumerate(frs(ws)) if abs(w) > fr(tol)]
    if not idx:
        return None
    return wmoment([ys[i] for i in idx], [ws[i] for i in idx], order)


def ess_values(f, pts, ws=None, tol=0):
    """values of f on the support (all points when ws is None)"""
    if ws is None:
        return [fr(f(p)) for p in pts]
    return [fr(f(pts[i])) for i in support_index(ws, tol)]


# ------------------------------------------------------------------ order statistics
def median(xs):
    """textbook unweighted median"""
    s = sorted(frs(xs))
    n = len(s)
    if n % 2:
        return s[n // 2]
    return (s[n // 2 - 1] + s[n // 2]) / 2


def wmedian_lower(xs, ws):
    """lower weighted median: smallest x whose cumulative weight reaches half the total"""
    pairs = sorted(zip(frs(xs), frs(ws)))
    t = sum((w for _, w in pairs), F(0))
    if not t:
        return None
    c = F(0)
    for x, w in pairs:
        c += w
        if c >= t / 2 and w > 0:
            return x
    return pairs[-1][0]


def mad(xs, ws=None):
    """median absolute deviation from the median (textbook; lower weighted median when weighted)"""
    if ws is None:
        m = median(xs)
        return median([abs(x - m) for x in frs(xs)])
    m = wmedian_lower(xs, ws)
    if m is None:
        return None
    return wmedian_lower([abs(x - m) for x in frs(xs)], ws)


def trimmed_weights(xs, ws=None, k=0, clip=False):
    """sort by x, normalise the weights, cut klo (khi) percent of the *mass* from the
    low (high) end - a boundary point keeps the part of its mass that lies inside -
    or, with clip, move the cut mass onto the boundary points (winsorising).
    Returns (sorted xs, trimmed weights summing to 1-klo-khi, or 1 with clip) or None."""
    xs = frs(xs)
    ws = [F(1)] * len(xs) if ws is None else frs(ws)
    try:
        klo, khi = k
    except TypeError:
        klo = khi = k
    klo, khi = fr(klo) / 100, fr(khi) / 100
    order = sorted(range(len(xs)), key=lambda i: xs[i])
    xs = [xs[i] for i in order]
    ws = [ws[i] for i in order]
    t = sum(ws, F(0))
    if not t or klo + khi >= 1:
        return None
    ws = [w / t for w in ws]
    out = [F(0)] * len(ws)
    c = F(0)
    for i, w in enumerate(ws):          # the part of [c, c+w] inside [klo, 1-khi]
        a, b = max(c, klo), min(c + w, 1 - khi)
        out[i] = max(b - a, F(0))
        c += w
    if clip:
        lo = min(i for i, w in enumerate(out) if w > 0)
        hi = max(i for i, w in enumerate(out) if w > 0)
        out[lo] += klo
        out[hi] += khi
    return xs, out


def tmean(xs, ws=None, k=0, clip=False):
    r = trimmed_weights(xs, ws, k, clip)
    if r is None:
        return None
    return wmean(*r)


def tvariance(xs, ws=None, k=0, clip=False):
    r = trimmed_weights(xs, ws, k, clip)
    if r is None:
        return None
    return wvariance(*r)


# ------------------------------------------------------------------ norms and metrics
def lnorm_radicand(xs, p):
    """exact sum |x|^p  (p a positive integer)"""
    return sum((abs(x) ** p for x in frs(xs)), F(0))


def lnorm_exact(xs, p):
    """exact value for p in {0, 1, inf}; None otherwise (use lnorm_radicand + close_root)"""
    xs = frs(xs)
    if p == 0:
        return F(sum(1 for x in xs if x != 0))
    if p == 1:
        return sum((abs(x) for x in xs), F(0))
    if p == INF:
        return max(abs(x) for x in xs)
    return None


def diffs(a, b):
    return [abs(x - y) for x, y in zip(frs(a), frs(b))]


def chebyshev(a, b):
    return max(diffs(a, b))


def hamming(a, b):
    return F(sum(1 for d in diffs(a, b) if d != 0))


def manhattan(a, b):
    return sum(diffs(a, b), F(0))


def minkowski_radicand(a, b, p):
    return sum((d ** p for d in diffs(a, b)), F(0))


# ------------------------------------------------------------------ product structure (C19)
def pack(nested):
    """Cartesian product of the factor lists, FIRST factor varying fastest (the order
    mystic's `_pack` docstring shows)"""
    out = [()]
    for factor in nested:            # each new factor becomes the slowest so far
        out = [prev + (x,) for x in factor for prev in out]
    return out


def product_weights(wts):
    out = []
    for tup in pack(wts):
        p = F(1)
        for w in tup:
            p *= fr(w)
        out.append(p)
    return out
