"""Exact p-norm oracle for C18 on vectors whose entries span the whole binary64 range.

Nothing is imported from mystic and no float arithmetic decides a verdict: every entry is converted to
an exact ``Fraction``, the radicand  S = sum |v_i|**p  is an exact rational (p a positive integer), and a
returned float g is compared with S by exact rational powers (``(g/(1+rel))**p <= S`` ...), so neither
``float(S)`` overflowing (entries ~2**600) nor underflowing (entries ~2**-600) can blur the judgement.

Tolerance rule (stated in full, used by props/c18.py for the 'scale' families)
-----------------------------------------------------------------------------
Let t_i = |v_i|**p exactly, S = sum t_i, M = max |v_i|, eta = 2**-1022 (smallest normal binary64).

 (R1) *p-norm.*  g is accepted as the p-norm iff there is an s in [S_lo, S_hi] with
      |g - s**(1/p)| <= rel * s**(1/p)   (rel = 1e-12), where
        S_lo = S - sum of the t_i with 0 < t_i < eta      (a binary64 evaluation of the documented formula
                                                            may flush such a term to 0 or keep a few of its bits)
        S_hi = S + k * 2**-1074, k = number of such terms  (or round it up to the next subnormal).
      When no term is below eta this is the plain relative test against S**(1/p).  The verdict says
      whether g met the plain test ('pnorm') or needed the allowance ('pnorm_within_underflow_allowance').
 (R2) *max-norm fallback.*  Only if S >= 2**1024 * (1 - 2**-40) - i.e. the radicand is not a finite binary64
      number, so every binary64 evaluation of  sum(|v|**p)**(1/p)  overflows (all terms are non-negative,
      partial sums never exceed S, rounding is ~2**-52 relative) - g is also accepted when
      |g - M| <= rel * M  (the library's documented "use the infinity norm" fallback).
      Below that threshold nothing overflows in any summation order and the fallback is NOT accepted.
 (R3) p = 1: |g - S| <= rel * S;  p = inf: |g - M| <= rel * M;  p = 0: g == number of non-zero entries.
      A norm of exactly 0 must be returned as exactly 0.

A vector is *in the underflow range* for p when S_lo < S * (1 - rel): then the allowance is not
negligible and statements that divide by the norm (normalize) are recorded, not judged.
"""
from fractions import Fraction as F

INF = float('inf')
ETA = F(1, 2 ** 1022)
SUBN = F(1, 2 ** 1074)
OVER = F(2 ** 1024) * (1 - F(1, 2 ** 40))
REL = F(1, 10 ** 12)

_coprime = getattr(F, '_from_coprime_ints', None)


def fr(x):
    if type(x) is F:
        return x
    if isinstance(x, float):
        return _coprime(*x.as_integer_ratio()) if _coprime else F(x)
    if isinstance(x, int):
        return F(x)
    try:
        return F(*x.as_integer_ratio())
    except AttributeError:
        return F(float(x))


# Distinct magnitudes are interned (index -> exact Fraction): hashing a Fraction whose denominator is 2**600 costs a
# modular inverse, a tuple of small ints does not, and the alphabets produce only a few hundred distinct magnitudes.
_VAL = []        # index -> |value| as an exact Fraction
_VIDX = {}       # (numerator, denominator) -> index
_DIFFIDX = {}    # (u, v) as given (floats / ints) -> index of |u - v|
_INFO = {}       # (sorted index tuple, p) -> Info


def intern_abs(a):
    a = abs(a)
    key = (a.numerator, a.denominator)
    i = _VIDX.get(key)
    if i is None:
        i = _VIDX[key] = len(_VAL)
        _VAL.append(a)
    return i


def idx_diff(u, v=0):
    """index of the exact |u - v| (u, v binary64 floats or ints)"""
    k = (u, v, type(u) is int, type(v) is int)
    i = _DIFFIDX.get(k)
    if i is None:
        i = _DIFFIDX[k] = intern_abs(fr(u) - fr(v))
    return i


class Info(object):
    __slots__ = ('S', 'lo', 'hi', 'M', 'nz', 'over', 'n_under', 'cls', 'wantf', 'Mf')


def info(idxs, p):
    """exact data of the vector with magnitudes _VAL[i], i in idxs, for a positive integer p or inf or 0"""
    key = (tuple(sorted(idxs)), p)
    r = _INFO.get(key)
    if r is not None:
        return r
    if len(_INFO) > 200000:
        _INFO.clear()
    av = [_VAL[i] for i in key[0]]
    r = Info()
    r.M = max(av) if av else F(0)
    r.nz = sum(1 for a in av if a)
    r.wantf = None
    r.Mf = float(r.M) if r.M < OVER else None
    if p in (0, INF):
        r.S = r.lo = r.hi = r.M
        r.over, r.n_under = False, 0
    elif p == 1:
        r.S = r.lo = r.hi = sum(av, F(0))
        r.over, r.n_under = r.S >= OVER, 0
    else:
        terms = [a ** p for a in av]
        r.S = sum(terms, F(0))
        under = [t for t in terms if 0 < t < ETA]
        r.lo, r.hi = r.S - sum(under, F(0)), r.S + len(under) * SUBN
        r.over, r.n_under = r.S >= OVER, len(under)
    r.cls = 'overflow' if r.over else 'underflowing_term' if r.n_under else 'plain'
    if p not in (0, INF) and not r.n_under and F(1, 2 ** 900) < r.S < F(2 ** 1000):
        r.wantf = float(r.S) ** (1.0 / p) if p != 1 else float(r.S)      # shortcut only: see judge_idx
    _INFO[key] = r
    return r


def radicand(absvec, p):
    """absvec: tuple of non-negative Fractions -> (S, S_lo, S_hi, M, nonzero count, overflow_ok, n_under)"""
    r = info([intern_abs(a) for a in absvec], p)
    return (r.S, r.lo, r.hi, r.M, r.nz, r.over, r.n_under)


def absvec(vec):
    return tuple(abs(fr(v)) for v in vec)


def _isfinite(g):
    return g == g and g not in (INF, -INF)


def _root_between(G, p, lo, hi, rel):
    """exists s in [lo, hi] with |G - s**(1/p)| <= rel * s**(1/p)   (G >= 0 exact)"""
    if G < 0:
        return False
    return (G / (1 + rel)) ** p <= hi and (G / (1 - rel)) ** p >= lo


_FREL = float(REL)


def judge_idx(got, idxs, p, rel=REL):
    """-> (verdict, Info).  verdict in 'zero', 'count', 'pnorm', 'pnorm_within_underflow_allowance', 'maxnorm',
    'maxnorm_on_overflow', or 'BAD:<why>'.  The float comparison at the top is a shortcut that can only say 'pnorm'
    and only with a margin of 4 (|g - fl(S**(1/p))| <= rel/4): anything else goes through exact rational powers."""
    r = info(idxs, p)
    try:
        g = float(got)
    except (TypeError, ValueError):
        return 'BAD:not_a_number', r
    if not _isfinite(g):
        return 'BAD:non_finite', r
    if r.wantf is not None and abs(g - r.wantf) <= 0.25 * _FREL * r.wantf and rel == REL:
        return 'pnorm', r
    G = fr(g)
    if p == 0:
        return ('count' if G == r.nz else 'BAD:count'), r
    if r.M == 0:
        return ('zero' if G == 0 else 'BAD:nonzero_for_zero_vector'), r
    if p == INF:
        return ('maxnorm' if abs(G - r.M) <= rel * r.M else 'BAD:maxnorm'), r
    if _root_between(G, p, r.S, r.S, rel):
        return 'pnorm', r
    if r.n_under and _root_between(G, p, r.lo, r.hi, rel):
        return 'pnorm_within_underflow_allowance', r
    if abs(G - r.M) <= rel * r.M:
        return ('maxnorm_on_overflow' if r.over else 'BAD:maxnorm_without_overflow'), r
    return 'BAD:value', r


def reference_text(r, p):
    if p == 0:
        return 'number of non-zero entries = %d' % r.nz
    if p == INF:
        return 'max|v| = %s' % describe(r.M)
    t = '(sum |v|^%s)^(1/%s) = %s' % (p, p, describe_root(r.S, p))
    if r.over:
        t += ' (the radicand is not a finite binary64 number: max|v| = %s is accepted as well)' % describe(r.M)
    else:
        t += ' (max|v| = %s; sum |v|^p = %s is a finite binary64 number, nothing overflows)' % (describe(r.M), describe(r.S))
    return t


def judge(got, vec, p, rel=REL):
    """-> (verdict, function returning the reference text) for a vector of numbers"""
    verdict, r = judge_idx(got, [idx_diff(v) for v in vec], p, rel)
    return verdict, (lambda: reference_text(r, p))


def in_underflow_range(vec, p, rel=REL):
    if p in (0, 1, INF):
        return False
    r = info([idx_diff(v) for v in vec], p)
    return r.S > 0 and r.lo < r.S * (1 - rel)


def overflows(vec, p):
    if p in (0, INF):
        return False
    return info([idx_diff(v) for v in vec], p).over


# ------------------------------------------------------------------ readable numbers (messages only)
def describe(x):
    """a short decimal rendering of an exact rational of any magnitude: m.mmmmmme+XXX"""
    x = fr(x)
    if x == 0:
        return '0'
    sign = '-' if x < 0 else ''
    x = abs(x)
    n, d = x.numerator, x.denominator
    e = len(str(n)) - len(str(d))
    # x ~ 10**e: scale the mantissa into [1, 10)
    scaled = x / F(10) ** e
    if scaled < 1:
        e -= 1
        scaled *= 10
    elif scaled >= 10:
        e += 1
        scaled /= 10
    mant = int(scaled * 10 ** 12)
    s = '%d.%012d' % (mant // 10 ** 12, mant % 10 ** 12)
    return '%s%se%+d' % (sign, s.rstrip('0').rstrip('.'), e)


def iroot(n, p):
    """floor of the p-th root of a non-negative integer"""
    if n < 2:
        return n
    x = 1 << -(-n.bit_length() // p)
    while True:
        y = ((p - 1) * x + n // x ** (p - 1)) // p
        if y >= x:
            return x
        x = y


def describe_root(S, p):
    """S**(1/p) for an exact rational S > 0, to ~13 digits, by integer roots"""
    S = fr(S)
    if S == 0:
        return '0'
    if p == 1:
        return describe(S)
    # bring S to about 2**(60p) by a power 2**(p*k), take the integer root, undo the scaling
    k = (60 * p - (S.numerator.bit_length() - S.denominator.bit_length())) // p
    scaled = S * F(2) ** (p * k)
    r = iroot(scaled.numerator // scaled.denominator, p)
    return describe(F(r) / F(2) ** k)
