"""Reference model for C15: the nine documented penalty expressions of mystic.penalty.

Independent of the code under test: nothing is imported from mystic.  A penalty
"stack" is a list of levels (outermost first) decorating a base function f.  Each
level keeps its own iteration count ``n`` and its own store of multiplier samples
``{index: condition value}``; operations issued on the outermost level reach every
level (the statement: "iter() advances and clear() resets the iteration state
(through nested penalties too)").

Documented expressions (docstrings of mystic/penalty.py), with c = condition(x),
pk = k * h**n:

    quadratic_equality    pk * c**2
    linear_equality       pk * |c|
    uniform_equality      pk                 if c != 0 else 0
    uniform_inequality    pk                 if c > 0  else 0
    quadratic_inequality  2*pk * c**2        if c > 0  else 0
    linear_inequality     2*pk * |c|         if c > 0  else 0
    barrier_inequality    inf                if c > 0  else -log(-c) / (2*pk)
    lagrange_equality     pk * c**2 + lam * c
    lagrange_inequality   pk * m**2 + beta * m,   m = max(-beta/(2*pk), c)

The two Lagrange types are the augmented-Lagrangian method of the module's
reference 4 (Kannan & Kramer): the multiplier is built from the condition values
stored at the completed iterations i = 0..n-1 (a missing sample counts as 0), each
with the multiplier k_i = k * h**i that was in force at that iteration:

    lam_{i+1}  = lam_i  + 2 * k_i * y_i
    beta_{i+1} = beta_i + 2 * k_i * max(y_i, -beta_i / (2*k_i))

A condition that raises ZeroDivisionError makes the whole penalty +inf (and is
stored as +inf).  error(x) is the violation magnitude: |c| for equality types,
max(0, c) for inequality types, +inf on ZeroDivisionError; for a stack it is the
Euclidean norm of the per-level magnitudes.

Operations may be addressed to any level j of a stack: they reach the levels j..
(the addressed penalty and everything it decorates) and nothing above.  Each level
counts its own iterations: a bare iter() advances every reached level by one from
wherever it stands, iter(i) sets every reached level to i, clear() resets them.
store(x) with no index: the statement is silent about where an inner Lagrange level
files a sample that reaches it through an outer Lagrange level standing at another
iteration (the code hands the outer level's index down).  The model does the same and
counts the event in Stack.store_handed_down so that the check can stop judging there.

The penalty combinators of mystic.coupler are penalties of their own (docstrings of
and_/or_/not_: "ptype -- penalty function type [default: linear_equality]; k --
penalty multiplier [default: 1]; h -- iterative multiplier [default: 5]"):

    and_(p1..pm)   ptype-expression of  c = p1(x) + ... + pm(x)
    or_(p1..pm)    ptype-expression of  c = min(p1(x), ..., pm(x))
    not_(p)        p's own type (unless ptype is given) on the inverted condition:
                   -f(x) for inequality types, (not f(x)) for equality types

with an iteration state of their own: operating on a combination leaves its members'
(n, store) alone and operating on a member leaves the combination's alone; the
members' current values enter the combination's condition.
"""
import math

INF = float('inf')

EQUALITY = ('quadratic_equality', 'linear_equality', 'uniform_equality', 'lagrange_equality')
INEQUALITY = ('uniform_inequality', 'barrier_inequality', 'quadratic_inequality',
              'linear_inequality', 'lagrange_inequality')
TYPES = ('quadratic_equality', 'linear_equality', 'uniform_equality', 'uniform_inequality',
         'barrier_inequality', 'quadratic_inequality', 'linear_inequality',
         'lagrange_inequality', 'lagrange_equality')
LAGRANGE = ('lagrange_equality', 'lagrange_inequality')
DEFAULT_K = {'uniform_equality': INF, 'uniform_inequality': INF,
             'lagrange_equality': 20, 'lagrange_inequality': 20}   # every other type: 100
DEFAULT_H = 5

ZDE = 'zde'   # marker: the condition divided by zero


class Level(object):
    """one penalty of a stack: type, condition, k, h and the iteration state (n, store)"""

    def __init__(self, ptype, cond, k=None, h=None):
        assert ptype in TYPES, ptype
        self.ptype = ptype
        self.cond = cond
        self.k = DEFAULT_K.get(ptype, 100) if k is None else k
        self.h = DEFAULT_H if h is None else h
        self.n = 0
        self.y = {}          # index -> stored condition value
        self.ylen = 0        # length of the stored list (gaps read as 0.0)

    combo = False        # True for and_/or_ levels (ComboLevel)
    equality = property(lambda self: self.ptype in EQUALITY)
    keeps_store = property(lambda self: self.ptype in LAGRANGE)

    # -- condition ------------------------------------------------------
    def c(self, x):
        try:
            return self.cond(x)
        except ZeroDivisionError:
            return ZDE

    def satisfied(self, x):
        """True / False; None when the condition divides by zero"""
        c = self.c(x)
        if c is ZDE:
            return None
        return (c == 0) if self.equality else (c <= 0)

    def violation(self, x):
        c = self.c(x)
        if c is ZDE:
            return INF
        return abs(c) if self.equality else max(0.0, c)

    # -- iteration state ------------------------------------------------
    def iter(self, i=None):
        self.n = self.n + 1 if i is None else i

    def clear(self):
        self.n = 0
        self.y = {}
        self.ylen = 0

    def store(self, x, i=None):
        """-> the index handed on to the decorated penalty"""
        if not self.keeps_store:
            return i
        c = self.c(x)
        if i is None:
            i = self.n
        self.y[i] = INF if c is ZDE else c
        self.ylen = max(self.ylen, i + 1)
        return i

    def stored(self, i=None):
        if i is None:
            return [self.y.get(j, 0.0) for j in range(self.ylen)]
        return self.y.get(i, 0.0) if 0 <= i < self.ylen else 0.0

    def state(self):
        return (self.n, tuple(self.stored()))

    # -- multiplier -----------------------------------------------------
    def multiplier(self):
        """accumulated Lagrange multiplier after the n completed iterations (0.0 for the other types)"""
        m = 0.0
        if not self.keeps_store:
            return m
        for i in range(self.n):
            ki = self.k * self.h ** i
            yi = self.stored(i)
            if self.ptype == 'lagrange_equality':
                m = m + 2.0 * ki * yi
            else:
                m = m + 2.0 * ki * max(yi, -m / (2.0 * ki))
        return m

    # -- the documented expression --------------------------------------
    def term(self, x):
        """(added penalty, magnitude scale used for the comparison tolerance); ZDE if the condition divides by zero"""
        c = self.c(x)
        if c is ZDE:
            return ZDE, 0.0
        return self.formula(c)

    def err_scale(self, x):
        """magnitude of the terms the violation is computed from (tolerance of the error comparison)"""
        return self.violation(x)

    def formula(self, c):
        """the documented expression at condition value c -> (value, magnitude scale)"""
        t = self.ptype
        pk = self.k * self.h ** self.n
        if t == 'quadratic_equality':
            v = pk * c ** 2
        elif t == 'linear_equality':
            v = pk * abs(c)
        elif t == 'uniform_equality':
            v = float(pk) if c != 0 else 0.0
        elif t == 'uniform_inequality':
            v = float(pk) if c > 0 else 0.0
        elif t == 'quadratic_inequality':
            v = 2 * pk * c ** 2 if c > 0 else 0.0
        elif t == 'linear_inequality':
            v = 2 * pk * abs(c) if c > 0 else 0.0
        elif t == 'barrier_inequality':
            if c > 0:
                v = INF
            elif c == 0:
                v = INF        # -log(0+) / (2 pk)
            else:
                v = -math.log(-c) / (2.0 * pk)
        elif t == 'lagrange_equality':
            lam = self.multiplier()
            a, b = pk * c ** 2, lam * c
            return a + b, abs(a) + abs(b)
        else:
            beta = self.multiplier()
            m = max(-beta / (2.0 * pk), c)
            a, b = pk * m ** 2, beta * m
            return a + b, abs(a) + abs(b)
        return v, abs(v)


class Stack(object):
    """levels[0] decorates levels[1] decorates ... decorates the base function f"""

    def __init__(self, levels, f):
        self.levels = list(levels)
        self.f = f
        self.store_handed_down = 0

    def iter(self, i=None, j=0):
        for L in self.levels[j:]:
            L.iter(i)

    def clear(self, j=0):
        for L in self.levels[j:]:
            L.clear()

    def store(self, x, i=None, j=0):
        """every reached level records the condition value; the index is handed down level by level (a Lagrange
        level resolves a missing index to its own iteration, the other types pass it on unchanged) - the code's
        behaviour, about which the statement says nothing; it equals "each level at its own iteration" whenever
        the Lagrange levels of the stack are in step"""
        given = i
        for L in self.levels[j:]:
            if given is None and i is not None and L.keeps_store and i != L.n:
                self.store_handed_down += 1     # a sample filed under another level's iteration (counted, not judged)
            i = L.store(x, i)

    def apply(self, op, points, j=0):
        """op is a JSON-able list: ['iter'], ['iter', 2], ['clear'], ['store', 'xa'], ['store', 'xb', 1];
        j: the level the operation is issued on (it reaches levels j..)"""
        name = op[0]
        if name == 'iter':
            self.iter(*op[1:], j=j)
        elif name == 'clear':
            self.clear(j=j)
        elif name == 'store':
            self.store(points[op[1]], *op[2:], j=j)
        else:
            raise ValueError(op)

    def state(self):
        return tuple(L.state() for L in self.levels)

    def value(self, x, j=0, fargs=(), fkwds=None):
        """(f(x) + the penalties of levels j.., scale).  +inf as soon as one condition divides by zero"""
        base = self.f(x, *fargs, **(fkwds or {}))
        total, scale = base, abs(base)
        for L in self.levels[j:]:
            v, s = L.term(x)
            if v is ZDE:
                return INF, INF
            total = total + v
            scale = scale + s
        return total, scale

    def values_all(self, x):
        """[(value, scale) of levels j.. for j = 0..D-1]: one evaluation of every level's term"""
        base = self.f(x)
        total, scale, dead = base, abs(base), False
        out = []
        for L in reversed(self.levels):
            v, s = L.term(x)
            if v is ZDE or dead:
                dead = True
                out.append((INF, INF))
                continue
            total = total + v
            scale = scale + s
            out.append((total, scale))
        out.reverse()
        return out

    def errors_all(self, x):
        ss, out = 0.0, []
        for L in reversed(self.levels):
            ss += L.violation(x) ** 2
            out.append(math.sqrt(ss))
        out.reverse()
        return out

    def error_scales_all(self, x):
        ss, out = 0.0, []
        for L in reversed(self.levels):
            ss += L.err_scale(x) ** 2
            out.append(math.sqrt(ss))
        out.reverse()
        return out

    def error(self, x, j=0):
        ss = 0.0
        for L in self.levels[j:]:
            ss += L.violation(x) ** 2
        return math.sqrt(ss)


# ---------------------------------------------------------------- combinators (mystic.coupler and_/or_/not_)
COMBO_DEFAULT_PTYPE = 'linear_equality'
COMBO_DEFAULT_K = 1


def combo_kh(ptype, settings):
    """k, h of a combinator from its keyword settings: k defaults to 1 (k=None: the type's own default), h to 5"""
    if 'k' not in settings:
        k = COMBO_DEFAULT_K
    elif settings['k'] is None:
        k = DEFAULT_K.get(ptype, 100)
    else:
        k = settings['k']
    return k, settings.get('h', DEFAULT_H)


class ComboLevel(Level):
    """and_ / or_ of member penalties (each a Stack): a penalty level of type `ptype` whose condition is the sum /
    the minimum of the members' current values, with (n, store) of its own"""
    combo = True

    def __init__(self, kind, members, settings=None):
        assert kind in ('and_', 'or_'), kind
        settings = dict(settings or {})
        ptype = settings.get('ptype') or COMBO_DEFAULT_PTYPE
        k, h = combo_kh(ptype, settings)
        Level.__init__(self, ptype, None, k, h)
        self.kind = kind
        self.members = list(members)

    def _cs(self, x):
        """(condition value, magnitude of the terms it is made of)"""
        vs = [m.value(x) for m in self.members]
        if self.kind == 'and_':
            c = 0
            for v, s in vs:
                c = c + v
        else:
            c = min(v for v, s in vs)
        return c, sum(s for v, s in vs)

    def c(self, x):
        return self._cs(x)[0]

    def term(self, x):
        c, S = self._cs(x)
        v, s = self.formula(c)
        if S == INF or S != S:
            return v, max(s, S)
        # the members' values carry a relative error of their own scale S: propagate it through the expression
        return v, max(s, self.formula(S)[1])

    def err_scale(self, x):
        c, S = self._cs(x)
        return max(abs(c), S)


def not_level(member, settings=None):
    """not_(p): a level of p's own type (or settings['ptype']) on the inverted condition of p, k default 1, h default 5;
    it does not look at p's iteration state at all"""
    settings = dict(settings or {})
    ptype = settings.get('ptype') or member.ptype
    k, h = combo_kh(ptype, settings)
    cond = member.cond
    if ptype in INEQUALITY:
        inv = lambda x: 0 - cond(x)
    else:
        inv = lambda x: float(not cond(x))
    return Level(ptype, inv, k, h)
