"""Reference evaluation of the *documented* inequality of every built-in
(non-collapse) termination condition of mystic.termination - property C10.

Nothing here imports or mirrors mystic.  Every function takes the plain data a
condition is documented to look at (the energy history "cost", the population
"params", counters, a clock reading) and the keyword settings, and returns

    True   the documented inequality holds
    False  it does not hold
    None   the documentation does not decide the case: two defensible readings
           of the same docstring (or IEEE evaluation of the printed formula and
           exact real arithmetic) give different answers.  Either answer of the
           implementation is accepted; callers count these cases separately.

Arithmetic is exact: finite numbers are turned into fractions.Fraction, the
infinities and nan are carried as floats with IEEE rules (inf-inf = nan,
0*inf = nan, x/0 = +-inf, 0/0 = nan, any comparison with nan is false).

Readings fixed by /verif/DESIGN.md section 5 (C10) and used below:
  R1  ``cost[-g]`` is Python indexing; g = 0 or None reads cost[0].
  R2  a look-back of g generations needs more than g recorded costs; with
      len(cost) <= g (and always with an empty history) the condition is not
      satisfied.
  R3  equal endpoints are a change of zero, also when both are infinite.
Further readings made here (each counted as None where it matters):
  R4  NormalizedChangeOverGeneration prints
      ``(cost[-g]-cost[-1]) / 0.5*(abs(cost[-g])+abs(cost[-1])) <= tolerance``;
      it is read as the change divided by the mean magnitude of the two
      endpoints (title: "normalized change in cost").  When one endpoint is
      infinite the IEEE value of the quotient is nan (-> not satisfied) and its
      limit is +-2; the case is decided only when both agree.
  R5  NormalizedCostTarget: the parenthesis of the docstring says the window
      clause is what is used "if fval is not provided"; the formula line joins
      the two clauses with "or".  With fval given, a history that satisfies only
      the window clause is None.  With fval None the text says "no improvement
      over g iterations" and the formula says ``= 0``: a cost that *rose* over
      the window is None.  ``abs(cost[-1]-fval)/fval <= tolerance`` is evaluated
      as printed (IEEE) and cross-multiplied with abs(fval); None if they differ.
  R6  PopulationSpread is titled "normalized absolute deviation from best
      candidate" while the formula line omits the normaliser; it is read as
      ``abs(params - params[0]) <= abs(tolerance*params[0])`` element-wise (equal
      entries are a deviation of zero), None where 0*inf would decide.
  R7  population-type conditions: a term inf-inf is None (IEEE nan versus R3).
  R8  SolutionImprovement with a 2-D trial population: True if every row
      satisfies the inequality, False if none does, None otherwise.
  R9  CandidateRelativeTolerance with fewer than two candidates is outside the
      documented domain (the source notes "this termination expects nPop > 1" and
      the implementation answers with a warning text): None, nothing is judged.
  R10 NormalizedCostTarget with fval=None and generations None/0 names neither a
      target nor a look-back window; the docstring gives such a condition no
      meaning (the implementation treats it as always satisfied): None.
"""
from fractions import Fraction
import math

INF = float('inf')
NAN = float('nan')


# ---------------------------------------------------------------- extended reals
def _num(v):
    """python/numpy number -> Fraction | +-inf | nan"""
    if isinstance(v, Fraction):
        return v
    v = float(v)
    if v != v or v in (INF, -INF):
        return v
    return Fraction(v)


def _isnan(x):
    return isinstance(x, float) and x != x


def _isinf(x):
    return isinstance(x, float) and x in (INF, -INF)


def _fin(x):
    return isinstance(x, Fraction)


def _sign(x):
    return (x > 0) - (x < 0)


def add(a, b):
    if _isnan(a) or _isnan(b):
        return NAN
    if _isinf(a) and _isinf(b):
        return a if a == b else NAN
    if _isinf(a):
        return a
    if _isinf(b):
        return b
    return a + b


def neg(a):
    return -a


def sub(a, b):
    return add(a, neg(b))


def mul(a, b):
    if _isnan(a) or _isnan(b):
        return NAN
    if _isinf(a) or _isinf(b):
        s = _sign(a) * _sign(b)
        if s == 0:
            return NAN
        return INF if s > 0 else -INF
    return a * b


def div(a, b):
    if _isnan(a) or _isnan(b):
        return NAN
    if _isinf(a) and _isinf(b):
        return NAN
    if _isinf(b):
        return Fraction(0)
    if b == 0:
        if _isinf(a):
            return a
        if a == 0:
            return NAN
        return INF if a > 0 else -INF
    if _isinf(a):
        return a if b > 0 else -a
    return a / b


def absv(a):
    if _isnan(a):
        return NAN
    return -a if a < 0 else a


def le(a, b):
    """a <= b with IEEE nan semantics"""
    if _isnan(a) or _isnan(b):
        return False
    return a <= b


def ge(a, b):
    if _isnan(a) or _isnan(b):
        return False
    return a >= b


def _same(a, b):
    return (not _isnan(a)) and (not _isnan(b)) and a == b


def _agree(*answers):
    """the common answer of several readings, None when they differ"""
    first = answers[0]
    for a in answers[1:]:
        if a is not first:
            return None
    return first


def _all3(terms):
    """three-valued conjunction"""
    out = True
    for t in terms:
        if t is False:
            return False
        if t is None:
            out = None
    return out


all3 = _all3


def _any3(terms):
    out = False
    for t in terms:
        if t is True:
            return True
        if t is None:
            out = None
    return out


# ---------------------------------------------------------------- history conditions
def hkey(cost, generations=None):
    """everything the documented history inequalities look at, as a hashable key:
    ('empty',) | ('short', cost[-1]) | ('win', cost[-g], cost[-1])   (R1, R2).
    The functions below depend on the history only through this key, so a
    caller may memoise their answers on it."""
    g = 0 if generations is None else int(generations)
    n = len(cost)
    if n == 0:
        return ('empty',)
    if n <= g:
        return ('short', cost[-1])
    return ('win', cost[-g], cost[-1])       # cost[-0] is cost[0]


def window(cost, generations):
    """(cost[-g], cost[-1]) by R1, or None when the history is too short (R2)"""
    k = hkey(cost, generations)
    if k[0] != 'win':
        return None
    return _num(k[1]), _num(k[2])


def endpoint_class(key):
    """categorical description of a history key (used to group findings)"""
    if key[0] != 'win':
        return key[0]
    a, b = _num(key[1]), _num(key[2])
    if _same(a, b):
        return 'equal_inf' if _isinf(a) else 'equal'
    if _isinf(a) and _isinf(b):
        return 'inf_to_other_inf'
    if _isinf(a):
        return 'inf_to_finite'
    if _isinf(b):
        return 'finite_to_inf'
    return 'fell' if a > b else 'rose'


def change(a, b):
    """cost[-g] - cost[-1], zero for equal endpoints (R3)"""
    if _same(a, b):
        return Fraction(0)
    return sub(a, b)


def vtr(cost, tolerance=0.005, target=0.0):
    "abs(cost[-1] - target) <= tolerance"
    if not len(cost):
        return False
    return le(absv(sub(_num(cost[-1]), _num(target))), _num(tolerance))


def change_over_generation(cost, tolerance=1e-6, generations=30):
    "cost[-g] - cost[-1] <= tolerance"
    w = window(cost, generations)
    if w is None:
        return False
    return le(change(*w), _num(tolerance))


def normalized_change_over_generation(cost, tolerance=1e-4, generations=10):
    "(cost[-g] - cost[-1]) / (0.5*(abs(cost[-g]) + abs(cost[-1]))) <= tolerance   (R4)"
    w = window(cost, generations)
    if w is None:
        return False
    a, b = w
    tol = _num(tolerance)
    if _same(a, b):
        return le(Fraction(0), tol)            # zero change (R3); covers 0/0
    d = sub(a, b)
    mean = mul(Fraction(1, 2), add(absv(a), absv(b)))
    literal = le(div(d, mean), tol)
    if _fin(a) and _fin(b):
        return literal                         # mean > 0 because a != b
    if _isnan(d):                              # +inf versus -inf and the like
        lim = None
    else:
        lim = le(Fraction(2 * _sign(d)), tol)  # the quotient tends to +-2
    if lim is None:
        return None
    return _agree(literal, lim)


def normalized_cost_target(cost, fval=None, tolerance=1e-6, generations=30):
    "abs(cost[-1] - fval)/fval <= tolerance  or  (cost[-1] - cost[-g]) = 0   (R5)"
    if not len(cost):
        return False
    w = window(cost, generations)
    if fval is None:
        if not generations:
            return None       # R10: neither a target nor a window was given
        if w is None:
            return False
        a, b = w
        if _same(a, b):
            return True
        if _isnan(a) or _isnan(b):
            return None
        if b > a:
            return None       # the cost rose: "no improvement" (text) but not "= 0" (formula)
        return False          # the cost improved over the window
    last, f, tol = _num(cost[-1]), _num(fval), _num(tolerance)
    dist = absv(sub(last, f))
    literal = le(div(dist, f), tol)
    crossed = le(dist, absv(mul(tol, f)))
    clause_a = _agree(literal, crossed)
    if clause_a is True:
        return True
    if w is not None and _same(*w):
        return None           # only the window clause holds and fval was given
    return clause_a


def vtr_change_over_generation(cost, ftol=0.005, gtol=1e-6, generations=30, target=0.0):
    "cost[-g] - cost[-1] <= gtol  or  abs(cost[-1] - target) <= ftol"
    if not len(cost):
        return False
    return bool(change_over_generation(cost, gtol, generations) or vtr(cost, ftol, target))


# ---------------------------------------------------------------- population conditions
def _diff_le(x, y, bound):
    """abs(x - y) <= bound for one entry; inf-inf is undecided (R7)"""
    x, y = _num(x), _num(y)
    if _isinf(x) and _isinf(y) and x == y:
        return None
    return le(absv(sub(x, y)), bound)


def crt_params(params, xtol):
    "abs(xi-x0) <= xtol for every entry of every candidate i >= 1"
    xt = _num(xtol)
    x0 = list(params[0])
    return _all3([_diff_le(u, v, xt) for xi in params[1:] for u, v in zip(xi, x0)])


def crt_cost(cost, ftol):
    "abs(fi-f0) <= ftol for every candidate i >= 1"
    ft = _num(ftol)
    return _all3([_diff_le(fi, cost[0], ft) for fi in cost[1:]])


def candidate_relative_tolerance(params, cost, xtol=1e-4, ftol=1e-4):
    "abs(xi-x0) <= xtol & abs(fi-f0) <= ftol   for every candidate i >= 1"
    if len(cost) < 2:
        return None                             # R9
    return _all3([crt_params(params, xtol), crt_cost(cost, ftol)])


def _sum_abs_diff(u, v):
    """sum(abs(u - v)); None when a term is inf-inf"""
    tot = Fraction(0)
    for a, b in zip(u, v):
        a, b = _num(a), _num(b)
        if _isinf(a) and _isinf(b) and a == b:
            return None
        tot = add(tot, absv(sub(a, b)))
    return tot


def solution_improvement(best, trial, tolerance=1e-5):
    "sum(abs(last_params - current_params)) <= tolerance   (R8 for a 2-D trial)"
    tol = _num(tolerance)
    rows = trial if (len(trial) and hasattr(trial[0], '__len__')) else [trial]
    res = []
    for row in rows:
        s = _sum_abs_diff(best, row)
        res.append(None if s is None else le(s, tol))
    if all(r is True for r in res):
        return True
    if all(r is False for r in res):
        return False
    return None


def population_spread(params, tolerance=1e-6):
    "abs(params - params[0]) <= abs(tolerance * params[0])   element-wise (R6)"
    tol = _num(tolerance)
    p0 = [_num(v) for v in params[0]]
    terms = []
    for p in params:
        for u, v in zip(p, p0):
            u = _num(u)
            if _isinf(u) and _isinf(v) and u == v:
                terms.append(None)
                continue
            bound = absv(mul(tol, v))
            if _isnan(bound):                   # 0*inf
                terms.append(None)
                continue
            if _same(u, v):
                terms.append(True)              # zero deviation
                continue
            terms.append(le(absv(sub(u, v)), bound))
    return _all3(terms)


def gradient_norm_tolerance(gradient, tolerance=1e-5, norm=INF):
    "sum(abs(gradient)**norm)**(1.0/norm) <= tolerance   (norm in 1, 2, inf; exact)"
    g = [absv(_num(v)) for v in gradient]
    tol = _num(tolerance)
    if any(_isnan(v) for v in g):
        return None
    if norm == INF:
        return le(max(g), tol)
    if norm == 1:
        tot = Fraction(0)
        for v in g:
            tot = add(tot, v)
        return le(tot, tol)
    if norm == 2:
        if tol < 0:
            return False
        tot = Fraction(0)
        for v in g:
            tot = add(tot, mul(v, v))
        return le(tot, mul(tol, tol))
    raise ValueError("reference supports norm 1, 2, inf")


# ---------------------------------------------------------------- counters, clock, interrupt
def evaluation_limits(iterations, fcalls, generations=None, evaluations=None):
    "iterations >= generations  or  fcalls >= evaluations   (None = no limit)"
    return bool((generations is not None and iterations >= generations) or
                (evaluations is not None and fcalls >= evaluations))


def time_limits(elapsed, seconds=86400):
    "time >= seconds"
    return bool(_num(elapsed) >= _num(seconds))


def solver_interrupt(earlyexit):
    "_EARLYEXIT == True"
    return bool(earlyexit)


# ---------------------------------------------------------------- compounds
def combine(kind, parts):
    """(satisfied, docs an info string is expected to name) of one And/Or/When node
    from the same pair of each of its members.

    And / When: satisfied iff all members are, and then names what the members name;
    Or: satisfied iff some member is, and names what its *satisfied* members name."""
    if kind in ('And', 'When'):
        t = all(p[0] for p in parts)
        docs = frozenset().union(*[p[1] for p in parts]) if t else frozenset()
        return t, docs
    if kind == 'Or':
        t = any(p[0] for p in parts)
        docs = frozenset().union(*[p[1] for p in parts if p[0]])
        return t, docs
    raise ValueError(kind)


def compound(tree, leaf_truth, leaf_doc):
    """(satisfied, frozenset of leaf docs the info is expected to name) of an expression

    tree: ('L', name) | ('And', [children]) | ('Or', [children]) | ('When', [child])"""
    kind = tree[0]
    if kind == 'L':
        t = bool(leaf_truth[tree[1]])
        return t, (frozenset([leaf_doc[tree[1]]]) if t else frozenset())
    return combine(kind, [compound(ch, leaf_truth, leaf_doc) for ch in tree[1]])
