"""Differential evolution (reference model for C08).

Written from Storn & Price (1997) and the one-line definitions in the docstrings
of ``mystic.strategy``; plain Python lists and floats, nothing from mystic.

A strategy is  DE/<base>/<k>/<crossover>:

    name          base vector     difference                       sampled members
    Best1*        best            r1 - r2                          2
    Rand1*        r1              r2 - r3                          3
    RandToBest1*  parent          (best - parent) + (r1 - r2)      2
    Best2*        best            r1 + r2 - r3 - r4                4
    Rand2*        r1              r2 + r3 - r4 - r5                5

    mutant  v = base + F * difference           (r's distinct, none equal to the parent)
    trial   u[i] = v[i] if i in M else parent[i]

M (the mutated positions) comes from the crossover rule, for a start index n
(one ``randrange(D)``) and a stream u1, u2, ... of ``random()`` answers:

    binomial     M = {n} | {i : u_(i+1) < CR}, exactly D answers consumed
    exponential  positions n, n+1, ... (cyclically) are mutated while the answers
                 stay below CR, at most D of them.  In mystic (and in the DESolver
                 it was adapted from) the test precedes the first mutation, so M
                 may be empty; the loop asks for one more answer than it mutates
                 (DESIGN.md section 5 accepts this reading).

``RULES`` gives the rule the *name* promises and ``ALTERNATIVE`` the rule that is
also accepted for the four ``*Bin`` strategies that carry the exponential loop.

Selection (both solvers): member c is replaced iff E(trial_c) < E(member c),
strictly, and by the trial; the best-so-far is replaced iff the trial energy is
strictly lower than the best energy.  ``DE`` works in place (a replacement and a
new best are visible to the trials of later members of the same generation),
``DE2`` builds every trial from the unchanged previous generation and only then
selects, member by member.
"""
import itertools

FAMILY = {
    'Best1': ('best', 2), 'Rand1': ('rand', 3), 'RandToBest1': ('cur2best', 2),
    'Best2': ('best', 4), 'Rand2': ('rand', 5),
}
NAMES = ['Best1Exp', 'Best1Bin', 'Rand1Exp', 'Rand1Bin', 'RandToBest1Exp', 'RandToBest1Bin',
         'Best2Exp', 'Best2Bin', 'Rand2Exp', 'Rand2Bin']
RULES = {n: ('bin' if n.endswith('Bin') else 'exp') for n in NAMES}
# the four *Bin strategies documented (strategy.py, "In DESolve, Best1Bin was identical to
# Best1Exp") to carry the exponential loop: either rule is accepted for them
EITHER = ('Rand1Bin', 'RandToBest1Bin', 'Best2Bin', 'Rand2Bin')


def family(name):
    return FAMILY[name[:-3]]


def nsample(name):
    return family(name)[1]


def mutant_component(name, pop, best, cand, r, F, i):
    """v[i] for the chosen members r (a tuple of indices into pop)"""
    kind, k = family(name)
    p = pop
    if kind == 'best':
        base = best[i]
        if k == 2:
            diff = p[r[0]][i] - p[r[1]][i]
        else:
            diff = p[r[0]][i] + p[r[1]][i] - p[r[2]][i] - p[r[3]][i]
    elif kind == 'rand':
        base = p[r[0]][i]
        if k == 3:
            diff = p[r[1]][i] - p[r[2]][i]
        else:
            diff = p[r[1]][i] + p[r[2]][i] - p[r[3]][i] - p[r[4]][i]
    else:
        base = p[cand][i]
        return base + (F * (best[i] - p[cand][i]) + F * (p[r[0]][i] - p[r[1]][i]))
    return base + F * diff


def mask_bin(n, draws, CR, D):
    """(M, answers consumed) or None when the stream is too short"""
    if len(draws) < D:
        return None
    return frozenset(i for i in range(D) if i == n or draws[i] < CR), D


def mask_exp(n, draws, CR, D):
    """test-first exponential loop; (M, answers consumed) or None when too short"""
    M = []
    used = 0
    while True:
        if used >= len(draws):
            return None
        u = draws[used]
        used += 1
        if not (u < CR) or len(M) == D:
            break
        M.append((n + len(M)) % D)
    return frozenset(M), used


def mask(rule, n, draws, CR, D):
    return (mask_bin if rule == 'bin' else mask_exp)(n, draws, CR, D)


def close(a, b, rel=1e-12):
    return a == b or abs(a - b) <= rel * max(abs(a), abs(b))


def explain(name, pop, best, cand, F, trial):
    """decode a trial vector: (M, [tuples r that explain every mutated component]).

    M = positions whose value differs from the parent's.  A tuple r of distinct
    members, none of them the parent, explains the trial when
    trial[i] == base_r[i] + F*difference_r[i] for every i in M."""
    D = len(trial)
    parent = pop[cand]
    M = frozenset(i for i in range(D) if trial[i] != parent[i])
    others = [m for m in range(len(pop)) if m != cand]
    k = nsample(name)
    good = []
    if M:
        for r in itertools.permutations(others, k):
            if all(close(trial[i], mutant_component(name, pop, best, cand, r, F, i)) for i in M):
                good.append(r)
    return M, good


# ---------------------------------------------------------------- generations
class Mismatch(Exception):
    """the recorded answers are not the ones this reading of the rule would ask for"""


class Replayer(object):
    """feeds a recorded list of answers [('sample', [members...]), ('randrange', n),
    ('random', u), ...] to the reference, insisting on the same kind of question"""

    def __init__(self, calls):
        self.calls = list(calls)
        self.i = 0

    def _next(self, kind):
        if self.i >= len(self.calls) or self.calls[self.i][0] != kind:
            raise Mismatch('reference asks for %s at answer %d, recorded %r'
                           % (kind, self.i, self.calls[self.i] if self.i < len(self.calls) else None))
        v = self.calls[self.i][1]
        self.i += 1
        return v

    def sample(self, population, k):
        v = list(self._next('sample'))
        if len(v) != k or len(set(v)) != k or any(m not in population for m in v):
            raise Mismatch('recorded sample %r is not %d distinct members of %r' % (v, k, population))
        return v

    def randrange(self, n):
        v = self._next('randrange')
        if not 0 <= v < n:
            raise Mismatch('recorded randrange %r outside range(%d)' % (v, n))
        return v

    def random(self):
        return self._next('random')

    def done(self):
        return self.i == len(self.calls)


def make_trial(name, rule, pop, best, cand, F, CR, rng):
    D = len(pop[cand])
    others = [m for m in range(len(pop)) if m != cand]
    r = tuple(rng.sample(others, nsample(name)))
    n = rng.randrange(D)
    if rule == 'bin':
        draws = [rng.random() for _ in range(D)]
        M, _ = mask_bin(n, draws, CR, D)
    else:
        M = []
        while True:
            u = rng.random()
            if not (u < CR) or len(M) == D:
                break
            M.append((n + len(M)) % D)
    u = list(pop[cand])
    for i in M:
        u[i] = mutant_component(name, pop, best, cand, r, F, i)
    return u, r, frozenset(M)


def _select_one(pop, energy, best, best_e, c, u, e):
    """member c meets its trial u of energy e; returns (best, best_e, replaced)"""
    if e < energy[c]:
        pop[c] = list(u)
        energy[c] = e
        if e < best_e:
            best, best_e = list(u), e
        return best, best_e, True
    return best, best_e, False


def select(pop, energy, best, best_e, trials, values):
    """selection of a whole generation, member by member, given the trials and their
    energies; returns (pop, energy, best, best_e, replaced flags)"""
    pop = [list(v) for v in pop]
    energy = list(energy)
    best = list(best)
    replaced = []
    for c in range(len(pop)):
        best, best_e, r = _select_one(pop, energy, best, best_e, c, trials[c], values[c])
        replaced.append(r)
    return pop, energy, best, best_e, replaced


def generation(kind, name, rule, pop, energy, best, best_e, F, CR, cost, rng):
    """one generation; returns (pop, energy, best, best_e, trials, replaced flags).
    ``kind`` 'DE' = in place, 'DE2' = invariant previous generation."""
    pop = [list(v) for v in pop]
    energy = list(energy)
    best = list(best)
    NP = len(pop)
    if kind == 'DE2':
        trials = [make_trial(name, rule, pop, best, c, F, CR, rng)[0] for c in range(NP)]
        values = [cost(list(u)) for u in trials]
        return select(pop, energy, best, best_e, trials, values)[:4] + (trials,)
    trials = []
    for c in range(NP):
        u = make_trial(name, rule, pop, best, c, F, CR, rng)[0]
        trials.append(list(u))
        best, best_e, _ = _select_one(pop, energy, best, best_e, c, u, cost(list(u)))
    return pop, energy, best, best_e, trials
