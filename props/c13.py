"""C13 - compiled constraint functions enforce exactly the stated relation.

Engine E3.  Every program ``xi CMP f`` of the alphabet is compiled once by the real
``generate_solvers`` / ``generate_constraint`` and run on the complete input grid
(plus points built to lie exactly on, and one ulp either side of, its boundary).
The oracle never looks at mystic's parsed strings: the text is parsed by
``ref/ratexpr.py`` and the relation is evaluated on the *output* vector in IEEE
double arithmetic ("as the user would") and cross-checked in exact rationals.

Parts: (S) single relations, (P) pairs of relations whose left-hand variables do not
feed one another (distinct or identical left-hand variable), (B) boundsconstrain.
"""
import itertools, math, io, contextlib
import numpy as np
from mc import env
from mc.runner import Tally
from ref import ratexpr as R

INF = float('inf')
BIG = 1e300
GRID9 = [-BIG, -3.0, -1.0, 0.0, 0.5, 1.0, 2.0, 3.0, BIG]
CMPS = ['=', '==', '<', '<=', '>', '>=', '!=']
RHS = ['3', '0', '-0.5', '{A}+1', '2*{A}-{B}', '{A}*{B}', '-{A}', '1e300*{A}', 'abs({B})']
TOL = REL = 1e-15          # documented defaults of generate_solvers (mystic.math.tolerance)

ABC = ['a', 'b', 'c']
UVW = ['u', 'v', 'w']
AL = list('ABCDEFGHIJKL')

# name, variables, dimension, isolated index, index of {A}, index of {B}
SCHEMES = [
    ('x3.i0', 'x', 3, 0, 1, 2), ('x3.i1', 'x', 3, 1, 2, 0), ('x3.last', 'x', 3, 2, 1, 0),
    ('y3.i0', 'y', 3, 0, 1, 2),
    ('x12.i10', 'x', 12, 10, 1, 11), ('x12.i1', 'x', 12, 1, 10, 11),
    ('x12.last', 'x', 12, 11, 1, 10), ('x12.i0', 'x', 12, 0, 10, 1),
    ('abc.i0', ABC, 3, 0, 1, 2), ('abc.last', ABC, 3, 2, 1, 0),
    ('uvw.i0', UVW, 3, 0, 1, 2), ('uvw.last', UVW, 3, 2, 0, 1),
    ('A-L.i10', AL, 12, 10, 1, 11), ('A-L.i1', AL, 12, 1, 10, 11), ('A-L.last', AL, 12, 11, 1, 10),
]
SCHEME = {s[0]: s for s in SCHEMES}

# pairs: name, variables, dimension, lhs of line 1, lhs of line 2, shared right-hand variable
PAIR_LAYOUTS = [('x3.p01', 'x', 3, 0, 1, 2), ('x12.p1-10', 'x', 12, 1, 10, 11), ('uvw.p01', UVW, 3, 0, 1, 2),
                ('A-L.p10-1', AL, 12, 10, 1, 11)]
PLAYOUT = {s[0]: s for s in PAIR_LAYOUTS}
PAIR_RHS = ['3', '{S}+1', '2*{S}-1', '{S}*{S}', '-{S}', '1e300*{S}', 'abs({S})']
PAIR_RHS_QUICK = ['3', '{S}+1', '-{S}', '1e300*{S}']

# two relations on the SAME left-hand variable that are jointly satisfiable by applying them in turn
SAME_LHS = [('>=', '1', '<=', '3'), ('>', '1', '<', '3'), ('>=', '-0.5', '<', '3'), ('>', '-0.5', '<=', '0.5'),
            ('>=', '1', '<=', '1'), ('!=', '3', '<=', '3'), ('!=', '3', '>=', '3'), ('!=', '3', '<', '3'),
            ('!=', '3', '>', '3'), ('!=', '1', '<=', '3'), ('!=', '0', '>=', '-0.5'), ('!=', '{S}+1', '<=', '{S}+1'),
            ('!=', '{S}+1', '>=', '{S}+1'), ('!=', '2*{S}', '<=', '3'), ('!=', '0.5', '!=', '3')]


def vname(variables, k):
    return '%s%d' % (variables, k) if isinstance(variables, str) else variables[k]


def filler(n):
    return [10.0 + 0.25 * k for k in range(n)]


def bits(v):
    v = float(v)
    return 'nan' if v != v else v.hex()


def same(u, v):
    """equal as numbers (nan equals nan; -0.0 equals 0.0)"""
    return u == v or (u != u and v != v)


def key(y):
    return tuple(None if v != v else v for v in y)


# ------------------------------------------------------------------ oracle
def threshold(cmp, r):
    """the documented extremal value for a strict comparator: r -/+ tolerance(r)"""
    t = TOL + abs(r) * REL
    return r + t if cmp in ('>', '>=') else r - t


def in_band(cmp, r, xi):
    """xi strictly satisfies the comparison but lies inside the documented tolerance margin"""
    if not math.isfinite(r):
        return False
    th = threshold(cmp, r)
    return (r < xi < th) if cmp in ('>', '>=') else (th < xi < r)


def finite_all(rels, x):
    return all(math.isfinite(rel.rhs.eval(x, 'float')) for rel, _, _ in rels)


def judge(rels, x, y, tally=None, small=False):
    """rels: list of (Relation, lhs index, banded).  -> list of (clause, extra sig, text)"""
    out = []
    lhs = set(i for _, i, _ in rels)
    if len(y) != len(x):
        return [('shape', {}, 'output has %d entries for an input of %d' % (len(y), len(x)))]
    moved = [j for j in range(len(x)) if not same(x[j], y[j])]
    stray = [j for j in moved if j not in lhs]
    if stray:
        out.append(('others_changed', {}, 'entries %r changed (only %r may): %r -> %r' % (stray, sorted(lhs), x, y)))
    feasible_in, banded, finite = True, False, True
    allowed = {}
    for rel, i, band in rels:
        r = rel.rhs.eval(x, 'float')
        finite = finite and math.isfinite(r)
        satisfiable = not (r != r or (rel.cmp == '>' and r == INF) or (rel.cmp == '<' and r == -INF))
        if tally is not None:
            tally.hist('rhs_value', 'finite' if math.isfinite(r) else ('nan' if r != r else 'infinite'))
        hin = rel.holds(x, 'float')
        feasible_in = feasible_in and hin
        if band and hin and in_band(rel.cmp, r, x[i]) and \
                (band is True or any(q.rhs.eval(x, 'float') == r for q in band)):
            banded = True
            allowed.setdefault(i, []).append(threshold(rel.cmp, r))
        if not satisfiable:
            if tally is not None:
                tally.hist('unsatisfiable_in_doubles', rel.cmp)
            continue
        hout = rel.holds(y, 'float')
        if not hout:
            out.append(('relation_fails', {'cmp': rel.cmp, 'rhs_finite': finite_all(rels, x)},
                        '%r does not hold at the output %r (input %r, right-hand side %r)' % (rel.text, y, x, r)))
        # cross-check in exact rationals
        if all(math.isfinite(v) for v in y):
            hex_ = rel.holds(y, 'exact')
            if tally is not None:
                tally.hist('float_vs_exact_on_output', 'agree' if hex_ == hout else 'differ(rounding at huge magnitude)')
            if small and hex_ != hout:
                raise AssertionError('oracle self-check: float and exact evaluation of %r disagree at %r' % (rel.text, y))
    if feasible_in:
        if banded:
            ok = all(same(x[i], y[i]) or any(same(y[i], t) for t in allowed.get(i, ())) for i in lhs)
            if tally is not None:
                tally.hist('tolerance_band_input', 'left unchanged' if not moved else 'moved to the documented margin')
            if not ok:
                out.append(('band_value', {'cmp': '+'.join(r.cmp for r, _, _ in rels), 'rhs_finite': finite},
                            'input %r inside the tolerance margin became %r: neither unchanged nor the documented margin' % (x, y)))
        elif moved:
            out.append(('feasible_changed', {'cmp': '+'.join(r.cmp for r, _, _ in rels), 'rhs_finite': finite},
                        'input %r already satisfies %s but was changed to %r' % (x, ' and '.join(repr(r.text) for r, _, _ in rels), y)))
    if tally is not None:
        tally.hist('input_class', ('in tolerance band' if banded else 'feasible') if feasible_in else 'infeasible')
        tally.hist('outcome', 'changed' if moved else 'unchanged')
    return out


def build(text, variables, nvars, split=None):
    """split: None = the text as one string; 'tuple1' = a 1-tuple holding the whole text; 'tuple' = one string per line
    (the tuple-of-strings input of generate_solvers yields a tuple of tuples of solvers, which generate_constraint takes)"""
    import mystic.symbolic as ms
    v = variables if isinstance(variables, str) else list(variables)
    src = text
    if split == 'tuple1':
        src = (text,)
    elif split == 'tuple':
        src = tuple(l for l in text.splitlines() if l.strip())
    with contextlib.redirect_stdout(io.StringIO()):
        return ms.generate_constraint(ms.generate_solvers(src, variables=v, nvars=nvars))


def apply(c, x, array):
    xin = np.array(x, dtype=float) if array else list(x)
    try:
        y = c(xin)
        return [float(v) for v in y], None
    except Exception as e:                      # an exception is an outcome here
        return None, '%s: %s' % (type(e).__name__, e)


def relations(text, variables):
    """parsed lines with (lhs index, band): '<' '>' always carry the documented margin (True);
    '<=' '>=' carry it at points where a '!=' line on the same left-hand variable has an equal
    right-hand side (band = those lines)"""
    rels = R.parse(text, variables, float_literals=True)
    out = []
    for r in rels:
        if r.cmp in ('<', '>'):
            band = True
        elif r.cmp in ('<=', '>='):
            band = [q for q in rels if q.cmp == '!=' and q.isolated() == r.isolated()] or False
        else:
            band = False
        out.append((r, r.isolated(), band))
    return out


def run_program(T, kind, name, text, variables, nvars, points, containers, sigbase, small_of, split=None):
    rels = relations(text, variables)
    if split:
        sigbase = dict(sigbase, input=split)
    try:
        c = build(text, variables, nvars, split)
    except Exception as e:
        T.violate(dict(sigbase, clause='build_raised', error=type(e).__name__),
                  {'kind': kind, 'text': text, 'variables': variables, 'nvars': nvars},
                  'generate_solvers/generate_constraint(%r, variables=%r, nvars=%r) raised %s: %s'
                  % (text, variables, nvars, type(e).__name__, e))
        return
    outs = set()
    for array in containers:
        for x in points:
            T.count('traces')
            T.count('transitions', len(rels))
            y, err = apply(c, x, array)
            case = {'kind': kind, 'text': text, 'variables': variables, 'nvars': nvars, 'x': x, 'array': array, 'split': split}
            if err:
                T.hist('outcome', 'raised')
                T.violate(dict(sigbase, clause='raised', error=err.split(':')[0]), case,
                          'constraint from %r raised %s at %r' % (text, err, x))
                continue
            outs.add(key(y))
            for clause, extra, msg in judge(rels, x, y, T, small_of(x)):
                sig = dict(clause=clause, **extra)
                if extra.get('rhs_finite', True):
                    sig.update(sigbase)       # finite right-hand side: keep the configuration in the signature
                else:                         # some right-hand side overflowed to +-inf: one root cause, keep it coarse
                    sig = {'clause': clause, 'rhs_finite': False}
                T.violate(sig, case, '[%s %s nvars=%r %s] %s' % (kind, name, nvars, 'ndarray' if array else 'list', msg))
            if not array and any(not same(a, b) for a, b in zip(x, y)):
                T.nontriv((text, name, nvars, tuple(x)))
    T.count('states', len(outs))
    T.hist('distinct_outputs_per_program', min(len(outs), 1000) // 100 * 100)


# ------------------------------------------------------------------ (S) single relations
def single_text(scheme, cmp, rhs):
    name, variables, n, i, a, b = SCHEME[scheme]
    return '%s %s %s' % (vname(variables, i), cmp, rhs.format(A=vname(variables, a), B=vname(variables, b)))


def single_points(scheme, text):
    name, variables, n, i, a, b = SCHEME[scheme]
    rel = R.parse_line(text, variables, float_literals=True)
    pts, seen = [], set()

    def add(x):
        k = tuple(x)
        if k not in seen:
            seen.add(k)
            pts.append(x)
    for vi, va, vb in itertools.product(GRID9, repeat=3):
        x = filler(n); x[i], x[a], x[b] = vi, va, vb
        add(x)
    for va, vb in itertools.product(GRID9, repeat=2):
        x = filler(n); x[a], x[b] = va, vb
        r = rel.rhs.eval(x, 'float')
        if math.isfinite(r):
            for v in (r, math.nextafter(r, INF), math.nextafter(r, -INF)):
                z = list(x); z[i] = v
                add(z)
    return pts


def small_single(rhs):
    def f(x):
        return '1e300' not in rhs and all(abs(v) <= 13 for v in x)
    return f


def shard_single(item):
    _, progs, containers = item
    T = Tally()
    for scheme, cmp, rhs, given in progs:
        name, variables, n, i, a, b = SCHEME[scheme]
        if variables == ABC and 'abs' in rhs:
            T.hist('skipped', "abs() with a variable named 'a','b' (documented replace_variables name clash)")
            continue
        text = single_text(scheme, cmp, rhs)
        T.hist('programs', 'single ' + cmp)
        run_program(T, 'single', name, text, variables, n if given else None, single_points(scheme, text), containers,
                    {'part': 'single', 'scheme': name, 'rhs': rhs}, small_single(rhs))
    if progs:
        T.sample({'text': single_text(*progs[0][:3]), 'scheme': progs[0][0], 'nvars_given': progs[0][3]})
    return T


# ------------------------------------------------------------------ (P) pairs
def pair_text(layout, c1, r1, c2, r2, swap):
    name, variables, n, i1, i2, s = PLAYOUT[layout]
    S = vname(variables, s)
    l1 = '%s %s %s' % (vname(variables, i1), c1, r1.format(S=S))
    l2 = '%s %s %s' % (vname(variables, i2), c2, r2.format(S=S))
    return '\n'.join((l2, l1) if swap else (l1, l2))


def pair_points(layout, text, same_lhs=False):
    name, variables, n, i1, i2, s = PLAYOUT[layout]
    rels = R.parse(text, variables, float_literals=True)
    pts, seen = [], set()

    def add(x):
        k = tuple(x)
        if k not in seen:
            seen.add(k)
            pts.append(x)
    for v1, v2, vs in itertools.product(GRID9, repeat=3):
        x = filler(n); x[i1], x[i2], x[s] = v1, v2, vs
        add(x)
    for vs in GRID9:
        x = filler(n); x[s] = vs
        rv = {}
        for rel in rels:
            r = rel.rhs.eval(x, 'float')
            if math.isfinite(r):
                rv.setdefault(rel.isolated(), []).extend([r, math.nextafter(r, INF), math.nextafter(r, -INF)])
        for i, vals in rv.items():
            others = [j for j in (i1, i2) if j != i]
            for v in vals:
                for w in (GRID9 if others else [None]):
                    z = list(x); z[i] = v
                    if others:
                        z[others[0]] = w
                    add(z)
        if len(rv) == 2:
            for v in rv[i1]:
                for w in rv[i2]:
                    z = list(x); z[i1], z[i2] = v, w
                    add(z)
    return pts


SPLIT_CMPS = (('=', '<='), ('>', '!='), ('<', '='), ('>=', '>'), ('==', '<'), ('!=', '>='))


def shard_pairs(item):
    _, progs, containers = item
    T = Tally()
    for p in progs:
        layout = p[0]
        name, variables, n, i1, i2, s = PLAYOUT[layout]
        if p[1] == 'same':
            _, _, c1, r1, c2, r2, swap = p
            S = vname(variables, s)
            lines = ['%s %s %s' % (vname(variables, i1), c1, r1.format(S=S)), '%s %s %s' % (vname(variables, i1), c2, r2.format(S=S))]
            text = '\n'.join(reversed(lines) if swap else lines)
            T.hist('programs', 'same-lhs pair')
            part = 'pair_same_lhs'
        else:
            _, _, c1, r1, c2, r2, swap = p
            text = pair_text(layout, c1, r1, c2, r2, swap)
            T.hist('programs', 'pair')
            part = 'pair'
        run_program(T, part, name, text, variables, n, pair_points(layout, text), containers,
                    {'part': part, 'scheme': name, 'rhs': r1 + ' ; ' + r2},
                    lambda x, t=text: '1e300' not in t and all(abs(v) <= 13 for v in x))
        if part == 'pair' and layout == 'x3.p01' and not swap and (c1, c2) in SPLIT_CMPS:
            # the same program handed over as a tuple of strings (one string with both lines; one string per line)
            for split in ('tuple1', 'tuple'):
                run_program(T, part, name, text, variables, n, pair_points(layout, text), (False,),
                            {'part': part, 'scheme': name, 'rhs': r1 + ' ; ' + r2},
                            lambda x, t=text: '1e300' not in t and all(abs(v) <= 13 for v in x), split)
    if progs:
        T.sample({'text': text, 'layout': layout})
    return T


# ------------------------------------------------------------------ (B) bounds
LO = [None, -INF, -10.0, -1.0, 0.0, 0.5, 3.0, -BIG]
HI = [None, INF, -1.0, 0.0, 0.5, 3.0, 10.0, BIG]


def _lo(v):
    return -INF if v is None else v


def _hi(v):
    return INF if v is None else v


SIDES = [(lo, hi) for lo in LO for hi in HI if _lo(lo) <= _hi(hi)]
# bounds that need more significant digits than a short %g / %f rendering keeps, and non-dyadic decimals
LONG = [(123456.789, 1234567.891), (None, 0.7654321), (-0.1234567, 0.7654321), (-1234567.891, None), (0.1, 0.3),
        (1e-07, 2.5e-05), (-3.0000001, 3.0000001)]
SIDES = SIDES + LONG
# reduced side sets for the larger dimensions (every kind of side: open, None, inf, degenerate, stripped zero, two digits, huge)
SIDES_B = [(None, None), (-INF, INF), (None, 0.5), (-1.0, INF), (-1.0, 3.0), (0.5, 0.5), (0.0, 0.0), (-INF, 0.0), (0.0, None),
           (-10.0, 10.0), (0.5, 3.0), (-BIG, BIG), (3.0, 10.0), (-10.0, -1.0)]
SIDES_B = SIDES_B + LONG[:3]
SIDES_C = [(None, None), (-1.0, 3.0), (0.5, 0.5), (-INF, 0.0), (0.0, None), (-10.0, 10.0), LONG[0]]
EDGE3 = [-BIG, 0.5, BIG]


def clip_ref(x, mn, mx):
    return [min(max(v, _lo(lo)), _hi(hi)) for v, lo, hi in zip(x, mn, mx)]


def box_points(mn, mx):
    axes = []
    for lo, hi in zip(mn, mx):
        ax = list(GRID9)
        for b in (lo, hi):
            if b is not None and math.isfinite(b):
                for v in (b, math.nextafter(b, INF), math.nextafter(b, -INF)):
                    if v not in ax:
                        ax.append(v)
        axes.append(ax)
    if len(axes) <= 2:
        return [list(p) for p in itertools.product(*axes)]
    pts = [list(p) for p in itertools.product(GRID9, repeat=len(axes))]
    # every extra value of an axis (a bound, one ulp either side) against a small grid of the others
    for k, ax in enumerate(axes):
        for v in ax[len(GRID9):]:
            for p in itertools.product(EDGE3, repeat=len(axes) - 1):
                p = list(p); p.insert(k, v)
                pts.append(p)
    return pts


def one_box(T, mn, mx, symbolic, containers, seed=0):
    import mystic.constraints as mc
    degenerate = any(lo is not None and hi is not None and lo == hi for lo, hi in zip(mn, mx))
    unbounded = all(_lo(lo) == -INF and _hi(hi) == INF for lo, hi in zip(mn, mx))
    sigbase = {'part': 'bounds', 'symbolic': symbolic, 'degenerate_side': degenerate, 'all_unbounded': unbounded}
    case0 = {'kind': 'bounds', 'min': mn, 'max': mx, 'symbolic': symbolic}
    T.hist('programs', 'bounds symbolic=%s' % symbolic)
    try:
        with env.owned_random(env.SeededRandom(seed)), contextlib.redirect_stdout(io.StringIO()):
            c = mc.boundsconstrain(list(mn), list(mx), symbolic=symbolic)
    except Exception as e:
        T.count('traces'); T.count('transitions')
        T.hist('outcome', 'bounds build raised')
        T.violate(dict(sigbase, clause='build_raised', error=type(e).__name__), case0,
                  'boundsconstrain(%r, %r, symbolic=%r) raised %s: %s' % (mn, mx, symbolic, type(e).__name__, e))
        return
    outs = set()
    for array in containers:
        for x in box_points(mn, mx):
            T.count('traces'); T.count('transitions', len(x))
            y, err = apply(c, x, array)
            case = dict(case0, x=x, array=array)
            if err:
                T.hist('outcome', 'raised')
                T.violate(dict(sigbase, clause='raised', error=err.split(':')[0]), case,
                          'boundsconstrain(%r, %r, symbolic=%r)(%r) raised %s' % (mn, mx, symbolic, x, err))
                continue
            want = clip_ref(x, mn, mx)
            outs.add(key(y))
            inside = all(same(a, b) for a, b in zip(x, want))
            T.hist('input_class', 'inside box' if inside else 'outside box')
            if len(y) != len(want) or any(not same(a, b) for a, b in zip(y, want)):
                T.hist('outcome', 'wrong')
                T.violate(dict(sigbase, clause='identity_inside' if inside else 'clip'), case,
                          'boundsconstrain(%r, %r, symbolic=%r)(%r) = %r, componentwise clip is %r'
                          % (mn, mx, symbolic, x, y, want))
            else:
                T.hist('outcome', 'unchanged' if inside else 'changed')
            if not inside and not array:
                T.nontriv(('box', repr(mn), repr(mx), symbolic, tuple(x)))
    T.count('states', len(outs))


def shard_bounds(item):
    _, boxes, containers = item
    T = Tally()
    with env.owned_random(env.SeededRandom(0)):      # clip=True never draws; anything unowned would raise
        for mn, mx in boxes:
            for symbolic in (True, False):
                one_box(T, mn, mx, symbolic, containers)
    if boxes:
        T.sample({'min': boxes[0][0], 'max': boxes[0][1]})
    return T


# ------------------------------------------------------------------ (H) histories: a compiled constraint is a value
# programs with named constants handed over in `locals`; 'tol'/'rel' are the documented way to set the strictness margin
HIST = [
    ('x0 = a*x1 + b', {'a': 2.0, 'b': 1.0}),
    ('x0 = a*x1 + b', {'a': 5.0, 'b': -3.0}),
    ('x0 > q', {'q': 1.0}),
    ('x0 > q', {'q': -2.5}),
    ('x0 <= x1 + q', {'q': 0.5}),
    ('x0 <= x1 + q', {'q': -2.0}),
    ('x1 >= 3', None),
    ('x0 <= tau*x1 + e', {'tau': 0.5, 'e': 0.25}),     # names that math / numpy export too: the user's values must win
    ('x0 < 2', {'tol': 0.25, 'rel': 0.0}),      # disturbers: judged differentially only
    ('x0 > 1.', {'tol': 0.0, 'rel': 0.0}),
]
HIST_JUDGED = 8          # the first eight use the default margin and are also judged against their relation
HGRID = [-3.0, -1.0, 0.0, 0.5, 1.0, 2.0, 3.0]


def hist_relations(text, consts):
    """the program with its named constants written out (the oracle's own substitution), parsed for judge()"""
    import re
    for name, val in (consts or {}).items():
        if name not in ('tol', 'rel'):
            text = re.sub(r'\b%s\b' % re.escape(name), '(%r)' % float(val), text)
    return [(r, r.isolated(), r.cmp in ('<', '>')) for r in R.parse(text, 'x', float_literals=True)]


def build_with(text, consts):
    import mystic.symbolic as ms
    with contextlib.redirect_stdout(io.StringIO()):
        return ms.generate_constraint(ms.generate_solvers(text, variables='x', nvars=2, locals=dict(consts) if consts else None))


def shard_history(item):
    """every ordered sequence of `depth` distinct programs: build them in turn; after each build every function
    built so far is applied to the whole grid again and must return exactly what it returned when it was new
    (and, for the judged programs, must satisfy its own relation with its own constants)"""
    _, first, depth = item
    T = Tally()
    pts = [list(p) for p in itertools.product(HGRID, repeat=2)]
    others = [k for k in range(len(HIST)) if k != first]
    for tail in itertools.permutations(others, depth - 1):
        seq = (first,) + tail
        built = []      # (index, function, outputs when new)
        T.count('traces')
        for pos, k in enumerate(seq):
            text, consts = HIST[k]
            case = {'kind': 'history', 'sequence': list(seq[:pos + 1])}
            try:
                c = build_with(text, consts)
            except Exception as e:
                T.violate({'part': 'history', 'clause': 'build_raised', 'error': type(e).__name__}, case,
                          'generate_solvers(%r, locals=%r) raised %s: %s' % (text, consts, type(e).__name__, e))
                break
            outs = []
            for x in pts:
                y, err = apply(c, x, False)
                outs.append(key(y) if y is not None else ('raised', err))
            built.append((k, c, outs))
            T.count('transitions', len(pts))
            if k < HIST_JUDGED:
                rels = hist_relations(text, consts)
                for x, o in zip(pts, outs):
                    if o and o[0] == 'raised':
                        continue
                    y = list(unkey(o))
                    for clause, extra, msg in judge(rels, x, y):
                        T.violate({'part': 'history', 'clause': clause, 'position': 'first' if pos == 0 else 'later'},
                                  dict(case, x=x), 'after building %r: %r with locals %r: %s' % ([HIST[j][0] for j in seq[:pos + 1]], text, consts, msg))
                        break
            # every earlier function again
            for (j, cj, oj) in built[:-1]:
                again = []
                for x in pts:
                    y, err = apply(cj, x, False)
                    again.append(key(y) if y is not None else ('raised', err))
                T.count('transitions', len(pts))
                if again != oj:
                    i = [a != b for a, b in zip(again, oj)].index(True)
                    T.violate({'part': 'history', 'clause': 'changed_by_a_later_build',
                               'same_text': HIST[j][0] == text, 'later_sets_tolerance': bool(consts and 'tol' in consts)},
                              dict(case, x=pts[i], earlier=j),
                              'constraint from %r (locals %r) returned %r at %r when new, and %r after generate_solvers(%r, locals=%r)'
                              % (HIST[j][0], HIST[j][1], list(unkey(oj[i])) if oj[i][0] != 'raised' else oj[i], pts[i],
                                 list(unkey(again[i])) if again[i][0] != 'raised' else again[i], text, consts))
                    break
        T.state(('H', seq, tuple(tuple(o) for _, _, o in built)))
        if len(set(HIST[k][0] for k in seq)) < len(seq) or any(HIST[k][1] and 'tol' in HIST[k][1] for k in seq[1:]):
            T.nontriv(('H', seq))
    T.hist('programs', 'history')
    if T.n.get('traces'):
        T.sample({'history': [HIST[k] for k in ((first,) + tuple(others[:depth - 1]))]})
    return T


def unkey(k):
    return [float('nan') if v is None else v for v in k]


def replay_history(case):
    """rebuild the recorded sequence; report relation failures and any change of an earlier function"""
    seq = case['sequence']
    x = case.get('x')
    out = []
    built = []
    for pos, k in enumerate(seq):
        text, consts = HIST[k]
        c = build_with(text, consts)
        built.append((k, c, apply(c, x, False)))
        for (j, cj, oj) in built[:-1]:
            again = apply(cj, x, False)
            if again != oj:
                out.append('constraint from %r (locals %r) at %r: %r when new, %r after building %r (locals %r)'
                           % (HIST[j][0], HIST[j][1], x, oj, again, text, consts))
    k = seq[-1]
    if k < HIST_JUDGED and built[-1][2][0] is not None:
        text, consts = HIST[k]
        rels = hist_relations(text, consts)
        out += [m for _, _, m in judge(rels, x, built[-1][2][0])]
    return out


# ------------------------------------------------------------------ driver
def _dispatch(item):
    return {'S': shard_single, 'P': shard_pairs, 'B': shard_bounds, 'H': shard_history}[item[0]](item)


def _chunks(seq, k):
    return [seq[i:i + k] for i in range(0, len(seq), k)]


CORE = ('x3.i0', 'x12.i10', 'uvw.i0', 'A-L.i10')
PAIR_COMBOS_QUICK = {'x3.p01': [('3', '{S}+1'), ('{S}+1', '-{S}'), ('1e300*{S}', '3'), ('abs({S})', '1e300*{S}'), ('{S}*{S}', '2*{S}-1')],
                     'x12.p1-10': [('{S}+1', '3'), ('-{S}', '1e300*{S}')]}


def run(ctx):
    th = ctx.thorough
    both = (False, True)
    items = []
    # (S) quick: nvars omitted for the core schemes only; ndarray inputs for the two basic schemes
    singles = [(s[0], cmp, rhs, given) for s in SCHEMES for cmp in CMPS for rhs in RHS for given in (True, False)
               if th or given or s[0] in CORE]
    if th:
        items += [('S', ch, both) for ch in _chunks(singles, 6)]
    else:
        items += [('S', ch, both) for ch in _chunks([p for p in singles if p[0] in CORE[:2]], 6)]
        items += [('S', ch, (False,)) for ch in _chunks([p for p in singles if p[0] not in CORE[:2]], 9)]
    # (P)
    pairs = []
    if th:
        playouts = [l[0] for l in PAIR_LAYOUTS]
        combos = {l: list(itertools.product(PAIR_RHS, repeat=2)) for l in playouts}
    else:
        playouts = list(PAIR_COMBOS_QUICK)
        combos = PAIR_COMBOS_QUICK
    for layout in playouts:
        for c1, c2 in itertools.product(CMPS, repeat=2):
            for r1, r2 in combos[layout]:
                for swap in ((False, True) if (th or layout == 'x3.p01') else (False,)):
                    pairs.append((layout, 'distinct', c1, r1, c2, r2, swap))
    for layout in [l[0] for l in PAIR_LAYOUTS]:
        for c1, r1, c2, r2 in SAME_LHS:
            for swap in (False, True):
                pairs.append((layout, 'same', c1, r1, c2, r2, swap))
    items += [('P', ch, both if th else (False,)) for ch in _chunks(pairs, 8)]
    # (B)
    s2, s3 = (SIDES, SIDES_B) if th else (SIDES_B, SIDES_C)
    boxes = [([lo], [hi]) for lo, hi in SIDES]
    boxes += [([a[0], b[0]], [a[1], b[1]]) for a in s2 for b in s2]
    boxes += [([a[0], b[0], c[0]], [a[1], b[1], c[1]]) for a in s3 for b in s3 for c in s3]
    items += [('B', ch, both if th else (False,)) for ch in _chunks(boxes, 6)]
    # (H) every ordered sequence of 2 (thorough 3) distinct programs of the history alphabet
    items += [('H', first, 3 if th else 2) for first in range(len(HIST))]
    # interleave the kinds so that the pool stays busy
    by = {}
    for it in items:
        by.setdefault(it[0], []).append(it)
    items = [it for group in itertools.zip_longest(*by.values()) for it in group if it is not None]
    ctx.bounds = {
        'comparators': CMPS, 'right_hand_sides': RHS, 'values': GRID9,
        'schemes(name,variables,dim,isolated,A,B)': [list(map(str, s)) for s in SCHEMES],
        'nvars': ['given', 'omitted'],
        'single_programs': len(singles),
        'nvars_omitted_for': 'all schemes' if th else list(CORE),
        'pair_layouts': playouts, 'pair_right_hand_side_combinations': {k: len(v) for k, v in combos.items()} if th else combos,
        'pair_right_hand_sides': PAIR_RHS, 'pair_programs': len(pairs), 'same_lhs_pairs': SAME_LHS,
        'bound_sides_dim1(lo,hi)': SIDES, 'bound_sides_dim2': 'as dim1' if th else s2, 'bound_sides_dim3': s3, 'boxes': len(boxes),
        'history_programs(text,locals)': [list(map(str, h)) for h in HIST], 'history_depth': 3 if th else 2,
        'containers': 'list and ndarray' if th else 'list everywhere; ndarray for schemes x3.i0 and x12.i10',
        'points': 'values^3 over the variables a line mentions (other coordinates hold distinct fillers 10+k/4) plus, for every value '
                  'of the right-hand variables, the isolated variable exactly on the boundary and one ulp either side',
    }
    ctx.rule = ("every program is compiled once and applied to every point; one trace = one (program, point, container) application; "
                "states = distinct output vectors per program, summed; a case is non-trivial when the constraint changed the input "
                "(list container); bounds: the point lies outside the box")
    ctx.assumptions = [
        "the relation is judged on the output in IEEE double arithmetic as written (ratexpr float mode), cross-checked in exact rationals; "
        "the two must agree wherever all magnitudes are small, and their disagreement at 1e300 is reported in the histograms only",
        "strict '<' '>' (and '<=' '>=' sharing a left-hand variable with a '!=' line) carry the documented margin tolerance(rhs)=1e-15+1e-15*|rhs|: "
        "a feasible input strictly inside that margin may be moved to exactly rhs -/+ tolerance(rhs) (DESIGN.md section 3 C13 limits)",
        "a relation whose right-hand side overflows to +-inf so that no double satisfies it ('> inf', '< -inf') is not judged",
        "the isolated variable does not occur on its own right-hand side",
        "names that collide with function names (abs with variables a,b) are excluded: documented replace_variables limitation",
        "the input is passed as a fresh copy (generated solvers assign in place)",
    ]
    ctx.pmap(_dispatch, items)


def _unjson(v):
    if isinstance(v, list):
        return [_unjson(u) for u in v]
    if v == 'inf':
        return INF
    if v == '-inf':
        return -INF
    if v == 'nan':
        return float('nan')
    return v


def replay(case):
    case = _unjson(case)
    T = Tally()
    if case['kind'] == 'history':
        return replay_history(case)
    if case['kind'] == 'bounds':
        mn, mx = case['min'], case['max']
        import mystic.constraints as mc
        try:
            with env.owned_random(env.SeededRandom(0)):
                c = mc.boundsconstrain(list(mn), list(mx), symbolic=case['symbolic'])
        except Exception as e:
            return ['boundsconstrain(%r, %r, symbolic=%r) raised %s: %s' % (mn, mx, case['symbolic'], type(e).__name__, e)]
        if 'x' not in case:
            return []
        y, err = apply(c, case['x'], case.get('array', False))
        if err:
            return ['raised ' + err]
        want = clip_ref(case['x'], mn, mx)
        if any(not same(a, b) for a, b in zip(y, want)):
            return ['boundsconstrain(%r, %r, symbolic=%r)(%r) = %r, componentwise clip is %r' % (mn, mx, case['symbolic'], case['x'], y, want)]
        return []
    variables = case['variables']
    try:
        c = build(case['text'], variables, case['nvars'], case.get('split'))
    except Exception as e:
        return ['build raised %s: %s' % (type(e).__name__, e)]
    if 'x' not in case:
        return []
    y, err = apply(c, case['x'], case.get('array', False))
    if err:
        return ['raised ' + err]
    return ['%s: %s' % (cl, msg) for cl, _, msg in judge(relations(case['text'], variables), case['x'], y)]
