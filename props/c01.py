"""C01 - the reported optimum is a genuinely evaluated point with its true energy.

Engine E1/E3: the full product of a configuration alphabet (solver x dim x cost x
start x box/mode x constraint x penalty [x reducer]) is run Step by Step and judged
at every iteration boundary; each scipy-style wrapper once per configuration.
The objective is rebuilt by the harness from the raw user pieces (mc.solverlab.Settings).
"""
import itertools, io, sys
import numpy as np
from mc import solverlab, env
from mc.solverlab import Lab, Settings, INF
from mc.runner import Tally

MODES = [(None, None), (True, None), (False, None), (None, True), (True, True)]   # (tight, clip); clip=False is randomising: excluded
CONS = [None, 'pin/pure', 'pin/inplace', 'clamp/pure', 'clamp/inplace', 'round/pure', 'round/inplace',
        'tie/pure', 'tie/inplace', 'symbolic']
PENS = [None, 'ramp', 'quad', 'text']


def feq(a, b):
    return a == b or (a != a and b != b)


def judge(lab, st, step, T, cfg):
    """all C01 clauses at one iteration boundary; returns list of (sig, detail)"""
    s = lab.solver
    out = []
    snap = lab.snap()
    bestE, best = snap['bestE'], snap['best']
    costname = cfg['cost']
    if isinstance(bestE, tuple):
        out.append(({'clause': 'energy_not_scalar'}, 'bestEnergy is array-valued %r' % (bestE,)))
        return out
    called = set(x for x, v in lab.cost.log)
    if np.isfinite(bestE):
        if best not in called:
            out.append(({'clause': 'best_never_evaluated'},
                        'step %d: bestSolution %r was never passed to the cost function (bestEnergy %r)' % (step, best, bestE)))
        want = st.objective_at(best, costname)
        if not feq(want, bestE):
            out.append(({'clause': 'best_energy_mismatch'},
                        'step %d: bestEnergy=%r but reducer(cost(best))+penalty(best)=%r at best=%r' % (step, bestE, want, best)))
    # members
    ready = lab.inner_steps >= (2 if cfg['solver'] == 'NM' else 1)
    if ready:
        for i, (m, e) in enumerate(zip(snap['pop'], snap['popE'])):
            want = st.J(m, costname)
            if isinstance(e, tuple) or not feq(want, e):
                out.append(({'clause': 'member_energy_mismatch'},
                            'step %d: member %d = %r has stored energy %r but the objective there is %r' % (step, i, m, e, want)))
                break
    eh = snap['ehist']
    if eh and not isinstance(bestE, tuple) and cfg.get('continue') != 'NewPenalty' and not (bestE <= eh[0] or (bestE != bestE)):
        out.append(({'clause': 'worse_than_initial'}, 'step %d: bestEnergy %r is worse than the initial energy %r' % (step, bestE, eh[0])))
    return out


def history_of(cfg, nsteps):
    """the op sequence of a configuration: nsteps Steps, or - for a 'continue' configuration - Steps, one operation that
    makes the solver re-decorate its objective (the settings stay what they were), then Steps again"""
    mid = cfg.get('continue')
    if not mid:
        return [['Step']] * nsteps
    k = cfg.get('continue_after', 3)
    if mid == 'Finalize':
        op = ['Finalize']
    elif mid == 'SetPenalty':
        op = ['SetPenalty', cfg.get('penalty')]
    elif mid == 'SetStrictRanges':
        op = ['SetStrictRanges', cfg.get('box') or False, cfg.get('tight'), cfg.get('clip')]
    elif mid == 'SetConstraints':
        op = ['SetConstraints', cfg.get('constraint')]
    elif mid == 'SetEvaluationLimits':
        op = ['SetEvaluationLimits', 50, None, True]
    elif mid == 'NewPenalty':           # a setting that CHANGES mid-run: from here on the energies include it
        op = ['SetPenalty', 'const']
    else:
        raise KeyError(mid)
    return [['Step']] * k + [op] + [['Step']] * (nsteps - k)


def run_config(cfg, nsteps, T):
    st = Settings(cfg)
    try:
        lab = Lab(cfg)
    except Exception as e:
        # a configuration the library rejects reports no optimum: outside C01 (C02 judges the boxes)
        T.hist('configuration_rejected', type(e).__name__)
        T.count('traces')
        return
    seen_nontrivial = False
    k = 0
    for op in history_of(cfg, nsteps):
        try:
            msg = lab.apply(op)
        except solverlab.Horizon:
            break
        except Exception as e:
            T.violate({'clause': 'step_raised', 'solver': cfg['solver'], 'error': type(e).__name__}, {'cfg': cfg, 'steps': k},
                      '%s after %d Steps raised %s: %s | cfg=%s' % (op[0], k, type(e).__name__, str(e)[:300], cfg))
            break
        if op[0] != 'Step':
            T.count('transitions')
            st.update(op)           # (a no-op for the operations that re-state the current settings)
            continue
        k += 1
        T.count('transitions')
        for sig, detail in judge(lab, st, k, T, cfg):
            sig = dict(sig, solver=cfg['solver'], bounds_as_constraint=st.bounds_as_constraint(), continued=bool(cfg.get('continue')),
                       constraint_kind=(cfg.get('constraint') or 'none').split('/')[-1] if cfg.get('constraint') else 'none',
                       reducer=bool(cfg.get('reducer')))
            T.violate(sig, {'cfg': cfg, 'steps': k}, detail + ' | cfg=%s' % {a: b for a, b in cfg.items() if a != 'horizon'})
        snap = lab.snap()
        T.state((cfg['solver'], snap['best'], snap['bestE'], snap['pop'], snap['popE'], snap['evals']))
        if msg:
            break
    T.count('traces')
    if lab.cost.log and len(set(v for x, v in lab.cost.log)) > 1:
        T.nontriv(sorted(cfg.items(), key=str))
    T.hist('stop', 'message' if lab.msgs and lab.msgs[-1] else 'ran_all_steps')


def run_wrapper(wname, cfg, T):
    """the scipy-style one-liners with full_output=1"""
    import mystic.solvers as ms
    st = Settings(cfg)
    rec = solverlab.Recorder(cfg['cost'], 200000)
    rng = env.SeededRandom(cfg.get('seed', 0))
    kw = dict(full_output=1, disp=0, maxiter=cfg.get('maxiter', 6))
    con = solverlab.ref_con(cfg.get('constraint'))
    live = Lab.__new__(Lab)
    if cfg.get('constraint'):
        kw['constraints'] = Lab.con(live, cfg['constraint'])
    if cfg.get('penalty'):
        kw['penalty'] = Lab.pen(live, cfg['penalty'])
    if cfg.get('box'):
        lo, hi = solverlab.box_of(cfg['box'], cfg['dim'])
        kw['bounds'] = list(zip(lo, hi))
        if cfg.get('tight') is not None: kw['tightrange'] = cfg['tight']
        if cfg.get('clip') is not None: kw['cliprange'] = cfg['clip']
    x0 = cfg['x0']
    old = sys.stdout; sys.stdout = io.StringIO()
    try:
        with env.owned_random(rng):
            if wname == 'fmin': r = ms.fmin(rec, x0, **kw)
            elif wname == 'fmin_powell': r = ms.fmin_powell(rec, x0, **kw)
            elif wname == 'diffev': r = ms.diffev(rec, x0, npop=4, **kw)
            elif wname == 'diffev2': r = ms.diffev2(rec, x0, npop=4, **kw)
    except Exception as e:
        sys.stdout = old
        T.violate({'clause': 'wrapper_raised', 'wrapper': wname, 'error': type(e).__name__}, {'wrapper': wname, 'cfg': cfg},
                  '%s raised %s: %s | cfg=%s' % (wname, type(e).__name__, str(e)[:300], cfg))
        return
    finally:
        sys.stdout = old
    x, fval, it, fc = r[:4]
    xt = tuple(float(v) for v in np.asarray(x, dtype=float).ravel())
    fval = float(np.asarray(fval).ravel()[0])
    T.count('traces'); T.count('transitions', int(it) + 1)
    T.state(('w', wname, xt, fval, int(it), int(fc)))
    sig = {'wrapper': wname, 'bounds_as_constraint': st.bounds_as_constraint(),
           'constraint_kind': (cfg.get('constraint') or 'none').split('/')[-1]}
    case = {'wrapper': wname, 'cfg': cfg}
    if np.isfinite(fval):
        if xt not in set(a for a, v in rec.log):
            T.violate(dict(sig, clause='wrapper_best_never_evaluated'), case, '%s returned x=%r that was never evaluated | cfg=%s' % (wname, xt, cfg))
        want = st.objective_at(xt, cfg['cost'])
        if not feq(want, fval):
            T.violate(dict(sig, clause='wrapper_energy_mismatch'), case,
                      '%s returned fval=%r but cost(x)+penalty(x)=%r at x=%r | cfg=%s' % (wname, fval, want, xt, cfg))
    if int(fc) != len(rec.log):
        T.violate(dict(sig, clause='wrapper_funcalls'), case, '%s reports %d evaluations, really %d | cfg=%s' % (wname, fc, len(rec.log), cfg))


def shard(item):
    kind, cfgs, nsteps = item
    T = Tally()
    for cfg in cfgs:
        if kind == 'solver':
            run_config(cfg, nsteps, T)
        else:
            run_wrapper(kind, cfg, T)
    T.sample({'kind': kind, 'cfg': cfgs[0], 'steps': nsteps})
    return T


def configs(ctx):
    thorough = ctx.thorough
    dims = (1, 2, 3) if thorough else (1, 2)
    costs = ['sphere', 'absum', 'steps', 'infwall', 'illq']
    out = []
    for solver in solverlab.SOLVERS:
        for dim in dims:
            starts = solverlab.STARTS[dim] if thorough else solverlab.STARTS[dim][:2]
            boxmodes = [(None, None, None)] + [(b, t, c) for b in ('unit', 'degen', 'onesided') for (t, c) in MODES]
            for cost, x0, (box, tight, clip), con, pen in itertools.product(costs, starts, boxmodes, CONS, PENS):
                if con == 'symbolic' and dim < 2:
                    continue
                if not solverlab.compatible(con, box, dim):
                    continue
                seeds = (ctx.seed, ctx.seed + 1) if (thorough and solver.startswith('DE')) else (ctx.seed,)
                for seed in seeds:
                    out.append({'solver': solver, 'dim': dim, 'cost': cost, 'x0': x0, 'box': box, 'tight': tight, 'clip': clip,
                                'constraint': con, 'penalty': pen, 'seed': seed, 'term': 'never', 'horizon': 5000})
    # array-valued cost with a reducer (and a penalty); 'vec1' has exactly one component, 'sumsq'/'rms' are not the
    # identity on a single value
    for solver in solverlab.SOLVERS:
        for cost in ('vec', 'vec1'):
            for red in ('sum', 'max', 'sumsq', 'rms', 'max2', 'mul2', 'first2'):
                for pen in (None, 'const', 'ramp') if not red.endswith('2') else (None, 'ramp'):
                    for con in (None, 'clamp/pure'):
                        out.append({'solver': solver, 'dim': 2, 'cost': cost, 'x0': [0.8, -0.4], 'box': None, 'reducer': red,
                                    'constraint': con, 'penalty': pen, 'seed': ctx.seed, 'term': 'never', 'horizon': 5000})
    # continued runs: Steps, an operation after which the objective is decorated again, Steps; boxes whose sides the
    # optimum lies outside of, so that members sit exactly on a bound when the run is continued
    mids = ['Finalize', 'SetPenalty', 'SetStrictRanges', 'SetConstraints', 'SetEvaluationLimits']
    for solver in solverlab.SOLVERS:
        for dim in ((2, 3) if thorough else (2,)):
            for cost in (('sphere', 'absum', 'steps') if thorough else ('sphere', 'steps')):
                for box in ('neg', 'shift', 'unit'):
                    for (t, c) in MODES:
                        for mid in mids:
                            for after in ((2, 3, 5) if thorough else (3,)):
                                for con in (None, 'clamp/pure'):
                                    if not solverlab.compatible(con, box, dim):
                                        continue
                                    for seed in ((ctx.seed, ctx.seed + 1) if solver.startswith('DE') else (ctx.seed,)):
                                        x0 = solverlab.STARTS[dim][0] if box != 'neg' else [-1.0] * dim
                                        out.append({'solver': solver, 'dim': dim, 'cost': cost, 'x0': x0, 'box': box, 'tight': t, 'clip': c,
                                                    'constraint': con, 'penalty': 'ramp' if mid == 'SetPenalty' else None, 'seed': seed,
                                                    'term': 'never', 'horizon': 5000, 'continue': mid, 'continue_after': after})
    # a setting installed mid-run (after the initial evaluation only, after 2 and after 3 Steps): the reported energies must
    # include it from the next iteration on
    # (Powell only: it carries one point that every iteration re-evaluates.  The population solvers keep the members'
    #  energies of the old objective until each member is replaced - the statement does not say what a stored energy means
    #  across a change of objective, so that is not judged here; C04 cuts its monotonicity segments at the same place)
    for solver in ('Powell',):
        for cost in ('sphere', 'steps', 'absum'):
            for box in (None, 'unit'):
                for mid in ('NewPenalty',):
                    for after in (1, 2, 3):
                        out.append({'solver': solver, 'dim': 2, 'cost': cost, 'x0': solverlab.STARTS[2][0], 'box': box, 'tight': None, 'clip': None,
                                    'constraint': None, 'penalty': None, 'seed': ctx.seed, 'term': 'never', 'horizon': 5000,
                                    'continue': mid, 'continue_after': after})
    return out


def run(ctx):
    nsteps = 12 if ctx.thorough else 8
    cfgs = configs(ctx)
    items = []
    chunk = 150
    for i in range(0, len(cfgs), chunk):
        items.append(('solver', cfgs[i:i + chunk], nsteps))
    wcfgs = [c for c in cfgs if c['dim'] == 2 and c['cost'] in ('sphere', 'steps') and c['x0'] == solverlab.STARTS[2][0]
             and c.get('seed') == ctx.seed and not c.get('reducer')]
    wmap = {'NM': 'fmin', 'Powell': 'fmin_powell', 'DE': 'diffev', 'DE2': 'diffev2'}
    for solver, w in wmap.items():
        mine = [dict(c, maxiter=6) for c in wcfgs if c['solver'] == solver]
        for i in range(0, len(mine), chunk):
            items.append((w, mine[i:i + chunk], 0))
    ctx.bounds = {'configurations': len(cfgs), 'wrapper_configurations': len(wcfgs), 'steps_per_run': nsteps,
                  'solvers': list(solverlab.SOLVERS), 'modes(tight,clip)': MODES, 'constraints': CONS, 'penalties': PENS,
                  'boxes': ['none', 'unit', 'degen', 'onesided'], 'costs': ['sphere', 'absum', 'steps', 'infwall', 'illq', 'vec+reducer', 'vec1+reducer'],
                  'reducers': ['sum', 'max', 'sumsq', 'rms', 'max2 / mul2 / first2 (two-argument form, folded)'],
                  'continued_runs': {'operations': ['Finalize', 'SetPenalty(same)', 'SetStrictRanges(same)', 'SetConstraints(same)', 'SetEvaluationLimits(new)'],
                                     'boxes': ['neg', 'shift', 'unit'], 'count': len([c for c in cfgs if c.get('continue')])}}
    ctx.rule = ("full product of the configuration alphabet (incompatible constraint/box pairs removed by a mechanical "
                "pre-check), every Step boundary judged; non-trivial = the run evaluated the cost to more than one distinct value")
    ctx.assumptions = ['constraints are deterministic, idempotent and map the box into itself (checked mechanically on a grid)',
                       'clip=False (randomising) bounds excluded as the statement requires deterministic constraints']
    ctx.pmap(shard, items)


def replay(case):
    T = Tally()
    if 'wrapper' in case:
        run_wrapper(case['wrapper'], case['cfg'], T)
    else:
        run_config(case['cfg'], case['steps'], T)
    return [v['detail'] for v in T.violations.values()]
