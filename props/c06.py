"""C06 - a checkpointed solver resumes exactly as if it had never been interrupted.

Engine E1 with crash-point enumeration.  For every configuration the uninterrupted run of n Steps is
executed once and the canonical form (mc/c06_canon.py: EVERY entry of solver.__dict__, closures of the
decorated cost included, with the sharing structure of the object graph) is recorded at every boundary
together with the state of the harness-owned random source.  Then

 (S) single crash point: for EVERY boundary k < n a fresh original is driven to k and transferred by every
     path {dill.dumps/dill.loads, dill.copy, copy.deepcopy, SaveSolver(file)/LoadSolver, SaveSolver(file)/dill.load};
     each restored object must (i) have the canonical form of the original at k, (ii) after each of the
     remaining n-k Steps - taken with the random state of the crash point reinstated - be bit-identical to
     the uninterrupted run (and return the same Step message), (iii) count exactly the cost calls IT made
     (per-object: the recorder copies reachable from that object), (iv) leave the original untouched while it
     advances; afterwards the original is advanced and must (v) still follow the uninterrupted run and
     (vi) leave every copy untouched.  copy.copy (shallow: shares state by construction) is judged for (i),(ii) only.
 (P) periodic dumps: SetSaveFrequency(f, file), f in {1,2,3}; the file *as it exists after step k* (every k)
     restored by LoadSolver and by dill.load with the random state of the moment the file last changed; the
     restored run is aligned with the uninterrupted one by its generation count and must be bit-identical
     after every further Step, and its step-monitor contents must also be those of the uninterrupted run at equal
     EVALUATION count.  The state AT restore is judged when generation and evaluation count both name a boundary
     (they must name the same one, and the observables must be that boundary's); only a dump whose evaluation
     count matches no boundary (taken inside an iteration) is merely classified.  The run with periodic dumps must
     equal the run without.
 (D) restore of a restore: two crash points k1 < k2 (all pairs), chains of two transfers.
 (Z) configurations with limits: after the restore both original and copy run Solve() to the stop and must agree.
 (L) LoggingMonitor configurations: the original dies at k, one restored solver continues; the record lines of the
     log file must be those of the uninterrupted run (comment lines ignored).
 (K) sticky Solve keywords: the reference is ONE uninterrupted Solve(**kw) under a generation limit N (DE/DE2: strategy,
     CrossProbability, ScalingFactor; NM: radius, adaptive; Powell: xtol, imax, direc).  For every k < N: Solve(**kw) under
     limit k, SaveSolver/LoadSolver or dill, SetEvaluationLimits(N), bare Solve() - or bare Step()s - must end in the
     canonical state of the uninterrupted run (step-monitor record sequence included); likewise from every restart file
     SetSaveFrequency(1) wrote during that uninterrupted Solve (captured from the callback = what a crash leaves behind).
 (M) DE2 with a picklable dill-copying map (SetMapper(CopyingMap())): the cost runs outside the solver's own wrapper and
     the solver settles its counter itself; single crash points, periodic files and an evaluation limit (one
     generation more or less shows as a different stop).  Real calls are counted per object by the map instance.
 (H) histories: two configurations reconfigure the run between two Steps (SetPenalty + new evaluation / generation
     monitors; SetStrictRanges + SetEvaluationLimits(new=True)), so crash points also fall on a solver whose
     objective is not live and whose monitors were swapped; the same reconfiguration is applied to whichever
     object (original or restored) crosses that boundary.
 Thorough adds n=12, more costs / dims / seeds, Verbose- and Logging- evaluation monitors, a symbolic constraint, a
 reducer, SaveSolver() with the solver-chosen file + LoadSolver(_state=...), all 7 double chains on the core configurations.

Independent oracle = confluence (no expected values are written down): two histories the property declares
equivalent must reach the same canonical state.
"""
import os, copy, tempfile, shutil, traceback
import numpy as np
from mc import solverlab
from mc import c06_canon as cn
from mc.runner import Tally

# ------------------------------------------------------------------ alphabets
CONFIGS = {
    'plain': {},
    'box_con_pen': {'box': 'unit', 'constraint': 'clamp/pure', 'penalty': 'quad'},
    'box_con_pen_inplace': {'box': 'unit', 'constraint': 'tie/inplace', 'penalty': 'ramp'},
    'tight': {'box': 'unit', 'tight': True},
    'clip': {'box': 'unit', 'clip': True},
    'clip_random': {'box': 'unit', 'clip': False},   # the bounds re-entry draws from the random source (NM/Powell too)
    'monitors': {'evalmon': 'Monitor', 'stepmon': 'Monitor'},
    'logging': {'evalmon': 'Monitor', 'stepmon': 'Logging'},
    'verbose': {'evalmon': 'Monitor', 'stepmon': 'Verbose'},
    'logging_eval': {'evalmon': 'Logging', 'stepmon': 'Monitor'},
    'logging_k': {'evalmon': 'Monitor*2', 'stepmon': 'Logging*-1', 'term': 'cog'},     # monitors with a cost multiplier; the termination reads the scaled history
    'limit_gen': {'limits': [4, None], 'term': 'cog'},
    'limit_eval': {'limits': [None, 12], 'term': 'default'},
    'symbolic': {'box': 'unit', 'constraint': 'symbolic'},
    # histories: the run is reconfigured between two Steps (the crash point right after it finds the objective not live)
    'reconf_pen_mon': {'evalmon': 'Monitor', 'midrun': {'at': 3, 'ops': [['SetPenalty', 'ramp'], ['SetEvaluationMonitor', 'Monitor'], ['SetGenerationMonitor', 'Monitor']]}},
    'reconf_box_lim': {'constraint': 'clamp/pure', 'midrun': {'at': 2, 'ops': [['SetStrictRanges', 'unit', True, None], ['SetEvaluationLimits', 3, None, True]]}},
    'reducer': {'cost': 'vec', 'reducer': 'sum', 'penalty': 'ramp'},
    # DE2 only: the cost is evaluated through a copying map, so the solver settles its counter itself after the map call
    'map': {'mapper': 'copying'},
    'map_limit_eval': {'mapper': 'copying', 'limits': [None, 20]},
    'map_box_monitors': {'mapper': 'copying', 'box': 'unit', 'evalmon': 'Monitor', 'stepmon': 'Monitor'},
}
MAP_CONFIGS = ('map', 'map_limit_eval', 'map_box_monitors')
QUICK_PLAN = [('plain', 'sphere'), ('plain', 'rosen'), ('box_con_pen', 'steps'),
              ('tight', 'sphere'), ('clip', 'sphere'), ('clip_random', 'sphere'),
              ('monitors', 'sphere'), ('logging', 'sphere'), ('logging_k', 'sphere'), ('limit_gen', 'sphere'), ('limit_eval', 'sphere'),
              ('reconf_pen_mon', 'sphere'), ('reconf_box_lim', 'sphere')]
THOROUGH_COSTS = ['sphere', 'steps', 'rosen', 'absum', 'infwall']
THOROUGH_CORE = ('plain', 'box_con_pen', 'monitors', 'limit_gen')     # 5 / 5 / 3 / 3 costs, all 7 double chains; the rest: 1-2 costs, 3 chains
THOROUGH_TWO_COSTS = ('tight', 'clip', 'clip_random', 'symbolic', 'box_con_pen_inplace', 'limit_eval') + MAP_CONFIGS

SINGLE = ['dill.dumps/dill.loads', 'dill.copy', 'copy.deepcopy', 'SaveSolver/LoadSolver', 'SaveSolver/dill.load']
SINGLE_THOROUGH = ['SaveSolver()/LoadSolver(_state=)'] + SINGLE     # file name chosen by the solver, restored by keyword
SPLIT = {'SaveSolver()/LoadSolver(_state=)': ('SaveSolver()', 'LoadSolver(_state=)'),
         'dill.dumps/dill.loads': ('dill.dumps', 'dill.loads'), 'dill.copy': ('-', 'dill.copy'),
         'copy.deepcopy': ('-', 'copy.deepcopy'), 'copy.copy': ('-', 'copy.copy'),
         'SaveSolver/LoadSolver': ('SaveSolver', 'LoadSolver'), 'SaveSolver/dill.load': ('SaveSolver', 'dill.load')}
DOUBLE = {'SaveSolver/LoadSolver': ['SaveSolver/LoadSolver', 'dill.dumps/dill.loads', 'copy.deepcopy'],
          'dill.dumps/dill.loads': ['SaveSolver/LoadSolver', 'SaveSolver/dill.load'],
          'dill.copy': ['dill.dumps/dill.loads', 'dill.copy']}
DOUBLE_QUICK = {'SaveSolver/LoadSolver': ['SaveSolver/LoadSolver', 'copy.deepcopy'],
                'dill.dumps/dill.loads': ['SaveSolver/dill.load']}
PERIODIC_QUICK = {1: ['LoadSolver', 'dill.load'], 2: ['LoadSolver'], 3: ['LoadSolver']}
PERIODIC_FULL = {1: ['LoadSolver', 'dill.load'], 2: ['LoadSolver', 'dill.load'], 3: ['LoadSolver', 'dill.load']}
STARTS = {'rosen': {2: [-1.2, 1.0], 3: [-1.2, 1.0, 0.7]}}


class HarnessFault(Exception):
    pass


class CopyingMap(object):
    """deterministic stand-in for a process pool: the decorated cost and every work item are dill-copied before the
    call and the results are copied back, so the cost is evaluated OUTSIDE the solver's own wrapper (its counter
    cell never moves; DE2 has to settle `_fcalls` itself).  An instance is pickled with the solver, so every restored
    solver owns its map and `calls` counts the real cost calls made on behalf of that object."""

    def __init__(self):
        self.calls = 0
        self.items = 0

    def __call__(self, f, *args, **kwds):
        import dill
        g = dill.copy(f)
        w = cn.Walker()
        w.walk(g, 'g')
        recs = [r for _, r in w.recorders]
        n0 = sum(len(r.log) for r in recs)
        out = []
        for a in zip(*args):
            out.append(dill.copy(g(*dill.copy(a))))
            self.items += 1
        self.calls += sum(len(r.log) for r in recs) - n0
        return out


def make_cfg(solver, confname, cost, dim, seed):
    cfg = {'solver': solver, 'dim': dim, 'cost': cost, 'seed': seed, 'term': 'never', 'conf': confname,
           'instrument': False, 'horizon': 60000}
    extra = CONFIGS[confname]
    cfg.update(extra)
    if confname == 'logging_k' and solver == 'Powell':
        # Powell hands its generation monitor a 0-d array, which a monitor with a multiplier cannot scale (TypeError in
        # _imultiply; outside this property) - for Powell the multiplier monitors swap roles
        cfg.update(evalmon='Logging*-1', stepmon='Monitor')
    if cost in STARTS:
        cfg['x0'] = STARTS[cost][dim]
    elif 'box' in extra:
        cfg['x0'] = solverlab.STARTS[dim][2]     # outside the unit box: clipping / re-entry is engaged
    else:
        cfg['x0'] = solverlab.STARTS[dim][0]
    return cfg


def _rngkey(st):
    return cn._dg((st[0], (st[1][0], st[1][1].tolist()) + tuple(st[1][2:])))


# ------------------------------------------------------------------ one configuration
class Bench(object):
    """reference (uninterrupted) trajectory of one configuration + the helpers every mode shares"""

    def __init__(self, cfg, n, tmp):
        self.cfg = dict(cfg)
        self.labcfg = {k: v for k, v in cfg.items() if k not in ('conf', 'midrun', 'mapper')}
        mid = cfg.get('midrun')
        self.midrun = {int(mid['at']): mid['ops']} if mid else {}
        self.n = n
        self.tmp = tmp
        self.serial = 0
        self.cleanup = []       # files the solver itself created outside the shard's temp dir
        if cfg.get('constraint') == 'symbolic':
            # building the symbolic constraint draws random test points (simplify); it is cached per process, so
            # build it before the reference run - otherwise only the first Lab of a process would consume those draws
            from mc import env
            with env.owned_random(env.SeededRandom(0)):
                solverlab.cached('symbolic_con', solverlab.symbolic_con)
        lab = self.lab()
        self.ref = [cn.fields(lab.solver)]
        self.msgs = [None]
        self.rngs = [lab.rng.getstate()]
        for i in range(n):
            self.msgs.append(self.advance(lab, lab.solver, i + 1))
            self.ref.append(cn.fields(lab.solver))
            self.rngs.append(lab.rng.getstate())
        self.distinct_boundaries = len(set(cn.freeze(f) for f in self.ref))

    # .................................................. plumbing
    def lab(self):
        lab = solverlab.Lab(self.labcfg, self.tmp)
        if self.cfg.get('mapper') == 'copying':
            lab.solver.SetMapper(CopyingMap())
        return lab

    def advance(self, lab, X, i):
        """take the Step that reaches boundary i, then the reconfiguration scheduled at that boundary (if any)"""
        with lab._env():
            msg = X.Step()
            for op in self.midrun.get(i, ()):
                self.apply(lab, X, op)
        return msg

    def apply(self, lab, X, op):
        name = op[0]
        if name == 'SetPenalty':
            X.SetPenalty(lab.pen(op[1]))
        elif name == 'SetConstraints':
            X.SetConstraints(lab.con(op[1]))
        elif name == 'SetEvaluationMonitor':
            X.SetEvaluationMonitor(solverlab.make_monitor(op[1], self.tmp, 'me'))
        elif name == 'SetGenerationMonitor':
            X.SetGenerationMonitor(solverlab.make_monitor(op[1], self.tmp, 'ms'))
        elif name == 'SetStrictRanges':
            lab.set_ranges(X, op[1], op[2], op[3])
        elif name == 'SetEvaluationLimits':
            X.SetEvaluationLimits(op[1], op[2], new=op[3])
        else:
            raise KeyError(name)

    def fresh(self, k, setup=None, ref=None):
        """a fresh original driven to boundary k; proves the harness owns all nondeterminism"""
        lab = self.lab()
        if setup is not None:
            setup(lab)
        for i in range(k):
            self.advance(lab, lab.solver, i + 1)
        if ref is None:
            ref = self.ref
        d = cn.diff(cn.fields(lab.solver), ref[k])
        if d or (setup is None and _rngkey(lab.rng.getstate()) != _rngkey(self.rngs[k])):
            raise HarnessFault('replaying %r to boundary %d is not deterministic: %s' % (self.cfg, k, d))
        return lab

    def path(self, stem):
        self.serial += 1
        return os.path.join(self.tmp, '%s_%d_%d.pkl' % (stem, os.getpid(), self.serial))

    def transfer(self, lab, X, name, shared):
        """apply one save/restore path to X -> restored object (exceptions propagate)"""
        import dill
        from mystic.solvers import LoadSolver
        save, restore = SPLIT[name]
        with lab._env():
            if save == 'SaveSolver()':
                had = X._state
                X.SaveSolver()
                if had is None:
                    self.cleanup.append(X._state)
                return LoadSolver(_state=X._state)
            if save == 'dill.dumps':
                if 'blob' not in shared:
                    shared['blob'] = dill.dumps(X)
                return dill.loads(shared['blob'])
            if save == 'SaveSolver':
                if 'file' not in shared:
                    shared['file'] = self.path('save')
                    X.SaveSolver(shared['file'])
                if restore == 'LoadSolver':
                    return LoadSolver(shared['file'])
                with open(shared['file'], 'rb') as fh:
                    return dill.load(fh)
            if restore == 'dill.copy':
                return dill.copy(X)
            if restore == 'copy.deepcopy':
                return copy.deepcopy(X)
            if restore == 'copy.copy':
                return copy.copy(X)
        raise KeyError(name)

    # .................................................. the confluence oracle
    def follow(self, lab, X, start, rng_state, ref=None, msgs=None, account=True, by_evals=False):
        """advance X from boundary `start` to n with the crash-point random state reinstated.
        -> (problems, progressed) ; problems = [(clause, what, detail)] (first divergence only, plus accounting)"""
        ref = self.ref if ref is None else ref
        msgs = self.msgs if msgs is None else msgs
        lab.rng.setstate(rng_state)
        problems = []
        progressed = 0
        e0, c0 = int(X.evaluations), 0
        meter = CallMeter(X)
        accounted = False
        for s in range(1, self.n - start + 1):
            try:
                msg = self.advance(lab, X, start + s)
            except solverlab.Horizon:
                raise
            except Exception as e:
                problems.append(('continue_raised', type(e).__name__,
                                 'Step %d after the restore (boundary %d -> %d) raised %s: %s | %s'
                                 % (s, start + s - 1, start + s, type(e).__name__, e, _tb())))
                break
            f, w = cn.fields(X, with_walker=True)
            e1, c1 = int(X.evaluations), meter.calls([r for _, r in w.recorders])
            if e1 > e0 or c1 > c0:
                progressed += 1
            if account and not accounted and (e1 - e0) != (c1 - c0):
                accounted = True
                problems.append(('evaluations_not_own_calls', 'observable',
                                 'after %d Step(s) beyond boundary %d this object made %d real cost calls but its '
                                 '`evaluations` grew by %d (%d -> %d)' % (s, start, c1 - c0, e1 - e0, e0, e1)))
            if by_evals and not any(p[0] == 'stepmon_differs_at_equal_evaluations' for p in problems):
                # second alignment, independent of the generation counter: wherever the uninterrupted run has made
                # exactly as many evaluations, its step-monitor contents must be the ones seen here
                same = [i for i in range(len(ref)) if ref[i]['#evaluations'] == f['#evaluations']]
                if same and not any(ref[i]['#stepmon'] == f['#stepmon'] and ref[i]['#generations'] == f['#generations'] for i in same):
                    i = same[-1]
                    problems.append(('stepmon_differs_at_equal_evaluations', 'observable',
                                     '%d Step(s) after the restore: %s evaluations made = uninterrupted boundary %d, but generations %s vs %s and the step monitor holds %d records vs %d'
                                     % (s, f['#evaluations'][1], i, f['#generations'][1], ref[i]['#generations'][1], len(f['#stepmon'][1]), len(ref[i]['#stepmon'][1]))))
            d = cn.diff(f, ref[start + s])
            if msg != msgs[start + s]:
                d.append('#Step_message')
            if d:
                what = 'observable' if any(x in cn.OBSERVABLE or x == '#Step_message' for x in d) else 'internal'
                ex = '; '.join(cn.explain(f, ref[start + s], x, 160) for x in d[:3] if x != '#Step_message')
                if '#Step_message' in d:
                    ex += '; Step returned %r, uninterrupted run %r' % (msg, msgs[start + s])
                problems.append(('continuation_diverges', what,
                                 '%d Step(s) after the restore (uninterrupted boundary %d) fields %s differ: %s'
                                 % (s, start + s, d, ex)))
                break
        return problems, progressed


def _tb():
    return traceback.format_exc().strip().splitlines()[-3].strip()[:160]


class CallMeter(object):
    """real cost calls made through the recorder copies that belong to X (per object: after pickling every
    restored solver holds its own copies, and a re-decoration may swap which copy is wired in)"""

    def __init__(self, X):
        self.X = X
        self.seen = {}      # id -> (recorder, length at first sight)
        self.maps = {}      # id -> (CopyingMap, calls at first sight)
        self.calls()

    def calls(self, recorders=None):
        for r in (cn.recorders_of(self.X) if recorders is None else recorders):
            if id(r) not in self.seen:
                self.seen[id(r)] = (r, len(r.log))
        m = self.X.__dict__.get('_map')
        if isinstance(m, CopyingMap) and id(m) not in self.maps:
            self.maps[id(m)] = (m, m.calls)
        return sum(len(r.log) - n0 for r, n0 in self.seen.values()) + sum(m.calls - n0 for m, n0 in self.maps.values())


def _what(d):
    return 'observable' if any(x in cn.OBSERVABLE for x in d) else 'internal'


class Sink(object):
    """turns problems into Tally violations with categorical signatures"""

    def __init__(self, T, bench):
        self.T = T
        self.b = bench

    def emit(self, mode, name, clause, what, detail, case):
        save, restore = name if isinstance(name, tuple) else SPLIT[name]
        cfg = self.b.cfg
        sig = {'solver': cfg['solver'], 'save': save, 'restore': restore, 'clause': clause, 'what': what}
        full = dict(case, cfg=cfg, n=self.b.n, mode=mode)
        self.T.violate(sig, full, '%s | %s via %s -> %s, config=%s cost=%s dim=%d seed=%d, case=%s'
                       % (detail, cfg['solver'], save, restore, cfg['conf'], cfg['cost'], cfg['dim'], cfg['seed'],
                          {k: v for k, v in case.items()}))
        self.T.hist('violations_by_config', '%s/%s/%s' % (cfg['conf'], restore, clause))

    def outcome(self, mode, name, problems):
        save, restore = name if isinstance(name, tuple) else SPLIT[name]
        key = 'confluent and independent' if not problems else '+'.join(sorted(set(p[0] for p in problems)))
        self.T.hist('outcome[%s]' % mode, '%s->%s: %s' % (save, restore, key))


# ------------------------------------------------------------------ (S) single crash point
def run_single(b, k, kinds, T, shallow=True):
    sink = Sink(T, b)
    lab = b.fresh(k)
    O = lab.solver
    st = lab.rng.getstate()
    T.hist('original_already_stopped_at_crash_point', bool(b.msgs[k]))
    shared = {}
    made = []            # (name, R, case, problems) - every checkpoint is taken before anything advances
    for name in kinds:
        case = {'k': k, 'transfer': name}
        problems = []
        T.count('traces'); T.count('transitions')
        try:
            R = b.transfer(lab, O, name, shared)
        except Exception as e:
            problems.append(('transfer_raised', type(e).__name__, '%s at boundary %d raised %s: %s' % (name, k, type(e).__name__, e)))
            R = None
        fO = cn.fields(O)
        d = cn.diff(fO, b.ref[k])
        if d:
            problems.append(('original_changed_by_transfer', _what(d), 'taking the checkpoint at boundary %d changed the original: %s'
                             % (k, '; '.join(cn.explain(fO, b.ref[k], x, 160) for x in d[:3]))))
        made.append((name, R, case, problems))
    fO = cn.fields(O)
    copies = []          # (name, R, final fields, case)
    for name, R, case, problems in made:
        if R is not None:
            fR = cn.fields(R)
            T.state(cn.freeze(fR))
            d = cn.diff(fR, b.ref[k])
            if d:
                problems.append(('restored_state_differs', _what(d), 'restored object at boundary %d differs from the original in %s: %s'
                                 % (k, d, '; '.join(cn.explain(fR, b.ref[k], x, 160) for x in d[:3]))))
            if not d or _what(d) == 'internal':
                more, progressed = b.follow(lab, R, k, st)
                problems += more
                T.count('transitions', b.n - k)
                T.hist('iterations_progressed_after_restore', progressed)
                if progressed:
                    T.nontriv(('S', sorted(b.cfg.items(), key=str), k, name))
                # (iv) advancing the copy must not touch the original
                fO2 = cn.fields(O)
                d = cn.diff(fO2, fO)
                if d:
                    problems.append(('original_changed_by_copy', _what(d), 'advancing the restored object %d Step(s) changed the original in %s: %s'
                                     % (b.n - k, d, '; '.join(cn.explain(fO2, fO, x, 160) for x in d[:3]))))
                    fO = fO2
                copies.append((name, R, cn.fields(R), case))
        for clause, what, detail in problems:
            sink.emit('single', name, clause, what, detail, case)
        sink.outcome('single', name, problems)
    # (v) the original itself continues as the uninterrupted run, (vi) and leaves the copies alone
    problems, progressed = b.follow(lab, O, k, st)
    T.count('transitions', b.n - k)
    for clause, what, detail in problems:
        sink.emit('single', ('SaveSolver' if 'file' in shared else '-', 'original'), 'original_' + clause, what, detail, {'k': k, 'transfer': 'original'})
    for name, R, fR, case in copies:
        f2 = cn.fields(R)
        d = cn.diff(f2, fR)
        if d:
            sink.emit('single', name, 'copy_changed_by_original', _what(d), 'advancing the original (or a sibling copy) changed this restored object in %s: %s'
                      % (d, '; '.join(cn.explain(f2, fR, x, 160) for x in d[:3])), case)
    # shallow copy: confluence only
    if shallow:
        lab2 = b.fresh(k)
        T.count('traces'); T.count('transitions')
        name = 'copy.copy'
        case = {'k': k, 'transfer': name}
        problems = []
        C = b.transfer(lab2, lab2.solver, name, {})
        fC = cn.fields(C)
        d = cn.diff(fC, b.ref[k])
        if d:
            problems.append(('restored_state_differs', _what(d), 'shallow copy at boundary %d differs in %s' % (k, d)))
        more, progressed = b.follow(lab2, C, k, lab2.rng.getstate(), account=False)
        T.count('transitions', b.n - k)
        problems += more
        if progressed:
            T.nontriv(('S', sorted(b.cfg.items(), key=str), k, name))
        for clause, what, detail in problems:
            sink.emit('single', name, clause, what, detail, case)
        sink.outcome('single', name, problems)


# ------------------------------------------------------------------ (Z) continue with Solve()
def run_solve(b, k, kinds, T):
    sink = Sink(T, b)
    lab = b.fresh(k)
    O = lab.solver
    st = lab.rng.getstate()
    shared = {}
    Rs = []
    for name in kinds:
        try:
            Rs.append((name, b.transfer(lab, O, name, shared)))
        except Exception:
            pass      # reported by run_single
    def solve(X):
        lab.rng.setstate(st)
        with lab._env():
            X.Solve()
        return cn.fields(X)
    fO = solve(O)
    for name, R in Rs:
        T.count('traces'); T.count('transitions', 2)
        case = {'k': k, 'transfer': name}
        problems = []
        e0, meter, calls = int(R.evaluations), CallMeter(R), 0
        try:
            fR = solve(R)
        except solverlab.Horizon as e:
            problems.append(('continue_runaway', 'observable', 'Solve() after the restore at boundary %d did not stop within the evaluation horizon (%s); the original stopped' % (k, e)))
            fR = None
        except Exception as e:
            problems.append(('continue_raised', type(e).__name__, 'Solve() after the restore at boundary %d raised %s: %s' % (k, type(e).__name__, e)))
            fR = None
        if fR is not None:
            calls = meter.calls()
            if int(R.evaluations) - e0 != calls:
                problems.append(('evaluations_not_own_calls', 'observable', 'Solve() after the restore made %d real calls, `evaluations` grew by %d'
                                 % (calls, int(R.evaluations) - e0)))
            d = cn.diff(fR, fO)
            if d:
                problems.append(('continuation_diverges', _what(d), 'after Solve() from boundary %d original and restored differ in %s: %s'
                                 % (k, d, '; '.join(cn.explain(fR, fO, x, 160) for x in d[:3]))))
            if calls > 0:
                T.nontriv(('Z', sorted(b.cfg.items(), key=str), k, name))
        for clause, what, detail in problems:
            sink.emit('solve', name, clause, what, detail, case)
        sink.outcome('solve', name, problems)


# ------------------------------------------------------------------ (L) the file of a LoggingMonitor
def _logfiles(solver):
    out = {}
    for tag, m in (('stepmon', solver._stepmon), ('evalmon', solver._evalmon)):
        fn = getattr(m, '_filename', None)
        if isinstance(fn, str):
            out[tag] = fn
    return out


def _datalines(path):
    with open(path) as fh:
        return [l.rstrip() for l in fh if l.strip() and not l.lstrip().startswith('#')]


def run_logfile(b, k, kinds, T):
    """crash semantics for a LoggingMonitor: the original dies at boundary k, ONE restored solver continues to n; the
    record lines of the log file(s) must be those of the uninterrupted run (comment lines - dates, DUMPED/LOADED/STOP - ignored)"""
    sink = Sink(T, b)
    if not hasattr(b, 'reflog'):
        sub = tempfile.mkdtemp(dir=b.tmp)
        lab = solverlab.Lab(b.labcfg, sub)
        for i in range(b.n):
            b.advance(lab, lab.solver, i + 1)
        b.reflog = {tag: _datalines(fn) for tag, fn in _logfiles(lab.solver).items()}
        T.hist('logfile_record_lines_of_reference_run', sum(len(v) for v in b.reflog.values()))
    for name in kinds:
        sub = tempfile.mkdtemp(dir=b.tmp)
        lab = solverlab.Lab(b.labcfg, sub)
        for i in range(k):
            b.advance(lab, lab.solver, i + 1)
        st = lab.rng.getstate()
        files = _logfiles(lab.solver)
        case = {'k': k, 'transfer': name}
        T.count('traces'); T.count('transitions', 1 + b.n)
        try:
            R = b.transfer(lab, lab.solver, name, {})
            lab.rng.setstate(st)
            for s in range(1, b.n - k + 1):
                b.advance(lab, R, k + s)
        except Exception:
            continue            # reported by run_single
        bad = []
        for tag, fn in files.items():
            got = _datalines(fn)
            want = b.reflog.get(tag)
            if got != want:
                i = next((j for j, (x, y) in enumerate(zip(got, want)) if x != y), min(len(got), len(want)))
                bad.append('%s log file has %d record lines, the uninterrupted run %d; first difference at line %d: %r vs %r'
                           % (tag, len(got), len(want), i, got[i] if i < len(got) else None, want[i] if i < len(want) else None))
        if bad:
            sink.emit('logfile', name, 'logfile_differs', 'logfile', 'crash at boundary %d, restored, continued to %d: %s' % (k, b.n, '; '.join(bad)), case)
        else:
            T.nontriv(('L', sorted(b.cfg.items(), key=str), k, name))
        sink.outcome('logfile', name, [('logfile_differs',)] if bad else [])


# ------------------------------------------------------------------ (P) periodic dumps
def run_periodic(b, f, restores, T, only_j=None):
    import dill
    from mystic.solvers import LoadSolver
    sink = Sink(T, b)
    fn = b.path('periodic')
    lab = b.lab()
    O = lab.solver
    O.SetSaveFrequency(f, fn)
    pref = [cn.fields(O)]
    msgs = [None]
    rngs = [lab.rng.getstate()]
    files = [None]
    for i in range(b.n):
        msgs.append(b.advance(lab, O, i + 1))
        pref.append(cn.fields(O))
        rngs.append(lab.rng.getstate())
        files.append(open(fn, 'rb').read() if os.path.exists(fn) else None)
    T.count('traces'); T.count('transitions', b.n)
    # the run that dumps is the run that does not (modulo the two settings)
    for i in range(b.n + 1):
        d = [x for x in cn.diff(pref[i], b.ref[i]) if x != '_saveiter']
        if d or msgs[i] != b.msgs[i]:
            sink.emit('periodic', ('periodic', 'original'), 'dumping_perturbs_run', _what(d),
                      'with SetSaveFrequency(%d) the run differs from the run without at boundary %d in %s' % (f, i, d), {'f': f, 'k': i})
            break
    fO = pref[b.n]
    done = {}
    for k in range(1, b.n):
        T.count('periodic_crash_points')
        if files[k] is None:
            T.hist('periodic_file_state', 'no file yet at this boundary')
            continue
        j = k
        while j > 1 and files[j - 1] == files[k]:
            j -= 1
        if only_j is not None and j != only_j:
            continue
        if j in done:
            continue
        done[j] = True
        for restore in restores:
            name = ('periodic', restore)
            case = {'f': f, 'k': k, 'dump_step': j, 'restore': restore}
            problems = []
            T.count('traces'); T.count('transitions')
            q = b.path('crash')
            with open(q, 'wb') as fh:
                fh.write(files[k])
            lab2 = b.lab()
            try:
                with lab2._env():
                    if restore == 'LoadSolver':
                        R = LoadSolver(q)
                    else:
                        with open(q, 'rb') as fh:
                            R = dill.load(fh)
            except Exception as e:
                sink.emit('periodic', name, 'transfer_raised', type(e).__name__, 'restoring the periodic dump of step %d raised %s: %s' % (j, type(e).__name__, e), case)
                continue
            fR = cn.fields(R)
            T.state(cn.freeze(fR))
            g = fR['#generations']
            cands = [i for i in range(j + 1) if pref[i]['#generations'] == g]
            if not cands:
                sink.emit('periodic', name, 'restored_generation_count_unknown', 'observable',
                          'the dump of step %d restores to generations=%r, which no boundary <= %d of the run had' % (j, g, j), case)
                continue
            byev = [i for i in range(j + 1) if pref[i]['#evaluations'] == fR['#evaluations']]
            both = sorted(set(cands) & set(byev))
            if byev and not both:
                problems.append(('periodic_dump_inconsistent', 'observable',
                                 'the restored counters disagree about which boundary the file is: generations=%s is boundary %s of the run, evaluations=%s is boundary %s'
                                 % (g[1], cands, fR['#evaluations'][1], byev)))
            m0 = both[-1] if both else cands[-1]
            d0 = cn.diff(fR, pref[m0])
            if both and d0 and _what(d0) == 'observable':
                # generation AND evaluation count say "boundary m0": then it is not a dump from inside an iteration
                # and what the statement names must be what the run had there
                od = [x for x in d0 if x in cn.OBSERVABLE]
                problems.append(('restored_state_differs', 'observable', 'by both counters the file is boundary %d, but %s differ: %s'
                                 % (m0, od, '; '.join(cn.explain(fR, pref[m0], x, 160) for x in od[:3]))))
            T.hist('periodic_dump_state', 'equals boundary state (whole form)' if not d0 else
                   ('equals boundary state in observables; lazily resolved internals differ' if _what(d0) == 'internal' else 'taken inside an iteration'))
            more, progressed = b.follow(lab2, R, m0, rngs[j], ref=pref, msgs=msgs, by_evals=True)
            T.count('transitions', b.n - m0)
            problems += more
            if progressed:
                T.nontriv(('P', sorted(b.cfg.items(), key=str), f, j, restore))
            f2 = cn.fields(O)
            d = cn.diff(f2, fO)
            if d:
                problems.append(('original_changed_by_copy', _what(d), 'advancing the restored object changed the original in %s' % d))
            for clause, what, detail in problems:
                sink.emit('periodic', name, clause, what, 'dump written during step %d (f=%d), restored at generation %s = boundary %d: %s'
                          % (j, f, g[1], m0, detail), case)
            sink.outcome('periodic', name, problems)


# ------------------------------------------------------------------ (D) restore of a restore
def run_double(b, k1, first, seconds, T, only_k2=None):
    sink = Sink(T, b)
    lab = b.fresh(k1)
    O = lab.solver
    try:
        R1 = b.transfer(lab, O, first, {})
    except Exception:
        return      # reported by run_single
    T.count('transitions')
    if cn.diff(cn.fields(R1), b.ref[k1]):
        return      # reported by run_single
    lab.rng.setstate(b.rngs[k1])
    for k2 in range(k1 + 1, b.n):
        try:
            msg = b.advance(lab, R1, k2)
        except Exception:
            return  # reported by run_single
        T.count('transitions')
        f1 = cn.fields(R1)
        if cn.diff(f1, b.ref[k2]):
            return  # reported by run_single
        if only_k2 is not None and k2 != only_k2:
            continue
        st = lab.rng.getstate()
        shared = {}
        made = []
        for second in seconds:      # every second checkpoint is taken before anything advances
            s1, r1 = SPLIT[first]
            s2, r2 = SPLIT[second]
            name = ('%s>%s' % (s1, s2), '%s>%s' % (r1, r2))
            case = {'k1': k1, 'k2': k2, 'first': first, 'second': second}
            T.count('traces'); T.count('transitions')
            try:
                made.append((name, case, b.transfer(lab, R1, second, shared)))
            except Exception as e:
                sink.emit('double', name, 'transfer_raised', type(e).__name__, 'second transfer at boundary %d raised %s: %s' % (k2, type(e).__name__, e), case)
        f1b = cn.fields(R1)
        d = cn.diff(f1b, f1)
        if d:
            sink.emit('double', (SPLIT[first][0] + '>*', SPLIT[first][1] + '>*'), 'original_changed_by_transfer', _what(d),
                      'taking a second checkpoint at boundary %d changed the first restored object in %s' % (k2, d), {'k1': k1, 'k2': k2, 'first': first, 'second': seconds[0]})
        for name, case, R2 in made:
            problems = []
            f2 = cn.fields(R2)
            T.state(cn.freeze(f2))
            d = cn.diff(f2, b.ref[k2])
            if d:
                problems.append(('restored_state_differs', _what(d), 'restore (at %d) of a restore (at %d) differs from the original in %s: %s'
                                 % (k2, k1, d, '; '.join(cn.explain(f2, b.ref[k2], x, 160) for x in d[:3]))))
            if not d or _what(d) == 'internal':
                more, progressed = b.follow(lab, R2, k2, st)
                T.count('transitions', b.n - k2)
                problems += more
                if progressed:
                    T.nontriv(('D', sorted(b.cfg.items(), key=str), k1, k2, first, case['second']))
                f1c = cn.fields(R1)
                d = cn.diff(f1c, f1b)
                if d:
                    problems.append(('original_changed_by_copy', _what(d), 'advancing the second restored object changed the first in %s' % d))
                    f1b = f1c
            for clause, what, detail in problems:
                sink.emit('double', name, clause, what, detail, case)
            sink.outcome('double', name, problems)
        lab.rng.setstate(st)


# ------------------------------------------------------------------ (K) one uninterrupted Solve(**keywords) as the reference
# keywords the docstrings of _process_inputs call 'sticky': they must travel with every checkpoint
STICKY = {
    'DE':  [{'strategy': 'Rand1Bin', 'CrossProbability': 0.5, 'ScalingFactor': 0.7}, {'strategy': 'Best1Exp'},
            {'strategy': 'RandToBest1Exp', 'ScalingFactor': 0.5}, {'CrossProbability': 0.3}],
    'NM':  [{'adaptive': True, 'radius': 0.2}, {'radius': 0.4}],
    'Powell': [{'xtol': 1e-2, 'imax': 40}, {'direc': [[1.0, 1.0], [0.0, 1.0]], 'xtol': 1e-3}],
}
STICKY['DE2'] = STICKY['DE']
K_TRANSFERS = ['SaveSolver/LoadSolver', 'dill.dumps/dill.loads']
# different by construction between ONE Solve to N and Solve to k + restore + Solve to N: the limit arithmetic the
# harness itself performs on the restored object, and the STOP("...") line of the intermediate stop at k
K_MASK = ('_maxiter', '_maxfun')


def _kw(setting):
    import mystic.strategy as ms
    kw = dict(setting)
    if 'strategy' in kw:
        kw['strategy'] = getattr(ms, kw['strategy'])
    if 'direc' in kw:
        kw['direc'] = np.array(kw['direc'], dtype=float)
    return kw


def _nostop(f):
    """drop STOP("...") info lines from the two step-monitor renderings"""
    f = dict(f)
    def clean(t):
        if isinstance(t, tuple):
            if len(t) == 2 and t[0] == 's' and isinstance(t[1], str) and t[1].startswith('STOP('):
                return None
            out = tuple(c for c in (clean(x) for x in t) if c is not None or False)
            return out
        if isinstance(t, str) and t.startswith('STOP('):
            return None
        return t
    for k in ('_stepmon', '#stepmon'):
        if k in f:
            f[k] = clean(f[k])
    return f


def _kdiff(fa, fb):
    a, b = _nostop(fa), _nostop(fb)
    return [x for x in cn.diff(a, b) if x not in K_MASK], a, b


def run_sticky(cfg, N, setting, T, tmp, only=None):
    """reference = ONE call Solve(**setting) under the generation limit N.  For every k < N:
    (a) Solve(**setting) under limit k, checkpoint, restore, SetEvaluationLimits(N), bare Solve();
    (b) the same continued with bare Step() calls;
    (p) the restart file SetSaveFrequency(1) wrote during generation k of the uninterrupted Solve (captured from the
        callback, i.e. the file a crash at that moment leaves behind), LoadSolver, bare Solve() / Step()s.
    Each must end in the canonical state of the uninterrupted run at N (step-monitor record sequence included)."""
    import dill
    from mystic.solvers import LoadSolver
    b = Bench.__new__(Bench)            # plumbing only (no Step-wise reference trajectory is needed here)
    b.cfg = dict(cfg); b.labcfg = {k: v for k, v in cfg.items() if k not in ('conf', 'midrun')}
    b.midrun = {}; b.n = N; b.tmp = tmp; b.serial = 0; b.cleanup = []
    sink = Sink(T, b)
    kw = _kw(setting)

    def solve_to(limit, freq=None, callback=None, fn=None):
        lab = b.lab()
        s = lab.solver
        s.SetEvaluationLimits(limit, None)
        if freq:
            s.SetSaveFrequency(freq, fn)
        lab.kw = _kw(setting)       # kept: the control below passes the very same objects again
        with lab._env():
            if callback is not None:
                s.Solve(callback=lambda x: callback(lab, s), **lab.kw)
            else:
                s.Solve(**lab.kw)
        return lab, s

    def resume(lab, R, how, st, raise_limit):
        lab.rng.setstate(st)
        with lab._env():
            if raise_limit:
                R.SetEvaluationLimits(N, None)
            if how == 'Solve':
                R.Solve()
            else:
                for i in range(N + 3):
                    if R.Step():
                        break
        return cn.fields(R)

    lab0, s0 = solve_to(N)
    ref = cn.fields(s0)
    T.state(cn.freeze(ref)); T.count('traces'); T.count('transitions', N + 1)
    T.hist('sticky_reference_generations', int(s0.generations))
    if int(s0.generations) != N:
        raise HarnessFault('the uninterrupted Solve(%r) under the generation limit %d stopped at generation %d' % (setting, N, s0.generations))

    def judge(tag, name, case, f, want, control=None):
        d, a, w = _kdiff(f, want)
        T.count('traces')
        if d and control is not None and not _kdiff(f, control)[0]:
            # the un-pickled original, continued with the keywords supplied AGAIN, ends in the very same state: the
            # difference is made by stopping and continuing (Powell's Finalize logs the point before the next
            # extrapolation), not by the checkpoint - outside this property
            T.hist('sticky_difference_not_due_to_checkpoint', '%s: %s' % (b.cfg['solver'], ','.join(d)))
            T.nontriv(('K', sorted(b.cfg.items(), key=str), repr(setting), repr(sorted(case.items()))))
            sink.outcome('sticky', name, [])
            return
        if d:
            sink.emit('sticky', name, 'resumed_Solve_differs_from_uninterrupted_Solve', _what(d),
                      '%s: after resuming, the state at generation limit %d differs from ONE uninterrupted Solve(**%r) in %s: %s'
                      % (tag, N, setting, d, '; '.join(cn.explain(a, w, x, 160) for x in d[:3])), dict(case, setting=setting))
        else:
            T.nontriv(('K', sorted(b.cfg.items(), key=str), repr(setting), repr(sorted(case.items()))))
        sink.outcome('sticky', name, [('differs',)] if d else [])

    # (a), (b): stop at k, checkpoint, restore, continue
    for k in range(N):
        if only is not None and only.get('k') != k:
            continue
        lab, O = solve_to(k)
        T.count('transitions', k + 1)
        st = lab.rng.getstate()
        copies = []
        shared = {}
        for name in K_TRANSFERS:
            for how in ('Solve', 'Steps'):
                try:
                    copies.append((name, how, b.transfer(lab, O, name, shared)))
                except Exception as e:
                    sink.emit('sticky', name, 'transfer_raised', type(e).__name__, 'checkpoint after Solve under limit %d raised %s: %s' % (k, type(e).__name__, e), {'k': k, 'setting': setting})
        # control: the original itself (never pickled), limit raised, continued with the keywords passed again
        control = None
        try:
            lab.rng.setstate(st)
            with lab._env():
                O.SetEvaluationLimits(N, None)
                O.Solve(**lab.kw)
            control = cn.fields(O)
            T.count('transitions', N - k)
        except Exception:
            control = None
        for name, how, R in copies:
            save, restore = SPLIT[name]
            case = {'k': k, 'variant': 'stop_at_k', 'transfer': name, 'continue': how}
            try:
                f = resume(lab, R, how, st, True)
            except Exception as e:
                sink.emit('sticky', (save, restore + '+' + how), 'continue_raised', type(e).__name__,
                          'resuming from generation %d raised %s: %s' % (k, type(e).__name__, e), dict(case, setting=setting))
                continue
            T.count('transitions', N - k)
            judge('Solve(**kw) to %d, %s, SetEvaluationLimits(%d), bare %s' % (k, name, N, how), (save, restore + '+' + how), case, f, ref, control)

    # (p): the restart files one uninterrupted Solve leaves behind, generation by generation
    if only is None or only.get('variant') == 'periodic_file':
        fn = b.path('sticky')
        snaps = []
        def grab(lab, s):
            if os.path.exists(fn):
                with open(fn, 'rb') as fh:
                    snaps.append((int(s.generations), fh.read(), lab.rng.getstate()))
        lab1, s1 = solve_to(N, 1, grab, fn)
        f1 = cn.fields(s1)
        T.count('traces'); T.count('transitions', N + 1)
        d = [x for x in cn.diff(f1, ref) if x != '_saveiter']
        if d:
            sink.emit('sticky', ('periodic', 'original'), 'dumping_perturbs_run', _what(d),
                      'Solve(**%r) with SetSaveFrequency(1) ends differently from the run without, in %s' % (setting, d), {'variant': 'periodic_file', 'setting': setting})
        T.hist('sticky_periodic_files_captured', len(snaps))
        for g, data, st in snaps[:-1]:          # the last file is the finished run
            if only is not None and only.get('k') not in (None, g):
                continue
            for how in ('Solve', 'Steps'):
                case = {'k': g, 'variant': 'periodic_file', 'continue': how}
                q = b.path('stickycrash')
                with open(q, 'wb') as fh:
                    fh.write(data)
                lab2 = b.lab()
                try:
                    with lab2._env():
                        R = LoadSolver(q)
                    f = resume(lab2, R, how, st, False)
                except Exception as e:
                    sink.emit('sticky', ('periodic', 'LoadSolver+' + how), 'continue_raised', type(e).__name__,
                              'resuming from the file of generation %d raised %s: %s' % (g, type(e).__name__, e), dict(case, setting=setting))
                    continue
                T.count('transitions', N - g)
                judge('file written during generation %d of Solve(**kw) with SetSaveFrequency(1), LoadSolver, bare %s' % (g, how),
                      ('periodic', 'LoadSolver+' + how), case, f, f1)


def shard_sticky(item):
    _, cfg, N, settings = item
    T = Tally()
    _trace('start sticky %s' % cfg['solver'])
    tmp = tempfile.mkdtemp(prefix='c06k_')
    try:
        for setting in settings:
            run_sticky(cfg, N, setting, T, tmp)
        T.sample({'cfg': cfg, 'n': N, 'mode': 'sticky', 'setting': settings[0], 'k': N // 2, 'variant': 'stop_at_k'})
    finally:
        shutil.rmtree(tmp, ignore_errors=True)
    _trace('end   sticky %s' % cfg['solver'])
    return T


# ------------------------------------------------------------------ shard / run / replay
def _trace(text):
    path = os.environ.get('C06_TRACE')       # development aid: which shard a worker was in
    if path:
        with open(path, 'a') as fh:
            fh.write('%d %s\n' % (os.getpid(), text))


def shard(item):
    """run one configuration in a forked child, so that an interpreter crash (seen once: a segfault inside libpython
    while thousands of closures were being un/pickled) cannot take a pool worker - and with it the whole run - down;
    a crashed shard is retried once, a second crash is reported as a harness fault"""
    import pickle, signal
    if os.environ.get('C06_INPROC'):
        return _shard(item)
    last = None
    for attempt in (1, 2):
        r, w = os.pipe()
        pid = os.fork()
        if pid == 0:
            code = 0
            try:
                os.close(r)
                signal.alarm(900)        # a shard takes seconds; a hang (runaway library loop) must not hang the run
                try:
                    T = _shard(item)
                except BaseException:
                    T = Tally()
                    T.notes.append('HARNESS-FAULT in shard %r:\n%s' % (repr(item[0])[:300], traceback.format_exc()))
                    T.count('harness_faults')
                with os.fdopen(w, 'wb') as fh:
                    fh.write(pickle.dumps(T, protocol=pickle.HIGHEST_PROTOCOL))
            except BaseException:
                code = 3
            finally:
                os._exit(code)
        os.close(w)
        with os.fdopen(r, 'rb') as fh:
            data = fh.read()
        _, status = os.waitpid(pid, 0)
        if os.WIFEXITED(status) and os.WEXITSTATUS(status) == 0 and data:
            T = pickle.loads(data)
            if attempt == 2:
                T.hist('shards_retried_after_interpreter_crash', last)
            return T
        last = 'signal %d' % os.WTERMSIG(status) if os.WIFSIGNALED(status) else 'exit status %d' % os.WEXITSTATUS(status)
        if os.WIFSIGNALED(status) and os.WTERMSIG(status) == signal.SIGALRM:
            last += ' (no result within 900 s)'
            break
    T = Tally()
    T.notes.append('HARNESS-FAULT: the child process running shard %r died (%s)' % (repr(item[0])[:300], last))
    T.count('harness_faults')
    return T


def _shard(item):
    if item[0] == 'sticky':
        return shard_sticky(item)
    cfg, n, plan = item
    T = Tally()
    _trace('start %s/%s/%s/dim%d/seed%d' % (cfg['solver'], cfg['conf'], cfg['cost'], cfg['dim'], cfg['seed']))
    tmp = tempfile.mkdtemp(prefix='c06_')
    b = None
    try:
        b = Bench(cfg, n, tmp)
        for f in b.ref:
            T.state(cn.freeze(f))
        T.count('traces'); T.count('transitions', n)
        T.hist('distinct_boundary_states_of_reference_run', b.distinct_boundaries)
        T.hist('reference_run_stops_at_step', next((i for i, m in enumerate(b.msgs) if m), 'never'))
        for k in range(n):
            run_single(b, k, plan['single'], T)
            if cfg.get('limits') is not None:
                run_solve(b, k, ['SaveSolver/LoadSolver', 'dill.dumps/dill.loads', 'dill.copy'], T)
            if any(str(cfg.get(m) or '').startswith('Logging') for m in ('stepmon', 'evalmon')) and k > 0:
                run_logfile(b, k, ['SaveSolver/LoadSolver', 'dill.dumps/dill.loads'], T)
        for f in (sorted(plan['periodic']) if not b.midrun else ()):      # (periodic dumps are exercised on unreconfigured runs)
            run_periodic(b, f, plan['periodic'][f], T)
        for k1 in range(n - 1):
            for first in sorted(plan['double']):
                run_double(b, k1, first, plan['double'][first], T)
        T.sample({'cfg': cfg, 'n': n, 'mode': 'single', 'k': n // 2, 'transfer': 'SaveSolver/LoadSolver'})
    finally:
        _cleanup(tmp, b)
    _trace('end   %s/%s/%s/dim%d/seed%d' % (cfg['solver'], cfg['conf'], cfg['cost'], cfg['dim'], cfg['seed']))
    return T


def _cleanup(tmp, b):
    shutil.rmtree(tmp, ignore_errors=True)
    for f in (b.cleanup if b is not None else ()):
        try:
            os.remove(f)
        except OSError:
            pass


def plan_of(ctx):
    n = 12 if ctx.thorough else 8
    plan = {'periodic': PERIODIC_FULL if ctx.thorough else PERIODIC_QUICK, 'double': DOUBLE if ctx.thorough else DOUBLE_QUICK,
            'single': SINGLE_THOROUGH if ctx.thorough else SINGLE}
    items = []
    if not ctx.thorough:
        for solver in solverlab.SOLVERS:
            for conf, cost in QUICK_PLAN:
                items.append((make_cfg(solver, conf, cost, 2, ctx.seed), n, plan))
        nodouble = dict(plan, double={})         # (a copying map makes every Step ~10 ms dearer)
        for conf in ('map', 'map_limit_eval'):
            items.append((make_cfg('DE2', conf, 'sphere', 2, ctx.seed), n, nodouble))
    else:
        lean = dict(plan, double=DOUBLE_QUICK)
        for solver in solverlab.SOLVERS:
            for conf in CONFIGS:
                if conf in MAP_CONFIGS and solver != 'DE2':
                    continue
                core = conf in THOROUGH_CORE
                costs = ['vec'] if conf == 'reducer' else (THOROUGH_COSTS if conf in ('plain', 'box_con_pen') else
                                                         (THOROUGH_COSTS[:3] if core else (['sphere', 'rosen'] if conf in THOROUGH_TWO_COSTS else ['sphere'])))
                for cost in costs:
                    dims = (2, 3) if conf in ('plain', 'box_con_pen') and cost in ('sphere', 'rosen') else (2,)
                    for dim in dims:
                        draws = solver.startswith('DE') or conf == 'clip_random'      # NM / Powell draw nothing otherwise
                        seeds = (ctx.seed, ctx.seed + 1) if draws and conf in ('plain', 'box_con_pen', 'clip_random') and cost == 'sphere' and dim == 2 else (ctx.seed,)
                        for seed in seeds:
                            items.append((make_cfg(solver, conf, cost, dim, seed), n, plan if core else lean))
    heavy = {'Powell': 0, 'DE2': 1, 'DE': 2, 'NM': 3}
    items.sort(key=lambda it: heavy[it[0]['solver']])      # longest shards first (stable within a solver)
    # (K) sticky Solve keywords: one shard per (solver, configuration)
    for solver in solverlab.SOLVERS:
        sets = STICKY[solver] if ctx.thorough else STICKY[solver][:2]
        for conf, cost in ([('plain', 'rosen'), ('box_con_pen', 'sphere'), ('monitors', 'sphere')] if ctx.thorough else [('plain', 'rosen')]):
            dim = 3 if solver == 'NM' else 2      # NM's adaptive coefficients coincide with the standard ones for dim 2
            items.append(('sticky', make_cfg(solver, conf, cost, dim, ctx.seed), n, sets))
    return n, items


def run(ctx):
    n, items = plan_of(ctx)
    only = os.environ.get('C06_ONLY')      # development aid: 'Powell' or 'NM:plain'
    if only:
        def keep(it):
            cfg = it[1] if it[0] == 'sticky' else it[0]
            return all(p in (cfg['solver'], cfg['conf'], cfg['cost'], 'sticky' if it[0] == 'sticky' else 'main') for p in only.split(':'))
        items = [it for it in items if keep(it)]
    main = [it for it in items if it[0] != 'sticky']
    sticky = [it for it in items if it[0] == 'sticky']
    ctx.bounds = {'run_length_n': n, 'crash_points': 'every boundary k in 0..n-1 (single), every pair k1<k2<n (double), every k in 1..n-1 (periodic file)',
                  'solvers': list(solverlab.SOLVERS), 'configurations': sorted(set(it[0]['conf'] for it in main)),
                  'costs': sorted(set(it[0]['cost'] for it in main)), 'dims': sorted(set(it[0]['dim'] for it in main)),
                  'seeds': sorted(set(it[0]['seed'] for it in main)), 'configuration_shards': len(main),
                  'single_transfers': (SINGLE_THOROUGH if ctx.thorough else SINGLE) + ['copy.copy'], 'periodic(frequency -> restore paths)': PERIODIC_FULL if ctx.thorough else PERIODIC_QUICK,
                  'double_chains(first -> seconds)': DOUBLE_QUICK if not ctx.thorough else {'core configurations %s' % (THOROUGH_CORE,): DOUBLE, 'other configurations': DOUBLE_QUICK},
                  'sticky_Solve_keywords(K)': {'generation_limit_N': n, 'crash_points': 'every k < N (stop at k) and every generation file of the uninterrupted run', 'transfers': K_TRANSFERS + ['periodic f=1 / LoadSolver'], 'continue_with': ['bare Solve()', 'bare Step()s'],
                                               'settings': {sv: [it[3] for it in sticky if it[1]['solver'] == sv][:1] for sv in solverlab.SOLVERS}, 'configurations': sorted(set((it[1]['conf'], it[1]['cost']) for it in sticky))},
                  'solve_continuation': 'configurations with limits: Solve() on original and restored from every k'}
    ctx.rule = ("a case = one (configuration, crash point(s), save path, restore path) resumed run; `states` = distinct canonical forms of "
                "reference boundaries and restored objects; a case is non-trivial when the restored object executed at least one real "
                "iteration (its own recorder saw calls / its counter moved) after the restore; cases restored from an already stopped "
                "solver are enumerated too but only count as trivial")
    ctx.assumptions = ['the harness owns randomness (env.SeededRandom); its state at the crash point is reinstated before the restored object continues',
                       'masked as different by construction: the restart-file name `_state`, DUMPED()/LOADED() info lines, a LoggingMonitor file handle',
                       'a periodic dump may be taken inside an iteration: its state at restore is classified, the continuation is judged after alignment by generation count',
                       'copy.copy shares state with its original by construction: judged for confluence only',
                       'restart files are whole (not torn): the property does not speak of partial files']
    ctx.explanation = ('violations carry sig = {solver, save, restore, clause, what}; clause in restored_state_differs / continuation_diverges / '
                       'evaluations_not_own_calls / original_changed_by_copy / copy_changed_by_original / original_changed_by_transfer / '
                       'continue_raised / transfer_raised / dumping_perturbs_run / logfile_differs; what = observable (a field the statement names) or internal')
    ctx.pmap(shard, items)


def replay(case):
    T = Tally()
    tmp = tempfile.mkdtemp(prefix='c06r_')
    b = None
    try:
        if case['mode'] == 'sticky':
            run_sticky(case['cfg'], case['n'], case['setting'], T, tmp, only={'k': case.get('k'), 'variant': case.get('variant')})
            return [v['detail'] for v in T.violations.values()]
        b = Bench(case['cfg'], case['n'], tmp)
        mode = case['mode']
        if mode == 'single':
            if case['transfer'] in ('copy.copy',):
                run_single(b, case['k'], [], T, shallow=True)
            else:
                kinds = [case['transfer']] if case['transfer'] in SPLIT else SINGLE
                run_single(b, case['k'], kinds, T, shallow=False)
        elif mode == 'solve':
            run_solve(b, case['k'], [case['transfer']], T)
        elif mode == 'logfile':
            run_logfile(b, case['k'], [case['transfer']], T)
        elif mode == 'periodic':
            run_periodic(b, case['f'], [case['restore']] if 'restore' in case else PERIODIC_FULL[case['f']], T, only_j=case.get('dump_step'))
        elif mode == 'double':
            run_double(b, case['k1'], case['first'], [case['second']], T, only_k2=case['k2'])
    finally:
        _cleanup(tmp, b)
    return [v['detail'] for v in T.violations.values()]
