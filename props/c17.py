"""C17 - combinators claim success only at a fixed point; couplers compose as documented.

Engine E2: every (member tuple, input, maxiter) configuration is run under a
ScriptedRandom; every answer of the cycle-breaking draws is a choice point.

Parts: (1) constraints.and_/or_/not_ over ordinary members (pure, in-place, one object applied twice);
(2) the same with members that RAISE a handled error at some vectors (kind 'err': ZeroDivisionError, the complex
TypeError / ValueError): a member has no image there, so a success can neither count it as "left unchanged" (and_/or_)
nor as "changed" (not_), and the error must not escape (exactly one of onexit/onfail fires);
(3) function couplers and their histories; (4) penalty combinators, plain and (shards 'pk') with every `ptype` keyword x
`k` keyword x {raw condition, penalty member of each type, nested combinator} members.
"""
import itertools
from mc import tree, env
from mc.runner import Tally

# ------------------------------------------------------------------ members
def _mk(fn, name, idem):
    fn.__name__ = name
    fn.idem = idem
    return fn

def identity(x): return list(x)
def pin1(x): x = list(x); x[0] = 1.0; return x
def pin2(x): x = list(x); x[0] = 2.0; return x
def le2(x): x = list(x); x[0] = min(x[0], 2.0); return x
def ge3(x): x = list(x); x[0] = max(x[0], 3.0); return x
def rnd0(x): x = list(x); x[0] = float(round(x[0])); return x
def box(x): return [min(max(v, 0.0), 2.0) for v in x]
def swap(x): x = list(x); x[0], x[1] = x[1], x[0]; return x
def shift(x): x = list(x); x[0] = x[0] + 1.0; return x
def tie(x): x = list(x); x[1] = x[0]; return x

def step(x): x = list(x); x[0] = x[0] - min(1.0, x[0] - 2.0) if x[0] > 2.0 else x[0]; return x   # toward x0 <= 2 by at most 1

MEMBERS = [_mk(identity, 'identity', True), _mk(pin1, 'pin1', True), _mk(pin2, 'pin2', True),
           _mk(le2, 'le2', True), _mk(ge3, 'ge3', True), _mk(rnd0, 'round0', True),
           _mk(box, 'box', True), _mk(swap, 'swap', False), _mk(shift, 'shift', False),
           _mk(tie, 'tie', True)]
EXTRA = [_mk(step, 'step', False)]


def _inplace(pure, name):
    """the same map written the way generated solvers are: it edits its argument and returns it"""
    def f(x):
        y = pure(list(x))
        for i, v in enumerate(y):
            x[i] = v
        return x
    return _mk(f, name, pure.idem)


def _chase(x):       # x0 = x1 + 1 ; x1 = x0 + 1, in place: never at rest
    x[0] = x[1] + 1.0
    x[1] = x[0] + 1.0
    return x


INPLACE = [_inplace(BYNAME_, n + '!') for BYNAME_, n in ((pin1, 'pin1'), (le2, 'le2'), (ge3, 'ge3'), (swap, 'swap'),
                                                         (shift, 'shift'), (tie, 'tie'), (step, 'step'))] + [_mk(_chase, 'chase!', False)]


# members that have NO image at some vectors: there they raise one of the errors the combinators document and handle
# (ZeroDivisionError; the "... not supported ... 'complex'" TypeError / ValueError).  Everywhere else they are ordinary maps.
def unit_sum(x): s = sum(x); return [i / s for i in x]                         # undefined where sum(x) == 0
def scale_first(x): return [2 * i / x[0] for i in x]                            # rescale to x0 == 2; undefined where x0 == 0
def recip(x): x = list(x); x[0] = 1.0 / x[0]; return x                          # period 2; undefined where x0 == 0
def sqrt_floor(x): x = list(x); x[0] = max(x[0] ** 0.5, 1.0); return x          # x0 < 0: complex ** result, '>' raises TypeError
def vcomplex(x):                                                                # x0 < 0: the ValueError flavour of the same
    x = list(x)
    if x[0] < 0:
        raise ValueError("operation not supported for 'complex' argument")
    x[0] = min(x[0], 1.0)
    return x


ERRMEMBERS = [_mk(unit_sum, 'unit_sum', True), _mk(scale_first, 'scale_first', True), _mk(recip, 'recip', False),
              _mk(sqrt_floor, 'sqrt_floor', False), _mk(vcomplex, 'vcomplex', True)]
ERRNAMES = frozenset(m.__name__ for m in ERRMEMBERS)
ERRKIND = {'unit_sum': 'ZeroDivisionError', 'scale_first': 'ZeroDivisionError', 'recip': 'ZeroDivisionError',
           'sqrt_floor': 'complex_TypeError', 'vcomplex': 'complex_ValueError'}
HANDLED = (ZeroDivisionError, TypeError, ValueError)       # what the members above raise, nothing else
ERR_GRID = [-1.0, 0.0, 1.0, 2.0]
ERR_INPUTS = [[a, b] for a in ERR_GRID for b in ERR_GRID]
BYNAME = {m.__name__: m for m in MEMBERS + EXTRA + INPLACE + ERRMEMBERS}


def _image(m, y):
    """m(y) as a list, or None where m has no image (raises a handled error)"""
    try:
        r = m(list(y))
    except HANDLED:
        return None
    return r.tolist() if hasattr(r, 'tolist') else list(r)
GRID = [0.0, 1.0, 2.5, 3.0]
INPUTS = [[a, b] for a in GRID for b in GRID]
UNIT = (0.0, 0.25, 0.5, 0.75, env.ONE_MINUS)


def _one(kind, names, x0, maxiter, chooser, as_array=False, calls=None):
    """run one execution; return (path, y, nrandom).  With a member of ERRNAMES in the tuple a handled error that
    escapes the combinator is an outcome (path 'raised:<type>', neither onexit nor onfail fired), not a harness fault;
    `calls` (a list) receives 'D'/'U' per member call: the member was defined / raised at the vector it was given."""
    import mystic.constraints as mc
    members = [BYNAME[n] for n in names]
    witherr = any(n in ERRNAMES for n in names)
    if calls is not None:
        def _spy(m):
            def w(x):
                try:
                    r = m(x)
                except HANDLED:
                    calls.append('U'); raise
                calls.append('D')
                return r
            return w
        members = [_spy(m) for m in members]
    fired = []
    def onexit(x):
        fired.append('exit'); return x
    def onfail(x):
        fired.append('fail'); return x
    rng = env.ScriptedRandom(chooser, unit=UNIT)
    with env.owned_random(rng):
        if kind == 'and':
            c = mc.and_(*members, maxiter=maxiter, onexit=onexit, onfail=onfail)
        elif kind == 'or':
            c = mc.or_(*members, maxiter=maxiter, onexit=onexit, onfail=onfail)
        else:
            c = mc.not_(members[0], maxiter=maxiter, onexit=onexit, onfail=onfail)
        if isinstance(x0, dict):          # reuse: the same combinator object is first applied to another input
            first = list(x0['first'])
            if as_array:
                import numpy
                first = numpy.array(first)
            rng.ch = tree.Chooser()       # the first application takes the default answers (not choice points)
            try:
                c(first)
            finally:
                rng.ch = chooser
            del fired[:]
            x0 = x0['then']
        xin = list(x0)
        if as_array:
            import numpy
            xin = numpy.array(xin)
        if calls is not None:
            del calls[:]
        if witherr:
            try:
                y = c(xin)
            except HANDLED as exc:
                fired.append('raised:' + type(exc).__name__)
                y = []
        else:
            y = c(xin)
    y = y.tolist() if hasattr(y, 'tolist') else list(y)
    return fired, y, len(rng.log)


def _judge(kind, names, y, fired):
    """None if fine, else text"""
    members = [BYNAME[n] for n in names]
    if len(fired) != 1 or fired[0] not in ('exit', 'fail'):
        return 'onexit/onfail fired %r (exactly one of them must fire exactly once)' % (fired,)
    if fired[0] == 'fail':
        return None
    images = [_image(m, y) for m in members]           # None: the member raises a handled error at y (no image)
    unchanged = [im is not None and im == y for im in images]
    changed = [im is not None and im != y for im in images]
    undefined = [n for n, im in zip(names, images) if im is None]
    if kind == 'and' and any(changed):
        bad = [n for n, u in zip(names, changed) if u]
        return 'and_ reported success at %r but member(s) %s change it' % (y, bad)
    if kind == 'and' and undefined:
        return 'and_ reported success at %r where member(s) %s raise (no image: not "left unchanged")' % (y, undefined)
    if kind == 'or' and not any(unchanged):
        return 'or_ reported success at %r but no member leaves it unchanged (members that raise there: %s)' % (y, undefined)
    if kind == 'not' and unchanged[0]:
        return 'not_ reported success at %r but the member leaves it unchanged' % (y,)
    if kind == 'not' and undefined:
        return 'not_ reported success at %r where the member raises (no image: the vector is not "changed by c")' % (y,)
    return None


def _sigextra(names, y, fired):
    """categorical: does some member raise at the returned vector / did a member's error escape"""
    if fired and fired[0].startswith('raised'):
        return 'error_escaped'
    if fired == ['exit'] and any(_image(BYNAME[n], y) is None for n in names):
        return 'member_undefined_at_result'
    return 'none'


REUSE_INPUTS = [[a, b] for a in (0.0, 2.5, 4.5) for b in (0.0, 1.0)]


def shard(item):
    kind, tuples, maxiters, bound, free = item[:5]
    inputs = INPUTS
    if len(item) > 5 and item[5] == 'reuse':
        inputs = [{'first': a, 'then': b} for a in REUSE_INPUTS for b in REUSE_INPUTS]
    err = len(item) > 5 and item[5] == 'err'
    if err:
        inputs = ERR_INPUTS
    T = Tally()
    for names in tuples:
        for x0 in inputs:
            for maxiter in maxiters:
                for arr in ((False, True) if kind != 'not' and not err else (False,)):
                    outcomes = set()
                    calls = [] if err else None
                    def run(ch, names=names, x0=x0, maxiter=maxiter, arr=arr, calls=calls):
                        return _one(kind, names, x0, maxiter, ch, arr, calls)
                    for ch, (fired, y, ndraw) in tree.explore(run, bound=bound, free=free):
                        T.count('traces')
                        T.count('transitions', len(ch.trace) + 1)
                        outcomes.add((tuple(fired), tuple(y)))
                        T.hist('path_%s' % kind, ','.join(fired))
                        if ndraw:
                            T.count('executions_with_randomisation')
                        if err:
                            # non-vacuity of the raising-member space: where in the run did a member raise
                            seq = ''.join(calls)
                            nU = seq.count('U')
                            T.hist('err_%s_path_x_member_raised' % kind,
                                   '%s|%s' % (','.join(fired), 'never' if not nU else
                                              ('only_at_input' if seq.startswith('U') and nU == 1 else
                                               ('input_and_later' if seq.startswith('U') else 'only_after_input'))))
                            if kind == 'not':
                                T.hist('err_not_member_calls(D=defined,U=raised)', seq)
                                if nU and ndraw and 'U' in seq[1:]:
                                    T.count('not_retry_landed_on_undefined_vector')
                            if fired == ['exit']:
                                und = [n for n in names if _image(BYNAME[n], y) is None]
                                T.hist('err_%s_success_members_undefined_at_result' % kind, len(und))
                        msg = _judge(kind, names, y, fired)
                        if msg:
                            nonidem = [n for n in names if not BYNAME[n].idem]
                            T.violate({'clause': kind + '_success', 'members': list(names),
                                       'randomised': bool(ndraw), 'reused_object': isinstance(x0, dict),
                                       'nonidempotent_member': bool(nonidem)} if not err else
                                      {'clause': kind + '_success', 'raising_member': True, 'what': _sigextra(names, y, fired),
                                       'member_errors': sorted(set(ERRKIND[n] for n in names if n in ERRNAMES)), 'tuple_size': len(names),
                                       'randomised': bool(ndraw), 'cap': 'maxiter=1' if maxiter == 1 else 'maxiter>1'},
                                      {'kind': kind, 'names': list(names), 'x0': x0,
                                       'maxiter': maxiter, 'array': arr, 'choices': ch.choices},
                                      msg + ' [members=%s x0=%r maxiter=%d choices=%r]'
                                      % (names, x0, maxiter, ch.choices))
                    T.count('states', len(outcomes))
                    if len(outcomes) > 1:
                        T.nontriv((kind, names, x0, maxiter, arr))
                    T.hist('distinct_outcomes_per_config', min(len(outcomes), 9))
    T.sample({'kind': kind, 'members': tuples[0], 'x0': inputs[5], 'maxiter': maxiters[-1]})
    return T


# ------------------------------------------------------------------ couplers
def couplers(T):
    import numpy as np
    import mystic.coupler as cp
    fs = [lambda x: x + 1, lambda x: x * x, lambda x: 3 - 2 * x]
    cs = [lambda x: x * x, lambda x: abs(x) + 0.5, lambda x: -x]
    grid = [np.array(v) for v in itertools.product([-2.0, 0.0, 0.5, 3.0], repeat=2)]
    for (fi, f), (ci, c) in itertools.product(enumerate(fs), enumerate(cs)):
        for x in grid:
            T.count('traces'); T.count('transitions', 3); T.nontriv(('cp', fi, ci, tuple(x)))
            checks = [
                ('inner', cp.inner(c)(f)(x), f(c(x))),
                ('outer', cp.outer(c)(f)(x), c(f(x))),
                ('additive', cp.additive(c)(f)(x), f(x) + c(x)),
            ]
            for name, got, want in checks:
                if not np.array_equal(np.asarray(got), np.asarray(want)):
                    T.violate({'clause': 'coupler', 'coupler': name}, {'coupler': name, 'f': fi, 'c': ci, 'x': x},
                              '%s(c%d)(f%d)(%r) = %r, documented value %r' % (name, ci, fi, x.tolist(), got, want))
    # histories: a coupled function is a value.  (i) called twice it answers twice the same, with an f that returns a
    # stored array or its own input (a mutable result that outlives the call), and leaves its argument alone;
    # (ii) one coupler object used to decorate two functions keeps them apart, whichever is called first
    stored = np.array([1.0, -2.0])
    def f_stored(x): return stored                 # the same array object on every call
    def f_input(x): return x                       # hands its input back
    def f_fresh(x): return x * 2.0
    def p_vec(x): return np.abs(x) + 0.5
    def p_sc(x): return float(np.sum(np.abs(x))) + 0.25
    for fname, f in (('stored', f_stored), ('input', f_input), ('fresh', f_fresh)):
        for pname, pen in (('vector', p_vec), ('scalar', p_sc)):
            for cname, build, expect in (('additive', cp.additive, lambda x: f(x) + pen(x)),
                                         ('inner', cp.inner, lambda x: f(pen(x)) if pname == 'vector' else None),
                                         ('outer', cp.outer, lambda x: pen(f(x)))):
                for x0 in grid[:6]:
                    if cname == 'inner' and pname == 'scalar':
                        continue
                    stored[:] = [1.0, -2.0]
                    x = np.array(x0, dtype=float)
                    want = np.array(expect(np.array(x0, dtype=float)), dtype=float, copy=True)
                    stored[:] = [1.0, -2.0]
                    g = build(pen)(f)
                    T.count('traces'); T.count('transitions', 3); T.nontriv(('cph', fname, pname, cname, tuple(x0)))
                    got1 = np.array(g(x), dtype=float, copy=True)
                    x_after = x.copy()
                    got2 = np.array(g(np.array(x0, dtype=float)), dtype=float, copy=True)
                    sig = {'clause': 'coupler_history', 'coupler': cname, 'f_returns': fname, 'penalty': pname}
                    case = {'coupler': cname, 'history': True, 'f': fname, 'p': pname, 'x': list(x0)}
                    if not np.array_equal(got1, want):
                        T.violate(dict(sig, what='first_call'), case, '%s(p_%s)(f_%s)(%r) = %r, documented value %r' % (cname, pname, fname, list(x0), got1.tolist(), want.tolist()))
                    elif not np.array_equal(got2, want):
                        T.violate(dict(sig, what='second_call'), case, '%s(p_%s)(f_%s)(%r): first call %r, the same call again %r'
                                  % (cname, pname, fname, list(x0), got1.tolist(), got2.tolist()))
                    if fname != 'input' and not np.array_equal(x_after, np.array(x0, dtype=float)):
                        T.violate(dict(sig, what='argument_changed'), case, '%s(p_%s)(f_%s) changed its argument %r to %r'
                                  % (cname, pname, fname, list(x0), x_after.tolist()))
    for cname, build in (('inner', cp.inner), ('outer', cp.outer), ('additive', cp.additive)):
        for ci, c in enumerate(cs):
            for order in ('first_then_second', 'second_then_first'):
                d = build(c)
                g1, g2 = d(fs[0]), d(fs[1])
                for x in grid[:6]:
                    T.count('traces'); T.count('transitions', 2); T.nontriv(('cpd', cname, ci, order, tuple(x)))
                    want1 = {'inner': fs[0](c(x)), 'outer': c(fs[0](x)), 'additive': fs[0](x) + c(x)}[cname]
                    want2 = {'inner': fs[1](c(x)), 'outer': c(fs[1](x)), 'additive': fs[1](x) + c(x)}[cname]
                    r = [g1(x), g2(x)] if order == 'first_then_second' else [g2(x), g1(x)][::-1]
                    if not (np.array_equal(np.asarray(r[0]), np.asarray(want1)) and np.array_equal(np.asarray(r[1]), np.asarray(want2))):
                        T.violate({'clause': 'coupler_history', 'coupler': cname, 'what': 'one_coupler_object_two_functions'},
                                  {'coupler': cname, 'history': True, 'c': ci, 'x': x},
                                  'd = %s(c%d); g1 = d(f0); g2 = d(f1): g1(%r) = %r (documented %r), g2 = %r (documented %r)'
                                  % (cname, ci, x.tolist(), r[0], want1, r[1], want2))
    # args / kwds routing
    def c2(x, a, b=0): return x * a + b
    def f2(x, p, q=0): return x - p + 10 * q
    for x in grid:
        T.count('traces'); T.count('transitions', 6); T.nontriv(('cpa', tuple(x)))
        checks = [
            ('inner+args', cp.inner(c2, args=(2,), kwds={'b': 1})(f2)(x, 3, q=1), f2(c2(x, 2, b=1), 3, q=1)),
            ('outer+args', cp.outer(c2, args=(2,), kwds={'b': 1})(f2)(x, 3, q=1), c2(f2(x, 3, q=1), 2, b=1)),
            ('additive+args', cp.additive(c2, args=(2,), kwds={'b': 1})(f2)(x, 3, q=1), f2(x, 3, q=1) + c2(x, 2, b=1)),
            ('inner_proxy', cp.inner_proxy(c2, args=(3,), kwds={'q': 1})(f2)(x, 2, b=1), f2(c2(x, 2, b=1), 3, q=1)),
            ('outer_proxy', cp.outer_proxy(c2, args=(3,), kwds={'q': 1})(f2)(x, 2, b=1), c2(f2(x, 3, q=1), 2, b=1)),
            ('additive_proxy', cp.additive_proxy(c2, args=(3,), kwds={'q': 1})(f2)(x, 2, b=1), f2(x, 3, q=1) + c2(x, 2, b=1)),
        ]
        for name, got, want in checks:
            if not np.array_equal(np.asarray(got), np.asarray(want)):
                T.violate({'clause': 'coupler', 'coupler': name}, {'coupler': name, 'x': x},
                          '%s at %r = %r, documented value %r' % (name, x.tolist(), got, want))


def penalty_combinators(T):
    import mystic.penalty as mp
    import mystic.coupler as cp
    conds = {'x0-1': lambda x: x[0] - 1.0, 'x1': lambda x: x[1], 'x0+x1-2': lambda x: x[0] + x[1] - 2.0}
    grid = [list(v) for v in itertools.product([-1.0, 0.0, 1.0, 2.0, 3.0], repeat=2)]
    zero = lambda x: 0.0
    for ptype in ('quadratic_inequality', 'linear_inequality', 'quadratic_equality', 'linear_equality'):
        P = getattr(mp, ptype)
        pens = {n: P(c)(zero) for n, c in conds.items()}
        ineq = ptype.endswith('inequality')
        for r in (1, 2, 3):
            for combo in itertools.combinations(sorted(pens), r):
                ps = [pens[n] for n in combo]
                pa, po = cp.and_(*ps), cp.or_(*ps)
                for x in grid:
                    T.count('traces'); T.count('transitions', 2)
                    T.nontriv(('pc', ptype, combo, tuple(x)))
                    vals = [p(x) for p in ps]
                    if (pa(x) == 0) != all(v == 0 for v in vals) or pa(x) < 0:
                        T.violate({'clause': 'penalty_and', 'ptype': ptype}, {'ptype': ptype, 'combo': combo, 'x': x},
                                  'coupler.and_ of %s at %r = %r, members %r' % (combo, x, pa(x), vals))
                    if (po(x) == 0) != any(v == 0 for v in vals) or po(x) < 0:
                        T.violate({'clause': 'penalty_or', 'ptype': ptype}, {'ptype': ptype, 'combo': combo, 'x': x},
                                  'coupler.or_ of %s at %r = %r, members %r' % (combo, x, po(x), vals))
        for n, c in conds.items():
            pn = cp.not_(pens[n])
            for x in grid:
                T.count('traces'); T.count('transitions', 1)
                v = c(x)
                want_pos = (v < 0) if ineq else (v == 0)
                got = pn(x)
                if (got > 0) != want_pos or got < 0:
                    T.violate({'clause': 'penalty_not', 'ptype': ptype}, {'ptype': ptype, 'cond': n, 'x': x},
                              'coupler.not_(%s %s) at %r = %r with condition value %r' % (ptype, n, x, got, v))


# ------------------------------------------------------------------ penalty combinators x the `ptype` keyword
# Reading of the statement used here (mystic.penalty: a condition f is satisfied where f(x) == 0 for the equality types and
# where f(x) <= 0 for the inequality types).  The region a member accepts:
#   * a penalty member built with <type>(g): {g == 0} / {g <= 0} by its OWN type;
#   * a raw condition g (the branch "is a raw condition" of coupler.not_): g is read by the penalty type in use - the `ptype`
#     keyword, default linear_equality as documented - so {g == 0} or {g <= 0}.
# "penalises exactly the interior": positive on {g < 0} and zero on {g == 0} and {g > 0} for an inequality region; an equality
# region {g == 0} is penalised as a whole (the reading the earlier part of this check already uses).
# NOT judged (histogram only): `ptype` keyword of the other family than a penalty member's own type (the documentation does not
# say which of the two defines the region), ptype=barrier_inequality (non-zero inside by design), points on the rim of a nested
# member (and_/or_ of inequality penalties is an equality-typed penalty whose closed region is penalised, rim included) and
# points where the condition itself raises.
PT_EQ = ('linear_equality', 'quadratic_equality', 'uniform_equality', 'lagrange_equality')
PT_IN = ('linear_inequality', 'quadratic_inequality', 'uniform_inequality', 'lagrange_inequality')
PT_SILENT = ('barrier_inequality',)
PKEYWORDS = (None,) + PT_EQ + PT_IN + PT_SILENT
PK = ('unset', None, 0.5)                    # the k keyword: not given (combinators default it to 1), None (= the type's own default), 0.5
PCONDS = {'x0-1': lambda x: x[0] - 1.0, 'x1': lambda x: x[1], 'x0+x1-2': lambda x: x[0] + x[1] - 2.0,
          'disc2': lambda x: x[0] ** 2 + x[1] ** 2 - 4.0, 'x0*x1': lambda x: x[0] * x[1],
          'x1/x0': lambda x: x[1] / x[0]}    # the last one raises ZeroDivisionError on x0 == 0 (and_/or_ members only)
PGRID = [list(v) for v in itertools.product([-1.0, 0.0, 1.0, 2.0, 3.0], repeat=2)]
NOT_CONDS = ('x0-1', 'x1', 'x0+x1-2', 'disc2', 'x0*x1')


def _fam(ptname):
    return 'ineq' if ptname.endswith('_inequality') else 'eq'


def _pen(ptname, cname):
    import mystic.penalty as mp
    kw = {'k': 3} if ptname.startswith('uniform') else {}      # uniform_* default to k=inf; keep the values finite
    return getattr(mp, ptname)(PCONDS[cname], **kw)(lambda x: 0.0)


def _where(fam, v):
    if fam == 'ineq':
        return 'interior' if v < 0 else ('boundary' if v == 0 else 'outside')
    return 'on' if v == 0 else 'outside'


def _not_member(desc):
    """desc -> (member object, own family or None for a raw condition, where(x, family_in_use))"""
    import mystic.coupler as cp
    kind = desc[0]
    if kind == 'raw':
        g = PCONDS[desc[1]]
        return g, None, (lambda x, fam: _where(fam, g(x)))
    if kind == 'pen':
        g = PCONDS[desc[2]]; fam = _fam(desc[1])
        return _pen(desc[1], desc[2]), fam, (lambda x, _f: _where(fam, g(x)))
    if kind == 'not':                       # not_(<type>(g)): accepts {g >= 0} (inequality) / {g != 0} (equality); same family
        g = PCONDS[desc[2]]; fam = _fam(desc[1])
        def where(x, _f):
            v = g(x)
            if fam == 'ineq':
                return 'interior' if v > 0 else ('boundary' if v == 0 else 'outside')
            return 'on' if v != 0 else 'outside'
        return cp.not_(_pen(desc[1], desc[2])), fam, where
    parts = [(_fam(pt), PCONDS[c]) for pt, c in desc[1]]
    pens = [_pen(pt, c) for pt, c in desc[1]]
    def where(x, _f):
        w = [_where(f, g(x)) for f, g in parts]
        if kind == 'and':
            if 'outside' in w: return 'outside'
            if all(v == 'interior' for v in w): return 'interior'
            if all(v == 'on' for v in w): return 'on'
            return 'rim'
        if all(v == 'outside' for v in w): return 'outside'
        if 'interior' in w: return 'interior'
        if all(f == 'eq' for f, _ in parts): return 'on'
        return 'rim'
    return (cp.and_ if kind == 'and' else cp.or_)(*pens), 'eq', where       # and_/or_ build a linear_equality penalty


def _not_members():
    out = [('raw', c) for c in NOT_CONDS]
    out += [('pen', pt, c) for pt in PT_EQ + PT_IN for c in NOT_CONDS]
    out += [('not', pt, c) for pt in ('linear_inequality', 'quadratic_equality', 'uniform_inequality') for c in ('x0-1', 'disc2')]
    base = [('linear_inequality', 'x0-1'), ('quadratic_inequality', 'disc2'), ('quadratic_equality', 'x1'), ('linear_equality', 'x0+x1-2')]
    out += [(op, [a, b]) for op in ('and', 'or') for a, b in itertools.combinations(base, 2)]
    return out


def _kw(ptname, k):
    import mystic.penalty as mp
    kw = {}
    if ptname is not None:
        kw['ptype'] = getattr(mp, ptname)
    if k != 'unset':
        kw['k'] = k
    return kw


def _num(v):
    return 'nan' if v != v else ('neg' if v < 0 else ('zero' if v == 0 else 'pos'))


def penalty_not_keyword(T, ptname, only=None):
    """coupler.not_(member, ptype=ptname, k=...) on every member x grid point"""
    import mystic.coupler as cp
    for desc in _not_members():
        if only is not None and only['member'] != jsonable_desc(desc):
            continue
        member, ownfam, where = _not_member(desc)
        mkind = desc[0] if desc[0] in ('raw', 'pen') else 'nested_' + desc[0]
        usefam = _fam(ptname) if ptname is not None else (ownfam or 'eq')
        if ptname in PT_SILENT:
            judged, why = False, 'barrier_keyword'
        elif ownfam is not None and ptname is not None and _fam(ptname) != ownfam:
            judged, why = False, 'keyword_of_other_family_than_member'
        else:
            judged, why = True, None
        for k in PK:
            if only is not None and only['k'] != k:
                continue
            try:
                pn = cp.not_(member, **_kw(ptname, k))
            except Exception as exc:                            # building the combinator is not supposed to fail
                T.violate({'clause': 'penalty_not', 'member': mkind, 'what': 'construction_raised'},
                          {'pk': 'not', 'ptype': ptname, 'member': desc, 'k': k}, 'coupler.not_(%r, ptype=%s, k=%r) raised %r' % (desc, ptname, k, exc))
                continue
            for x in PGRID:
                if only is not None and only.get('x', x) != x:
                    continue
                T.count('traces'); T.count('transitions', 1)
                w = where(x, usefam)
                try:
                    got = pn(list(x))
                except Exception as exc:
                    got = None
                    if judged:
                        T.violate({'clause': 'penalty_not', 'member': mkind, 'what': 'evaluation_raised'},
                                  {'pk': 'not', 'ptype': ptname, 'member': desc, 'k': k, 'x': x},
                                  'coupler.not_(%r, ptype=%s, k=%r)(%r) raised %r' % (desc, ptname, k, x, exc))
                    continue
                key = '%s|member_%s|keyword_%s|%s -> %s' % ('judged' if judged and w != 'rim' else 'unjudged:' + (why or 'rim_of_nested_member'),
                                                          ownfam or 'raw', 'none' if ptname is None else ('barrier' if ptname in PT_SILENT else _fam(ptname)), w, _num(got))
                T.hist('penalty_not_keyword', key)
                if not judged or w == 'rim':
                    continue
                T.nontriv(('pk-not', ptname, desc, k, tuple(x)))
                want_pos = w in ('interior', 'on')
                if got != got or got < 0 or (got > 0) != want_pos:
                    T.violate({'clause': 'penalty_not', 'member': mkind, 'member_family': ownfam or 'raw',
                               'keyword_family': None if ptname is None else _fam(ptname), 'where': w, 'got': _num(got)},
                              {'pk': 'not', 'ptype': ptname, 'member': desc, 'k': k, 'x': x},
                              'coupler.not_(%r%s%s) at %r = %r: the point is %s the region the member accepts, so the penalty must be %s'
                              % (desc, '' if ptname is None else ', ptype=' + ptname, '' if k == 'unset' else ', k=%r' % (k,), x, got,
                                 {'interior': 'strictly inside', 'on': 'in (equality region)', 'boundary': 'on the boundary of', 'outside': 'outside'}[w],
                                 'positive' if want_pos else 'zero'))


def jsonable_desc(desc):
    import json
    return json.loads(json.dumps(desc))


def _andor_pens():
    names = [(pt, c) for pt in PT_EQ + PT_IN for c in ('x0-1', 'x1', 'x0+x1-2')]
    names += [('linear_equality', 'x1/x0'), ('quadratic_inequality', 'x1/x0')]
    return names


def _andor_combos():
    names = _andor_pens()
    combos = [(a,) for a in names] + list(itertools.combinations(names, 2))
    sub = [('linear_equality', 'x0-1'), ('quadratic_inequality', 'x1'), ('uniform_inequality', 'x0+x1-2'),
           ('lagrange_inequality', 'x0-1'), ('uniform_equality', 'x1'), ('linear_inequality', 'x1/x0')]
    combos += list(itertools.combinations(sub, 3))
    return combos


def penalty_andor_keyword(T, ptname, only=None):
    """coupler.and_/or_(*members, ptype=ptname, k=...): zero exactly where all / any member penalties are zero"""
    import mystic.coupler as cp
    pens = {}
    for combo in _andor_combos():
        if only is not None and jsonable_desc(combo) != only['members']:
            continue
        ps = []
        for d in combo:
            if d not in pens:
                pens[d] = _pen(*d)
            ps.append(pens[d])
        fams = ''.join(sorted(set(_fam(pt)[0] for pt, _ in combo)))
        for k in PK:
            if only is not None and only['k'] != k:
                continue
            kw = _kw(ptname, k)
            try:
                pa, po = cp.and_(*ps, **kw), cp.or_(*ps, **kw)
            except Exception as exc:
                T.violate({'clause': 'penalty_andor', 'what': 'construction_raised'},
                          {'pk': 'and', 'ptype': ptname, 'members': combo, 'k': k},
                          'coupler.and_/or_(%r, ptype=%s, k=%r) raised %r' % (combo, ptname, k, exc))
                continue
            for x in PGRID:
                if only is not None and only.get('x', x) != x:
                    continue
                T.count('traces'); T.count('transitions', 2)
                vals = [p(list(x)) for p in ps]
                try:
                    op = 'and'; va = pa(list(x)); op = 'or'; vo = po(list(x))
                except Exception as exc:
                    if ptname not in PT_SILENT:
                        T.violate({'clause': 'penalty_' + op, 'what': 'evaluation_raised'},
                                  {'pk': op, 'ptype': ptname, 'members': combo, 'k': k, 'x': x},
                                  'coupler.%s_(%r, ptype=%s, k=%r)(%r) raised %r; member penalties there %r' % (op, combo, ptname, k, x, exc, vals))
                    continue
                allz, anyz = all(v == 0 for v in vals), any(v == 0 for v in vals)
                if ptname in PT_SILENT:
                    T.hist('penalty_andor_keyword', 'unjudged:barrier_keyword|and members_all_zero=%s -> %s' % (allz, _num(va)))
                    T.hist('penalty_andor_keyword', 'unjudged:barrier_keyword|or members_any_zero=%s -> %s' % (anyz, _num(vo)))
                    continue
                T.nontriv(('pk-andor', ptname, combo, k, tuple(x)))
                kf = 'none' if ptname is None else _fam(ptname)
                T.hist('penalty_andor_keyword', 'judged|keyword_%s|members_%s|and members_all_zero=%s -> %s' % (kf, fams, allz, _num(va)))
                T.hist('penalty_andor_keyword', 'judged|keyword_%s|members_%s|or members_any_zero=%s -> %s' % (kf, fams, anyz, _num(vo)))
                for op, v, z in (('and', va, allz), ('or', vo, anyz)):
                    # the clause is about the ZERO SET only: a nan (lagrange_* re-scaling an infinite member penalty, 0*inf)
                    # is "not zero" and is judged as such; it shows in the histogram as '-> nan'
                    if v < 0 or (v == 0) != z:
                        T.violate({'clause': 'penalty_' + op, 'keyword_family': None if ptname is None else _fam(ptname),
                                   'member_families': fams, 'members_zero': z, 'got': _num(v)},
                                  {'pk': op, 'ptype': ptname, 'members': combo, 'k': k, 'x': x},
                                  'coupler.%s_(%s%s%s) at %r = %r, member penalties there %r: must be zero exactly where %s of them are zero'
                                  % (op, ', '.join('%s(%s)' % d for d in combo), '' if ptname is None else ', ptype=' + ptname,
                                     '' if k == 'unset' else ', k=%r' % (k,), x, v, vals, 'all' if op == 'and' else 'any'))


def shard_pk(item):
    T = Tally()
    _, ptname = item
    import numpy
    with numpy.errstate(all='ignore'):          # barrier_inequality takes log(0) on the boundary
        penalty_not_keyword(T, ptname)
        penalty_andor_keyword(T, ptname)
    T.count('states', 1)
    T.sample({'penalty_keyword': ptname, 'not_members': len(_not_members()), 'andor_member_tuples': len(_andor_combos()),
              'k': list(PK), 'grid_points': len(PGRID)})
    return T


def shard_misc(_):
    T = Tally()
    couplers(T)
    penalty_combinators(T)
    T.count('states', 1)
    return T


def run(ctx):
    thorough = ctx.thorough
    names = [m.__name__ for m in MEMBERS]
    core = ['identity', 'pin1', 'le2', 'ge3', 'round0', 'swap', 'shift']
    maxiters = (1, 2, 3) if not thorough else (1, 2, 3, 4)
    # plan: (tuple size, member names, free prefix, deviation bound after the prefix)
    if not thorough:
        plan = [(1, names, 4, 1), (2, names, 4, 1), (3, core, 0, 2)]
    else:
        plan = [(1, names, 4, 2), (2, names, 4, 2), (3, names, 4, 1), (3, core, 0, 3)]
    items = []
    for kind in ('and', 'or'):
        for size, mem, free, bound in plan:
            tuples = list(itertools.product(mem, repeat=size))
            for i in range(0, len(tuples), 4):
                items.append((kind, tuples[i:i + 4], maxiters, bound, free))
    for n in names:
        items.append(('not', [(n,)], maxiters, 1 if not thorough else 2, 4))
    # members that edit their argument in place (as every generated solver does): singles, and pairs with at least one of them
    inplace = [m.__name__ for m in INPLACE]
    mixed = [(a,) for a in inplace + ['step']]
    mixed += [(a, b) for a in names + ['step'] + inplace for b in names + ['step'] + inplace if a in inplace or b in inplace]
    for kind in ('and', 'or'):
        for i in range(0, len(mixed), 6):
            items.append((kind, mixed[i:i + 6], maxiters, 1 if not thorough else 2, 4))
    for n in inplace:
        items.append(('not', [(n,)], maxiters, 1, 4))
    # one combinator object applied to two inputs in a row (state must not be carried from call to call)
    rmem = ['identity', 'le2', 'ge3', 'swap', 'step', 'tie'] + (['pin1', 'shift', 'step!', 'le2!'] if thorough else ['step!'])
    rtuples = [(a, b) for a in rmem for b in rmem] + ([(a, b, c) for a in rmem[:5] for b in rmem[:5] for c in rmem[:5]] if thorough else
                                                      [(a, b, c) for a in ('identity', 'le2', 'step') for b in ('identity', 'ge3', 'step') for c in ('identity', 'swap', 'step')])
    for kind in ('and', 'or'):
        for i in range(0, len(rtuples), 6):
            items.append((kind, rtuples[i:i + 6], (3, 10), 1, 0, 'reuse'))
    # members that raise a handled error at some vectors (no image there): not_ singles; and_/or_ singles, pairs of
    # two of them, and pairs with an ordinary member in both orders; list inputs over ERR_GRID^2
    errn = [m.__name__ for m in ERRMEMBERS]
    eord = ['identity', 'pin1', 'le2', 'ge3', 'swap', 'shift', 'tie', 'le2!'] + (['pin2', 'round0', 'box', 'step', 'swap!', 'chase!'] if thorough else [])
    etuples = [(a,) for a in errn] + [(a, b) for a in errn for b in errn]
    etuples += [t for a in errn for b in eord for t in ((a, b), (b, a))]
    etriples = [t for a in errn for b in ('le2', 'swap') for c in ('identity', 'shift', 'recip')
                for t in ((a, b, c), (b, a, c), (b, c, a))] if thorough else []
    emax = (1, 2, 3) if not thorough else (1, 2, 3, 4)
    for n in errn:
        if not thorough:
            items.append(('not', [(n,)], emax, 1, 4, 'err'))
        else:
            items.append(('not', [(n,)], (1, 2, 3), 2, 4, 'err'))
            items.append(('not', [(n,)], (4,), 1, 4, 'err'))
    for kind in ('and', 'or'):
        for i in range(0, len(etuples), 5):
            items.append((kind, etuples[i:i + 5], emax, 1, 4, 'err'))
        for i in range(0, len(etriples), 3):
            items.append((kind, etriples[i:i + 3], (1, 2, 3), 1, 4, 'err'))
        if thorough:        # deviation bound 2 on the pairs of two raising members
            for a in errn:
                items.append((kind, [(a, b) for b in errn], (1, 2, 3), 2, 4, 'err'))
    items.append(None)
    for ptname in PKEYWORDS:
        items.append(('pk', ptname))
    ctx.bounds = {'penalty_ptype_keyword': list(PKEYWORDS), 'penalty_k_keyword': list(PK), 'penalty_grid': PGRID,
                  'penalty_not_members(raw|pen|nested)': _not_members(), 'penalty_andor_member_penalties': _andor_pens(),
                  'penalty_andor_member_tuples': len(_andor_combos()),
                  'raising_members': errn, 'raising_inputs': ERR_INPUTS, 'raising_partner_members': eord,
                  'raising_tuples(singles+pairs)': len(etuples), 'raising_triples(maxiter 1-3)': len(etriples), 'raising_maxiter': list(emax),
                  'raising_deviation_bound': ('not_: 2 up to maxiter 3, 1 at maxiter 4; and_/or_: 1, and 2 on pairs of two raising members up to maxiter 3') if thorough else 'not_, and_, or_: 1',
                  'in_place_members': inplace, 'reuse_members': rmem, 'reuse_inputs(first,then)': REUSE_INPUTS, 'reuse_maxiter': [3, 10],
                  'members': names, 'core_members_for_triples': core, 'inputs': INPUTS, 'maxiter': maxiters,
                  'unit_alphabet': list(UNIT), 'randint': [-1, 0, 1],
                  'plan(size,members,free_prefix_choice_points,deviation_bound_after_prefix)':
                      [(a, len(b), c, d) for a, b, c, d in plan]}
    ctx.rule = ("every (combinator, member tuple, input, maxiter, list/array) configuration is run under every answer of its "
                "random draws (the first `free` draws complete = the whole first randomisation event of a 2-vector, then deviation bound); "
                "a configuration is non-trivial when its executions produced more than one distinct (path, result) outcome; "
                "coupler / penalty-combinator grid points count once each; penalty combinators x ptype keyword: every (member or member tuple, "
                "ptype keyword, k keyword, grid point) is one case, non-trivial when it is judged (the statement defines the region); "
                "raising members: kind 'err' configurations enumerate the same random answers, the histograms err_* say where in the run a member raised")
    ctx.assumptions = ["members are deterministic python functions on 2-vectors",
                       "random() answers restricted to the unit alphabet; randint fully enumerated",
                       "a member that raises a handled error at y has no image there: it neither changes y nor leaves it unchanged",
                       "penalty `ptype` keyword: judged for raw conditions (region read by the type in use) and for penalty members when the keyword "
                       "is of the member's own family; other-family keyword, barrier_inequality and rim points of nested members are only histogrammed",
                       "and_/or_ penalty clause is about the zero set: nan (lagrange_* applied to an infinite member penalty) counts as non-zero"]
    ctx.pmap(_dispatch, items)


def _dispatch(it):
    if it is None:
        return shard_misc(it)
    if it[0] == 'pk':
        return shard_pk(it)
    return shard(it)


def replay(case):
    out = []
    if 'kind' in case:
        ch = tree.ReplayChooser(case['choices'])
        fired, y, nd = _one(case['kind'], tuple(case['names']), case['x0'], case['maxiter'], ch, case.get('array', False))
        msg = _judge(case['kind'], tuple(case['names']), y, fired)
        if msg:
            out.append(msg)
    elif 'pk' in case:
        T = Tally()
        import numpy
        with numpy.errstate(all='ignore'):
            if case['pk'] == 'not':
                penalty_not_keyword(T, case['ptype'], only=case)
            else:
                penalty_andor_keyword(T, case['ptype'], only=case)
        out = [v['detail'] for v in T.violations.values()]
    else:
        T = Tally()
        couplers(T); penalty_combinators(T)
        out = [v['detail'] for v in T.violations.values()]
    return out
