"""C17 - combinators claim success only at a fixed point; couplers compose as documented.

Engine E2: every (member tuple, input, maxiter) configuration is run under a
ScriptedRandom; every answer of the cycle-breaking draws is a choice point.
"""
import itertools
from mc import tree, env
from mc.runner import Tally

# ------------------------------------------------------------------ members
def _mk(fn, name, idem):
    fn.__name__ = name
    fn.idem = idem
    return fn

def identity(x): return list(x)
def pin1(x): x = list(x); x[0] = 1.0; return x
def pin2(x): x = list(x); x[0] = 2.0; return x
def le2(x): x = list(x); x[0] = min(x[0], 2.0); return x
def ge3(x): x = list(x); x[0] = max(x[0], 3.0); return x
def rnd0(x): x = list(x); x[0] = float(round(x[0])); return x
def box(x): return [min(max(v, 0.0), 2.0) for v in x]
def swap(x): x = list(x); x[0], x[1] = x[1], x[0]; return x
def shift(x): x = list(x); x[0] = x[0] + 1.0; return x
def tie(x): x = list(x); x[1] = x[0]; return x

def step(x): x = list(x); x[0] = x[0] - min(1.0, x[0] - 2.0) if x[0] > 2.0 else x[0]; return x   # toward x0 <= 2 by at most 1

MEMBERS = [_mk(identity, 'identity', True), _mk(pin1, 'pin1', True), _mk(pin2, 'pin2', True),
           _mk(le2, 'le2', True), _mk(ge3, 'ge3', True), _mk(rnd0, 'round0', True),
           _mk(box, 'box', True), _mk(swap, 'swap', False), _mk(shift, 'shift', False),
           _mk(tie, 'tie', True)]
EXTRA = [_mk(step, 'step', False)]


def _inplace(pure, name):
    """the same map written the way generated solvers are: it edits its argument and returns it"""
    def f(x):
        y = pure(list(x))
        for i, v in enumerate(y):
            x[i] = v
        return x
    return _mk(f, name, pure.idem)


def _chase(x):       # x0 = x1 + 1 ; x1 = x0 + 1, in place: never at rest
    x[0] = x[1] + 1.0
    x[1] = x[0] + 1.0
    return x


INPLACE = [_inplace(BYNAME_, n + '!') for BYNAME_, n in ((pin1, 'pin1'), (le2, 'le2'), (ge3, 'ge3'), (swap, 'swap'),
                                                         (shift, 'shift'), (tie, 'tie'), (step, 'step'))] + [_mk(_chase, 'chase!', False)]


# members that have NO image at some vectors: there they raise one of the errors the combinators document and handle
# (ZeroDivisionError; the "... not supported ... 'complex'" TypeError / ValueError).  Everywhere else they are ordinary maps.
def unit_sum(x): s = sum(x); return [i / s for i in x]                         # undefined where sum(x) == 0
def scale_first(x): return [2 * i / x[0] for i in x]                            # rescale to x0 == 2; undefined where x0 == 0
def recip(x): x = list(x); x[0] = 1.0 / x[0]; return x                          # period 2; undefined where x0 == 0
def sqrt_floor(x): x = list(x); x[0] = max(x[0] ** 0.5, 1.0); return x          # x0 < 0: complex ** result, '>' raises TypeError
def vcomplex(x):                                                                # x0 < 0: the ValueError flavour of the same
    x = list(x)
    if x[0] < 0:
        raise ValueError("operation not supported for 'complex' argument")
    x[0] = min(x[0], 1.0)
    return x


ERRMEMBERS = [_mk(unit_sum, 'unit_sum', True), _mk(scale_first, 'scale_first', True), _mk(recip, 'recip', False),
              _mk(sqrt_floor, 'sqrt_floor', False), _mk(vcomplex, 'vcomplex', True)]
ERRNAMES = frozenset(m.__name__ for m in ERRMEMBERS)
HANDLED = (ZeroDivisionError, TypeError, ValueError)       # what the members above raise, nothing else
ERR_GRID = [-1.0, 0.0, 1.0, 2.0]
ERR_INPUTS = [[a, b] for a in ERR_GRID for b in ERR_GRID]
BYNAME = {m.__name__: m for m in MEMBERS + EXTRA + INPLACE + ERRMEMBERS}


def _image(m, y):
    """m(y) as a list, or None where m has no image (raises a handled error)"""
    try:
        r = m(list(y))
    except HANDLED:
        return None
    return r.tolist() if hasattr(r, 'tolist') else list(r)
GRID = [0.0, 1.0, 2.5, 3.0]
INPUTS = [[a, b] for a in GRID for b in GRID]
UNIT = (0.0, 0.25, 0.5, 0.75, env.ONE_MINUS)


def _one(kind, names, x0, maxiter, chooser, as_array=False, calls=None):
    """run one execution; return (path, y, nrandom).  With a member of ERRNAMES in the tuple a handled error that
    escapes the combinator is an outcome (path 'raised:<type>', neither onexit nor onfail fired), not a harness fault;
    `calls` (a list) receives 'D'/'U' per member call: the member was defined / raised at the vector it was given."""
    import mystic.constraints as mc
    members = [BYNAME[n] for n in names]
    witherr = any(n in ERRNAMES for n in names)
    if calls is not None:
        def _spy(m):
            def w(x):
                try:
                    r = m(x)
                except HANDLED:
                    calls.append('U'); raise
                calls.append('D')
                return r
            return w
        members = [_spy(m) for m in members]
    fired = []
    def onexit(x):
        fired.append('exit'); return x
    def onfail(x):
        fired.append('fail'); return x
    rng = env.ScriptedRandom(chooser, unit=UNIT)
    with env.owned_random(rng):
        if kind == 'and':
            c = mc.and_(*members, maxiter=maxiter, onexit=onexit, onfail=onfail)
        elif kind == 'or':
            c = mc.or_(*members, maxiter=maxiter, onexit=onexit, onfail=onfail)
        else:
            c = mc.not_(members[0], maxiter=maxiter, onexit=onexit, onfail=onfail)
        if isinstance(x0, dict):          # reuse: the same combinator object is first applied to another input
            first = list(x0['first'])
            if as_array:
                import numpy
                first = numpy.array(first)
            rng.ch = tree.Chooser()       # the first application takes the default answers (not choice points)
            try:
                c(first)
            finally:
                rng.ch = chooser
            del fired[:]
            x0 = x0['then']
        xin = list(x0)
        if as_array:
            import numpy
            xin = numpy.array(xin)
        if calls is not None:
            del calls[:]
        if witherr:
            try:
                y = c(xin)
            except HANDLED as exc:
                fired.append('raised:' + type(exc).__name__)
                y = []
        else:
            y = c(xin)
    y = y.tolist() if hasattr(y, 'tolist') else list(y)
    return fired, y, len(rng.log)


def _judge(kind, names, y, fired):
    """None if fine, else text"""
    members = [BYNAME[n] for n in names]
    if len(fired) != 1 or fired[0] not in ('exit', 'fail'):
        return 'onexit/onfail fired %r (exactly one of them must fire exactly once)' % (fired,)
    if fired[0] == 'fail':
        return None
    images = [_image(m, y) for m in members]           # None: the member raises a handled error at y (no image)
    unchanged = [im is not None and im == y for im in images]
    changed = [im is not None and im != y for im in images]
    undefined = [n for n, im in zip(names, images) if im is None]
    if kind == 'and' and any(changed):
        bad = [n for n, u in zip(names, changed) if u]
        return 'and_ reported success at %r but member(s) %s change it' % (y, bad)
    if kind == 'and' and undefined:
        return 'and_ reported success at %r where member(s) %s raise (no image: not "left unchanged")' % (y, undefined)
    if kind == 'or' and not any(unchanged):
        return 'or_ reported success at %r but no member leaves it unchanged (members that raise there: %s)' % (y, undefined)
    if kind == 'not' and unchanged[0]:
        return 'not_ reported success at %r but the member leaves it unchanged' % (y,)
    if kind == 'not' and undefined:
        return 'not_ reported success at %r where the member raises (no image: the vector is not "changed by c")' % (y,)
    return None


def _sigextra(names, y, fired):
    """categorical: does some member raise at the returned vector / did a member's error escape"""
    if fired and fired[0].startswith('raised'):
        return 'error_escaped'
    if fired == ['exit'] and any(_image(BYNAME[n], y) is None for n in names):
        return 'member_undefined_at_result'
    return 'none'


REUSE_INPUTS = [[a, b] for a in (0.0, 2.5, 4.5) for b in (0.0, 1.0)]


def shard(item):
    kind, tuples, maxiters, bound, free = item[:5]
    inputs = INPUTS
    if len(item) > 5 and item[5] == 'reuse':
        inputs = [{'first': a, 'then': b} for a in REUSE_INPUTS for b in REUSE_INPUTS]
    err = len(item) > 5 and item[5] == 'err'
    if err:
        inputs = ERR_INPUTS
    T = Tally()
    for names in tuples:
        for x0 in inputs:
            for maxiter in maxiters:
                for arr in ((False, True) if kind != 'not' and not err else (False,)):
                    outcomes = set()
                    calls = [] if err else None
                    def run(ch, names=names, x0=x0, maxiter=maxiter, arr=arr, calls=calls):
                        return _one(kind, names, x0, maxiter, ch, arr, calls)
                    for ch, (fired, y, ndraw) in tree.explore(run, bound=bound, free=free):
                        T.count('traces')
                        T.count('transitions', len(ch.trace) + 1)
                        outcomes.add((tuple(fired), tuple(y)))
                        T.hist('path_%s' % kind, ','.join(fired))
                        if ndraw:
                            T.count('executions_with_randomisation')
                        if err:
                            # non-vacuity of the raising-member space: where in the run did a member raise
                            seq = ''.join(calls)
                            nU = seq.count('U')
                            T.hist('err_%s_path_x_member_raised' % kind,
                                   '%s|%s' % (','.join(fired), 'never' if not nU else
                                              ('only_at_input' if seq.startswith('U') and nU == 1 else
                                               ('input_and_later' if seq.startswith('U') else 'only_after_input'))))
                            if kind == 'not':
                                T.hist('err_not_member_calls(D=defined,U=raised)', seq)
                                if nU and ndraw and 'U' in seq[1:]:
                                    T.count('not_retry_landed_on_undefined_vector')
                            if fired == ['exit']:
                                und = [n for n in names if _image(BYNAME[n], y) is None]
                                T.hist('err_%s_success_members_undefined_at_result' % kind, len(und))
                        msg = _judge(kind, names, y, fired)
                        if msg:
                            nonidem = [n for n in names if not BYNAME[n].idem]
                            T.violate({'clause': kind + '_success', 'members': list(names),
                                       'randomised': bool(ndraw), 'reused_object': isinstance(x0, dict),
                                       'nonidempotent_member': bool(nonidem)} if not err else
                                      {'clause': kind + '_success', 'raising_member': True, 'what': _sigextra(names, y, fired),
                                       'members': list(names), 'randomised': bool(ndraw), 'cap': 'maxiter=1' if maxiter == 1 else 'maxiter>1'},
                                      {'kind': kind, 'names': list(names), 'x0': x0,
                                       'maxiter': maxiter, 'array': arr, 'choices': ch.choices},
                                      msg + ' [members=%s x0=%r maxiter=%d choices=%r]'
                                      % (names, x0, maxiter, ch.choices))
                    T.count('states', len(outcomes))
                    if len(outcomes) > 1:
                        T.nontriv((kind, names, x0, maxiter, arr))
                    T.hist('distinct_outcomes_per_config', min(len(outcomes), 9))
    T.sample({'kind': kind, 'members': tuples[0], 'x0': inputs[5], 'maxiter': maxiters[-1]})
    return T


# ------------------------------------------------------------------ couplers
def couplers(T):
    import numpy as np
    import mystic.coupler as cp
    fs = [lambda x: x + 1, lambda x: x * x, lambda x: 3 - 2 * x]
    cs = [lambda x: x * x, lambda x: abs(x) + 0.5, lambda x: -x]
    grid = [np.array(v) for v in itertools.product([-2.0, 0.0, 0.5, 3.0], repeat=2)]
    for (fi, f), (ci, c) in itertools.product(enumerate(fs), enumerate(cs)):
        for x in grid:
            T.count('traces'); T.count('transitions', 3); T.nontriv(('cp', fi, ci, tuple(x)))
            checks = [
                ('inner', cp.inner(c)(f)(x), f(c(x))),
                ('outer', cp.outer(c)(f)(x), c(f(x))),
                ('additive', cp.additive(c)(f)(x), f(x) + c(x)),
            ]
            for name, got, want in checks:
                if not np.array_equal(np.asarray(got), np.asarray(want)):
                    T.violate({'clause': 'coupler', 'coupler': name}, {'coupler': name, 'f': fi, 'c': ci, 'x': x},
                              '%s(c%d)(f%d)(%r) = %r, documented value %r' % (name, ci, fi, x.tolist(), got, want))
    # histories: a coupled function is a value.  (i) called twice it answers twice the same, with an f that returns a
    # stored array or its own input (a mutable result that outlives the call), and leaves its argument alone;
    # (ii) one coupler object used to decorate two functions keeps them apart, whichever is called first
    stored = np.array([1.0, -2.0])
    def f_stored(x): return stored                 # the same array object on every call
    def f_input(x): return x                       # hands its input back
    def f_fresh(x): return x * 2.0
    def p_vec(x): return np.abs(x) + 0.5
    def p_sc(x): return float(np.sum(np.abs(x))) + 0.25
    for fname, f in (('stored', f_stored), ('input', f_input), ('fresh', f_fresh)):
        for pname, pen in (('vector', p_vec), ('scalar', p_sc)):
            for cname, build, expect in (('additive', cp.additive, lambda x: f(x) + pen(x)),
                                         ('inner', cp.inner, lambda x: f(pen(x)) if pname == 'vector' else None),
                                         ('outer', cp.outer, lambda x: pen(f(x)))):
                for x0 in grid[:6]:
                    if cname == 'inner' and pname == 'scalar':
                        continue
                    stored[:] = [1.0, -2.0]
                    x = np.array(x0, dtype=float)
                    want = np.array(expect(np.array(x0, dtype=float)), dtype=float, copy=True)
                    stored[:] = [1.0, -2.0]
                    g = build(pen)(f)
                    T.count('traces'); T.count('transitions', 3); T.nontriv(('cph', fname, pname, cname, tuple(x0)))
                    got1 = np.array(g(x), dtype=float, copy=True)
                    x_after = x.copy()
                    got2 = np.array(g(np.array(x0, dtype=float)), dtype=float, copy=True)
                    sig = {'clause': 'coupler_history', 'coupler': cname, 'f_returns': fname, 'penalty': pname}
                    case = {'coupler': cname, 'history': True, 'f': fname, 'p': pname, 'x': list(x0)}
                    if not np.array_equal(got1, want):
                        T.violate(dict(sig, what='first_call'), case, '%s(p_%s)(f_%s)(%r) = %r, documented value %r' % (cname, pname, fname, list(x0), got1.tolist(), want.tolist()))
                    elif not np.array_equal(got2, want):
                        T.violate(dict(sig, what='second_call'), case, '%s(p_%s)(f_%s)(%r): first call %r, the same call again %r'
                                  % (cname, pname, fname, list(x0), got1.tolist(), got2.tolist()))
                    if fname != 'input' and not np.array_equal(x_after, np.array(x0, dtype=float)):
                        T.violate(dict(sig, what='argument_changed'), case, '%s(p_%s)(f_%s) changed its argument %r to %r'
                                  % (cname, pname, fname, list(x0), x_after.tolist()))
    for cname, build in (('inner', cp.inner), ('outer', cp.outer), ('additive', cp.additive)):
        for ci, c in enumerate(cs):
            for order in ('first_then_second', 'second_then_first'):
                d = build(c)
                g1, g2 = d(fs[0]), d(fs[1])
                for x in grid[:6]:
                    T.count('traces'); T.count('transitions', 2); T.nontriv(('cpd', cname, ci, order, tuple(x)))
                    want1 = {'inner': fs[0](c(x)), 'outer': c(fs[0](x)), 'additive': fs[0](x) + c(x)}[cname]
                    want2 = {'inner': fs[1](c(x)), 'outer': c(fs[1](x)), 'additive': fs[1](x) + c(x)}[cname]
                    r = [g1(x), g2(x)] if order == 'first_then_second' else [g2(x), g1(x)][::-1]
                    if not (np.array_equal(np.asarray(r[0]), np.asarray(want1)) and np.array_equal(np.asarray(r[1]), np.asarray(want2))):
                        T.violate({'clause': 'coupler_history', 'coupler': cname, 'what': 'one_coupler_object_two_functions'},
                                  {'coupler': cname, 'history': True, 'c': ci, 'x': x},
                                  'd = %s(c%d); g1 = d(f0); g2 = d(f1): g1(%r) = %r (documented %r), g2 = %r (documented %r)'
                                  % (cname, ci, x.tolist(), r[0], want1, r[1], want2))
    # args / kwds routing
    def c2(x, a, b=0): return x * a + b
    def f2(x, p, q=0): return x - p + 10 * q
    for x in grid:
        T.count('traces'); T.count('transitions', 6); T.nontriv(('cpa', tuple(x)))
        checks = [
            ('inner+args', cp.inner(c2, args=(2,), kwds={'b': 1})(f2)(x, 3, q=1), f2(c2(x, 2, b=1), 3, q=1)),
            ('outer+args', cp.outer(c2, args=(2,), kwds={'b': 1})(f2)(x, 3, q=1), c2(f2(x, 3, q=1), 2, b=1)),
            ('additive+args', cp.additive(c2, args=(2,), kwds={'b': 1})(f2)(x, 3, q=1), f2(x, 3, q=1) + c2(x, 2, b=1)),
            ('inner_proxy', cp.inner_proxy(c2, args=(3,), kwds={'q': 1})(f2)(x, 2, b=1), f2(c2(x, 2, b=1), 3, q=1)),
            ('outer_proxy', cp.outer_proxy(c2, args=(3,), kwds={'q': 1})(f2)(x, 2, b=1), c2(f2(x, 3, q=1), 2, b=1)),
            ('additive_proxy', cp.additive_proxy(c2, args=(3,), kwds={'q': 1})(f2)(x, 2, b=1), f2(x, 3, q=1) + c2(x, 2, b=1)),
        ]
        for name, got, want in checks:
            if not np.array_equal(np.asarray(got), np.asarray(want)):
                T.violate({'clause': 'coupler', 'coupler': name}, {'coupler': name, 'x': x},
                          '%s at %r = %r, documented value %r' % (name, x.tolist(), got, want))


def penalty_combinators(T):
    import mystic.penalty as mp
    import mystic.coupler as cp
    conds = {'x0-1': lambda x: x[0] - 1.0, 'x1': lambda x: x[1], 'x0+x1-2': lambda x: x[0] + x[1] - 2.0}
    grid = [list(v) for v in itertools.product([-1.0, 0.0, 1.0, 2.0, 3.0], repeat=2)]
    zero = lambda x: 0.0
    for ptype in ('quadratic_inequality', 'linear_inequality', 'quadratic_equality', 'linear_equality'):
        P = getattr(mp, ptype)
        pens = {n: P(c)(zero) for n, c in conds.items()}
        ineq = ptype.endswith('inequality')
        for r in (1, 2, 3):
            for combo in itertools.combinations(sorted(pens), r):
                ps = [pens[n] for n in combo]
                pa, po = cp.and_(*ps), cp.or_(*ps)
                for x in grid:
                    T.count('traces'); T.count('transitions', 2)
                    T.nontriv(('pc', ptype, combo, tuple(x)))
                    vals = [p(x) for p in ps]
                    if (pa(x) == 0) != all(v == 0 for v in vals) or pa(x) < 0:
                        T.violate({'clause': 'penalty_and', 'ptype': ptype}, {'ptype': ptype, 'combo': combo, 'x': x},
                                  'coupler.and_ of %s at %r = %r, members %r' % (combo, x, pa(x), vals))
                    if (po(x) == 0) != any(v == 0 for v in vals) or po(x) < 0:
                        T.violate({'clause': 'penalty_or', 'ptype': ptype}, {'ptype': ptype, 'combo': combo, 'x': x},
                                  'coupler.or_ of %s at %r = %r, members %r' % (combo, x, po(x), vals))
        for n, c in conds.items():
            pn = cp.not_(pens[n])
            for x in grid:
                T.count('traces'); T.count('transitions', 1)
                v = c(x)
                want_pos = (v < 0) if ineq else (v == 0)
                got = pn(x)
                if (got > 0) != want_pos or got < 0:
                    T.violate({'clause': 'penalty_not', 'ptype': ptype}, {'ptype': ptype, 'cond': n, 'x': x},
                              'coupler.not_(%s %s) at %r = %r with condition value %r' % (ptype, n, x, got, v))


def shard_misc(_):
    T = Tally()
    couplers(T)
    penalty_combinators(T)
    T.count('states', 1)
    return T


def run(ctx):
    thorough = ctx.thorough
    names = [m.__name__ for m in MEMBERS]
    core = ['identity', 'pin1', 'le2', 'ge3', 'round0', 'swap', 'shift']
    maxiters = (1, 2, 3) if not thorough else (1, 2, 3, 4)
    # plan: (tuple size, member names, free prefix, deviation bound after the prefix)
    if not thorough:
        plan = [(1, names, 4, 1), (2, names, 4, 1), (3, core, 0, 2)]
    else:
        plan = [(1, names, 4, 2), (2, names, 4, 2), (3, names, 4, 1), (3, core, 0, 3)]
    items = []
    for kind in ('and', 'or'):
        for size, mem, free, bound in plan:
            tuples = list(itertools.product(mem, repeat=size))
            for i in range(0, len(tuples), 4):
                items.append((kind, tuples[i:i + 4], maxiters, bound, free))
    for n in names:
        items.append(('not', [(n,)], maxiters, 1 if not thorough else 2, 4))
    # members that edit their argument in place (as every generated solver does): singles, and pairs with at least one of them
    inplace = [m.__name__ for m in INPLACE]
    mixed = [(a,) for a in inplace + ['step']]
    mixed += [(a, b) for a in names + ['step'] + inplace for b in names + ['step'] + inplace if a in inplace or b in inplace]
    for kind in ('and', 'or'):
        for i in range(0, len(mixed), 6):
            items.append((kind, mixed[i:i + 6], maxiters, 1 if not thorough else 2, 4))
    for n in inplace:
        items.append(('not', [(n,)], maxiters, 1, 4))
    # one combinator object applied to two inputs in a row (state must not be carried from call to call)
    rmem = ['identity', 'le2', 'ge3', 'swap', 'step', 'tie'] + (['pin1', 'shift', 'step!', 'le2!'] if thorough else ['step!'])
    rtuples = [(a, b) for a in rmem for b in rmem] + ([(a, b, c) for a in rmem[:5] for b in rmem[:5] for c in rmem[:5]] if thorough else
                                                      [(a, b, c) for a in ('identity', 'le2', 'step') for b in ('identity', 'ge3', 'step') for c in ('identity', 'swap', 'step')])
    for kind in ('and', 'or'):
        for i in range(0, len(rtuples), 6):
            items.append((kind, rtuples[i:i + 6], (3, 10), 1, 0, 'reuse'))
    items.append(None)
    ctx.bounds = {'in_place_members': inplace, 'reuse_members': rmem, 'reuse_inputs(first,then)': REUSE_INPUTS, 'reuse_maxiter': [3, 10],
                  'members': names, 'core_members_for_triples': core, 'inputs': INPUTS, 'maxiter': maxiters,
                  'unit_alphabet': list(UNIT), 'randint': [-1, 0, 1],
                  'plan(size,members,free_prefix_choice_points,deviation_bound_after_prefix)':
                      [(a, len(b), c, d) for a, b, c, d in plan]}
    ctx.rule = ("every (combinator, member tuple, input, maxiter, list/array) configuration is run under every answer of its "
                "random draws (the first `free` draws complete = the whole first randomisation event of a 2-vector, then deviation bound); "
                "a configuration is non-trivial when its executions produced more than one distinct (path, result) outcome; "
                "coupler / penalty-combinator grid points count once each")
    ctx.assumptions = ["members are deterministic python functions on 2-vectors",
                       "random() answers restricted to the unit alphabet; randint fully enumerated"]
    ctx.pmap(_dispatch, items)


def _dispatch(it):
    return shard_misc(it) if it is None else shard(it)


def replay(case):
    out = []
    if 'kind' in case:
        ch = tree.ReplayChooser(case['choices'])
        fired, y, nd = _one(case['kind'], tuple(case['names']), case['x0'], case['maxiter'], ch, case.get('array', False))
        msg = _judge(case['kind'], tuple(case['names']), y, fired)
        if msg:
            out.append(msg)
    else:
        T = Tally()
        couplers(T); penalty_combinators(T)
        out = [v['detail'] for v in T.violations.values()]
    return out
