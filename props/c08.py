"""C08 - the optimizers implement their published algorithms.

Engine E3 (Nelder-Mead, Powell): every (cost, start, tolerance, maxiter) of a small
grid; the real solver is advanced with ``Step()`` in lock step with a reference
model (``ref/nm.py``: textbook Nelder-Mead; ``ref/powell.py``: an independent
direction-set loop around the repository's own Brent line search) and compared
after *every* iteration; the one-call wrappers ``fmin`` / ``fmin_powell`` are
compared with ``scipy.optimize.fmin`` (installed) and the vendored scipy-0.6
``fmin`` / ``fmin_powell``.

Engine E2 (differential evolution): (a) one strategy call on a real solver whose
population encodes (member, component) in every entry, under EVERY answer of
``random.sample`` / ``random.randrange`` and ``random.random()`` in
{0, CR exactly, 0.999}; the trial is decoded and judged by the strategy's
definition.  (b) whole generations of DE (in place) and DE2 (invariant previous
generation) under scripted answers, deviation bound 2, against ``ref/de.py``.
"""
import math, itertools
import numpy as np
from mc import tree, env
from mc.runner import Tally
from ref import nm as rnm, powell as rpw, de as rde


# ===================================================================== costs
def rosen(x):
    return 100.0 * (x[1] - x[0] ** 2) ** 2 + (1.0 - x[0]) ** 2


def quad3(x):
    return ((x[0] - 1.0) ** 2 + 2.0 * (x[1] + 0.5) ** 2 + 3.0 * (x[2] - 0.25) ** 2
            + x[0] * x[1] - 0.5 * x[1] * x[2])


def absum(x):
    c = (0.5, -0.25, 1.0)
    return float(sum(abs(v - c[i]) for i, v in enumerate(x)))


def illq(x):
    return x[0] ** 2 + 1e4 * x[1] ** 2


def steps(x):
    """floor-quantised sphere: plateaus, exact ties"""
    return float(sum(math.floor(2.0 * v) ** 2 for v in x)) / 4.0


def parab1(x):
    return (x[0] - 0.75) ** 2


COSTS = {'rosen': rosen, 'quad3': quad3, 'absum': absum, 'illq': illq, 'steps': steps, 'parab1': parab1}
STARTS = {
    'rosen': [[-1.2, 1.0], [0.0, 0.0], [2.0, -1.5], [1.0, 1.0], [-0.5, 2.5]],
    'quad3': [[0.0, 0.0, 0.0], [1.0, -2.0, 3.0], [-1.5, 0.5, 0.25], [4.0, 4.0, -4.0]],
    'absum': [[1.0, 1.0], [0.5, -0.25], [-2.0, 3.0], [0.0, 0.0, 0.0], [2.0, -1.0, 1.0]],
    'illq': [[1.0, 1.0], [-3.0, 0.125], [0.0, 2.0], [100.0, -0.01]],
    'steps': [[1.3, -0.7], [2.6, 1.7], [0.98, 1.96], [-1.5, -1.5], [1.3, -1.5], [3.9, -2.05, 0.49],
              [0.0, 0.0], [7.9, 10.1], [2.6, -1.4, 0.7], [1.3, -0.7, 2.2]],
    'parab1': [[0.0], [3.0], [-2.5], [0.75], [0.7]],
}
STARTS_T = {   # added by the thorough tier
    'rosen': [[-3.0, -3.0], [0.5, 0.25], [1.5, 2.0], [-1.2, 1.0, 1.0]],
    'quad3': [[0.25, 0.25, 0.25], [-8.0, 0.0, 8.0]],
    'absum': [[0.5, 3.0], [10.0, -10.0], [0.25, 0.25, 0.25]],
    'illq': [[1e-3, 1e-3], [5.0, -5.0]],
    'steps': [[-0.7, 1.3], [1.5, 1.5], [-2.6, 1.3], [0.49, 0.51], [5.2, -3.1, 2.2], [1.49], [-0.26, 0.24]],
    'parab1': [[0.8], [100.0], [-1e-3]],
}
TOLS = (1e-2, 1e-4, 1e-8)
MAXITERS = (None, 5, 17)
FIVE = ('reflect', 'expand', 'contract-out', 'contract-in', 'shrink')


class Recorder(object):
    def __init__(self, f):
        self.f = f
        self.n = 0

    def __call__(self, x):
        self.n += 1
        return self.f(x)


def _fl(v):
    if type(v) is list:
        try:
            return [float(a) for a in v]
        except TypeError:
            pass
    return np.asarray(v, dtype=float).ravel().tolist()


REL, ABS = 1e-9, 1e-12


def _same(a, b, rel=REL, abs_=ABS):
    """None if different; 'bits' if identical; 'rounding' if |a-b| <= rel*max(|a|,|b|) + abs_.

    "To rounding" needs both terms: mystic builds the zero-coordinate vertex of the initial
    simplex as radius**2*0.1 = 0.00025000000000000006 (scipy: the literal 0.00025), and a
    last-bit difference in x becomes a relative 1e-12 difference in a cost such as
    (x - 0.75)**2 near its zero."""
    a, b = _fl(a), _fl(b)
    if len(a) != len(b):
        return None
    if a == b:
        return 'bits'
    for p, q in zip(a, b):
        if p == q or (p != p and q != q):
            continue
        if not abs(p - q) <= rel * max(abs(p), abs(q)) + abs_:
            return None
    return 'rounding'


# ===================================================================== Nelder-Mead
MYSTIC_ZDELT = (0.05 ** 2) * 0.1     # 0.00025000000000000006, what scipy_optimize.py l.137 computes


def nm_adaptive_case(T, cname, x0, tol, maxiter):
    """the solver with the sticky keyword adaptive=True (given once, on the first Step) against the reference with the
    Gao-Han coefficients; only for dimensions where they differ from the standard ones (n != 2)"""
    if len(x0) == 2 or tol < 1e-4:
        return []       # long runs at 1e-8 meet comparisons decided by the last bit of non-dyadic coefficients
    return _nm_case(T, cname, x0, tol, maxiter, MYSTIC_ZDELT if any(v == 0 for v in x0) else rnm.ZDELT, adaptive=True)


def nm_case(T, cname, x0, tol, maxiter):
    """returns list of (sig, detail).  A deviation on a start with a zero coordinate is re-judged with the
    reference given mystic's own value for that vertex: if they then agree, the deviation is attributed to it"""
    out = _nm_case(T, cname, x0, tol, maxiter, rnm.ZDELT)
    if out and any(v == 0 for v in x0) and not _nm_case(None, cname, x0, tol, maxiter, MYSTIC_ZDELT):
        sig, detail = out[0]
        return [({'solver': 'NelderMead', 'clause': 'initial_simplex_zero_coordinate'},
                 detail + ' || agrees at every iteration once the reference uses %r instead of 0.00025 for the vertex '
                 'of a zero coordinate (mystic computes radius**2*0.1)' % MYSTIC_ZDELT)]
    return out


def _nm_case(T, cname, x0, tol, maxiter, zdelt, adaptive=False):
    from mystic.solvers import NelderMeadSimplexSolver
    from mystic.termination import CandidateRelativeTolerance as CRT
    cost = COSTS[cname]
    out = []
    n = len(x0)
    rng = env.SeededRandom(0)
    with env.owned_random(rng):
        s = NelderMeadSimplexSolver(n)
        s.SetInitialPoints(list(x0))
        s.SetEvaluationLimits(maxiter, None)
        s.SetTermination(CRT(tol, tol))
        rec = Recorder(cost)
        s.SetObjective(rec)
        last = None
        coeff = rnm.adaptive_coefficients(n) if adaptive else None
        first = True
        for r in rnm.nelder_mead(cost, list(x0), tol, tol, maxiter, None, zdelt, coeff):
            last = r
            msg = s.Step(adaptive=True) if (adaptive and first) else s.Step()
            first = False
            k = len(r['sim'])
            sim = np.array(s.population, dtype=float)[:k]
            fsim = np.array(s.popEnergy, dtype=float)[:k]
            if T is not None:
                T.count('transitions')
                T.hist('nm_branch', r['branch'])
                for t in r['ties']:
                    T.hist('nm_tie', t)
                if r['ties'] and r['branch'] in FIVE:
                    T.hist('nm_branch_with_tie', r['branch'])
                if adaptive:
                    T.hist('nm_adaptive_branch', r['branch'])
                T.state(('nm', r['branch'], tuple(map(tuple, r['sim'])), tuple(r['fsim'])))
            bad = []
            a = _same(sim, r['sim'])
            b = _same(fsim, r['fsim'])
            if a is None or sim.shape[0] != k:
                bad.append('simplex %r, reference %r' % (sim.tolist(), r['sim']))
            if b is None:
                bad.append('energies %r, reference %r' % (fsim.tolist(), r['fsim']))
            if T is not None and a and b:
                T.hist('nm_agreement', 'bits' if (a == b == 'bits') else 'rounding')
            if s.evaluations != r['ncalls'] or rec.n != r['ncalls']:
                bad.append('evaluations reported %d, real calls %d, reference %d' % (s.evaluations, rec.n, r['ncalls']))
            if s.generations != r['iter']:
                bad.append('generations %d, reference iteration %d' % (s.generations, r['iter']))
            if bool(msg) != bool(r['stop']):
                bad.append('Step returned %r, reference stop=%r' % (msg, r['stop']))
            if k > 1 and _same(s.bestSolution, r['sim'][0]) is None:
                bad.append('bestSolution %r is not the lowest vertex %r' % (_fl(s.bestSolution), r['sim'][0]))
            if bad:
                out.append(({'solver': 'NelderMead', 'clause': 'step_vs_textbook', 'branch': r['branch'],
                             'tie': bool(r['ties']), 'adaptive': bool(adaptive)},
                            'NelderMeadSimplexSolver on %s from %r (xtol=ftol=%g, maxiter=%r), iteration %d '
                            '[reference branch %s, ties %s]: %s'
                            % (cname, x0, tol, maxiter, r['iter'], r['branch'], list(r['ties']), '; '.join(bad))))
                break
        if T is not None and last is not None:
            T.hist('nm_stop', last['stop'])
    return out


def fmin_case(T, cname, x0, tol, maxiter):
    import mystic.scipy_optimize as mso
    import mystic._scipy060optimize as old
    import scipy.optimize as so
    cost = COSTS[cname]
    out = []
    with env.owned_random(env.SeededRandom(0)):
        got = mso.fmin(cost, list(x0), xtol=tol, ftol=tol, maxiter=maxiter, full_output=1, disp=0)
    refs = [('scipy.optimize.fmin', so.fmin(cost, list(x0), xtol=tol, ftol=tol, maxiter=maxiter,
                                             full_output=1, disp=0)),
            ('_scipy060optimize.fmin', old.fmin(cost, list(x0), xtol=tol, ftol=tol, maxiter=maxiter,
                                                full_output=1, disp=0))]
    for rname, ref in refs:
        bad = []
        if int(got[2]) != int(ref[2]):
            bad.append('iter %d vs %d' % (got[2], ref[2]))
        if int(got[3]) != int(ref[3]):
            bad.append('funcalls %d vs %d' % (got[3], ref[3]))
        if _same(got[0], ref[0]) is None:
            bad.append('xopt %r vs %r' % (_fl(got[0]), _fl(ref[0])))
        if _same([got[1]], [ref[1]]) is None:
            bad.append('fopt %r vs %r' % (float(got[1]), float(ref[1])))
        if rname.startswith('scipy') and int(got[4]) != int(ref[4]):
            bad.append('warnflag %d vs %d' % (got[4], ref[4]))
        if T is not None:
            T.count('transitions')
            T.hist('fmin_warnflag', int(got[4]))
        if bad and any(v == 0 for v in x0):
            sim0 = np.array(rnm.initial_simplex(list(x0), MYSTIC_ZDELT))
            alt = so.fmin(cost, list(x0), xtol=tol, ftol=tol, maxiter=maxiter, full_output=1, disp=0, initial_simplex=sim0)
            if (int(alt[2]), int(alt[3])) == (int(got[2]), int(got[3])) and _same(got[0], alt[0]) and _same([got[1]], [alt[1]]) \
                    and (int(refs[0][1][2]), int(refs[0][1][3])) == (int(ref[2]), int(ref[3])):
                out.append(({'solver': 'fmin', 'clause': 'initial_simplex_zero_coordinate', 'reference': rname},
                            'mystic fmin vs %s on %s from %r (xtol=ftol=%g, maxiter=%r): %s || scipy.optimize.fmin agrees with mystic '
                            'once it is given the initial simplex mystic builds (vertex %r instead of 0.00025 for a zero coordinate)'
                            % (rname, cname, x0, tol, maxiter, '; '.join(bad), MYSTIC_ZDELT)))
                continue
        if bad:
            out.append(({'solver': 'fmin', 'clause': 'wrapper_vs_reference', 'reference': rname},
                        'mystic fmin vs %s on %s from %r (xtol=ftol=%g, maxiter=%r): %s'
                        % (rname, cname, x0, tol, maxiter, '; '.join(bad))))
    if T is not None:
        T.state(('fmin', cname, tuple(x0), tol, maxiter, tuple(_fl(got[0])), int(got[2]), int(got[3])))
    return out


# ===================================================================== Powell
def pw_case(T, cname, x0, tol, maxiter, direc=None, dname=None):
    from mystic.solvers import PowellDirectionalSolver
    from mystic.termination import NormalizedChangeOverGeneration as NCOG
    cost = COSTS[cname]
    out = []
    n = len(x0)
    try:
        recs = list(rpw.powell(cost, list(x0), tol, tol, maxiter, None, direc=None if direc is None else np.array(direc, dtype=float)))
        ref_exc = None
    except Exception as e:   # the shared Brent may give up on a plateau: then both must
        recs, ref_exc = [], type(e).__name__
    with env.owned_random(env.SeededRandom(0)):
        s = PowellDirectionalSolver(n)
        s.SetInitialPoints(list(x0))
        s.SetEvaluationLimits(maxiter, None)
        s.SetTermination(NCOG(tol, 2))
        rec = Recorder(cost)
        s.SetObjective(rec)
        if ref_exc is not None:
            try:
                for _ in range(100000):
                    if s.Step(xtol=tol, **({'direc': _fresh(direc)} if direc is not None and _ == 0 else {})):
                        break
                got = None
            except Exception as e:
                got = type(e).__name__
            if T is not None:
                T.hist('powell_outcome', 'raised ' + ref_exc)
            if got != ref_exc:
                out.append(({'solver': 'Powell', 'clause': 'step_vs_reference', 'branch': 'exception'},
                            'reference loop raised %s on %s from %r, solver raised %r' % (ref_exc, cname, x0, got)))
            return out
        prev = None
        for kind, r in recs:
            if kind == 'extra':
                prev = r
                if T is not None:
                    T.hist('powell_branch', r['branch'])
                    if r['t'] == 0.0:
                        T.hist('powell_tie', 't==0')
                    if r['fe'] == recs_f0(recs, r['iter']):
                        T.hist('powell_tie', 'fE==f0')
                continue
            first = not s._stepmon._x
            msg = s.Step(xtol=tol, **({'direc': _fresh(direc)} if direc is not None and first else {}))
            if T is not None:
                T.count('transitions')
                T.state(('pw', kind, tuple(_fl(r['x'])), r['fval'], dname))
            bad = []
            a = _same(s.population[0], r['x'])
            b = _same([s.popEnergy[0]], [r['fval']])
            if a is None:
                bad.append('x %r, reference %r' % (_fl(s.population[0]), _fl(r['x'])))
            if b is None:
                bad.append('fval %r, reference %r' % (float(s.popEnergy[0]), r['fval']))
            if T is not None and a and b:
                T.hist('powell_agreement', 'bits' if a == b == 'bits' else 'rounding')
            if s.evaluations != r['ncalls'] or rec.n != r['ncalls']:
                bad.append('evaluations reported %d, real calls %d, reference %d' % (s.evaluations, rec.n, r['ncalls']))
            if kind == 'lines':
                x1, fx, bigind, delta = s._PowellDirectionalSolver__internals
                if _same(x1, r['p0']) is None or _same([fx], [r['f0']]) is None:
                    bad.append('iteration start (x1, fx) = (%r, %r), reference (%r, %r)'
                               % (_fl(x1), float(fx), _fl(r['p0']), r['f0']))
                if int(bigind) != r['bigind'] or _same([delta], [r['delta']]) is None:
                    bad.append('(bigind, delta) = (%r, %r), reference (%r, %r)' % (bigind, float(delta), r['bigind'], r['delta']))
                if s.generations != r['iter']:
                    bad.append('generations %d, reference iteration %d' % (s.generations, r['iter']))
                if bool(msg) != bool(r['stop']):
                    bad.append('Step returned %r, reference stop=%r' % (msg, r['stop']))
                want = prev['direc'] if prev is not None else (np.eye(n) if direc is None else np.array(direc, dtype=float))
                if _same(np.asarray(s._direc, dtype=float), want) is None:
                    bad.append('direction set %r, reference %r' % (np.asarray(s._direc).tolist(), want.tolist()))
                if prev is not None:
                    # the step monitor holds the point the iteration started from (after the extrapolation step)
                    hx = s._stepmon._x[-1] if not r['stop'] else s._stepmon._x[-2]
                    hy = s._stepmon._y[-1] if not r['stop'] else s._stepmon._y[-2]
                    if _same(hx, prev['x']) is None or _same([hy], [prev['fval']]) is None:
                        bad.append('point after the extrapolation step (%r, %r), reference (%r, %r)'
                                   % (_fl(hx), float(hy), _fl(prev['x']), prev['fval']))
                if T is not None and r['stop']:
                    T.hist('powell_stop', r['stop'])
            if (bad and kind == 'lines' and r['iter'] == 1 and r['stop'] == 'converged' and not msg
                    and len(bad) == 1 and bad[0].startswith('Step returned')):
                # Not a violation (DESIGN.md section 5, C08): the statement asks Powell to reproduce the method
                # "step for step"; every step up to here agreed.  mystic's documented stop rule
                # NormalizedChangeOverGeneration(ftol, gtol=2) needs gtol+1 history entries, so it cannot stop
                # after the first iteration where the scipy loop may.  Recorded, not raised.
                if T is not None:
                    T.hist('powell_info', 'reference_stops_after_iteration_1_mystic_stop_rule_needs_gtol_plus_1_entries')
                break
            if bad:
                br = prev['branch'] if prev is not None else 'first'
                sig = {'solver': 'Powell', 'clause': 'step_vs_reference', 'branch': br}
                if dname is not None:
                    sig['direc'] = dname
                out.append((sig,
                            'PowellDirectionalSolver on %s from %r (xtol=ftol=%g, maxiter=%r, direc=%s), iteration %s '
                            '[extrapolation branch before it: %s]: %s'
                            % (cname, x0, tol, maxiter, dname, r.get('iter', 0), br, '; '.join(bad))))
                break
    return out


def recs_f0(recs, it):
    for kind, r in recs:
        if kind == 'lines' and r['iter'] == it:
            return r['f0']
    return None


def fminpow_case(T, cname, x0, tol, maxiter, direc=None, dname=None):
    import mystic.scipy_optimize as mso
    import mystic._scipy060optimize as old
    cost = COSTS[cname]
    out = []

    def call(f):
        try:
            return f(), None
        except Exception as e:
            return None, type(e).__name__
    with env.owned_random(env.SeededRandom(0)):
        got, ge = call(lambda: mso.fmin_powell(cost, list(x0), xtol=tol, ftol=tol, maxiter=maxiter,
                                               full_output=1, disp=0, direc=_fresh(direc)))
    ref, re_ = call(lambda: old.fmin_powell(cost, list(x0), xtol=tol, ftol=tol, maxiter=maxiter,
                                            full_output=1, disp=0, direc=None if direc is None else np.array(direc, dtype=float)))
    if T is not None:
        T.count('transitions')
    bad = []
    if ge or re_:
        if ge != re_:
            bad.append('raised %r vs %r' % (ge, re_))
    else:
        # mystic: x, fval, iter, fcalls, warnflag, direc ; scipy0.6: x, fval, direc, iter, fcalls, warnflag
        if int(got[2]) != int(ref[3]):
            bad.append('iter %d vs %d' % (got[2], ref[3]))
        if int(got[3]) != int(ref[4]):
            bad.append('funcalls %d vs %d' % (got[3], ref[4]))
        if _same(got[0], ref[0]) is None:
            bad.append('xopt %r vs %r' % (_fl(got[0]), _fl(ref[0])))
        if _same([got[1]], [ref[1]]) is None:
            bad.append('fopt %r vs %r' % (float(got[1]), float(ref[1])))
        if _same(np.asarray(got[5], dtype=float), np.asarray(ref[2], dtype=float)) is None:
            bad.append('direc %r vs %r' % (np.asarray(got[5]).tolist(), np.asarray(ref[2]).tolist()))
        if T is not None:
            T.hist('fmin_powell_warnflag', int(got[4]))
            T.state(('fminpow', cname, tuple(x0), tol, maxiter, tuple(_fl(got[0])), int(got[2]), int(got[3]), dname))
    if bad and not (ge or re_) and int(ref[3]) == 1 and int(ref[5]) == 0 and int(got[2]) >= 2:
        # same reading as in pw_case: the documented gtol=2 stop rule, not a step of the method
        if T is not None:
            T.hist('powell_info', 'fmin_powell_runs_past_iteration_1_where_reference_converged')
    elif bad:
        sig = {'solver': 'fmin_powell', 'clause': 'wrapper_vs_reference', 'reference': '_scipy060optimize.fmin_powell'}
        if dname is not None:
            sig['direc'] = dname
        out.append((sig,
                    'mystic fmin_powell vs vendored scipy-0.6 fmin_powell on %s from %r (xtol=ftol=%g, maxiter=%r, direc=%s): %s'
                    % (cname, x0, tol, maxiter, dname, '; '.join(bad))))
    return out


def _fresh(direc):
    """the caller's direction set, built anew for every call (the solver may work in the array it is given)"""
    if direc is None:
        return None
    if isinstance(direc, np.ndarray):
        return direc.copy()
    return [list(r) for r in direc] if isinstance(direc, list) else tuple(tuple(r) for r in direc)


def direc_variants(n):
    """user-supplied initial direction sets, by the type they are written in"""
    eye = [[1 if i == j else 0 for j in range(n)] for i in range(n)]
    out = [('int_lists_identity', eye),
           ('int_tuples_reversed', tuple(tuple(r) for r in eye[::-1])),
           ('int_array_signs', np.array([[(1 if j <= i else 0) * (-1 if (i + j) % 2 else 1) for j in range(n)] for i in range(n)], dtype=int)),
           ('float_array_skew', np.array([[1.0 if i == j else (0.5 if j == i + 1 else 0.0) for j in range(n)] for i in range(n)]))]
    return out


def pw_direc_case(T, cname, x0, tol, maxiter):
    out = []
    for dname, d in direc_variants(len(x0)):
        out += pw_case(T, cname, x0, tol, maxiter, d, dname)
    return out


def fminpow_direc_case(T, cname, x0, tol, maxiter):
    out = []
    for dname, d in direc_variants(len(x0)):
        out += fminpow_case(T, cname, x0, tol, maxiter, d, dname)
    return out


def _library_frame(e):
    """'file:line' of the innermost frame of the traceback that lies in the mystic tree under
    test, or None (then the exception is the harness's own and must surface as a fault)"""
    import traceback, os, mystic
    root = os.path.dirname(os.path.abspath(mystic.__file__))
    hit = None
    for fr in traceback.extract_tb(e.__traceback__):
        if os.path.abspath(fr.filename).startswith(root):
            hit = '%s:%d' % (os.path.relpath(fr.filename, os.path.dirname(root)), fr.lineno)
    return hit


def _guarded(fn, what):
    def run(T, cname, x0, tol, maxiter):
        try:
            return fn(T, cname, x0, tol, maxiter)
        except (tree.Diverged, env.UnownedRandomness):
            raise
        except Exception as e:
            where = _library_frame(e)
            if where is None:
                raise
            return [({'solver': what, 'clause': 'raised', 'error': type(e).__name__},
                     '%s on %s from %r (xtol=ftol=%g, maxiter=%r) raised %s: %s at %s'
                     % (what, cname, x0, tol, maxiter, type(e).__name__, e, where))]
    return run


LOCAL = {'nm': _guarded(nm_case, 'nm'), 'nm_adaptive': _guarded(nm_adaptive_case, 'nm_adaptive'), 'fmin': _guarded(fmin_case, 'fmin'),
         'powell': _guarded(pw_case, 'powell'), 'fmin_powell': _guarded(fminpow_case, 'fmin_powell'),
         'powell_direc': _guarded(pw_direc_case, 'powell_direc'), 'fmin_powell_direc': _guarded(fminpow_direc_case, 'fmin_powell_direc')}


def shard_local(item):
    _, cname, x0 = item
    T = Tally()
    for tol in TOLS:
        for maxiter in MAXITERS:
            for what in ('nm', 'nm_adaptive', 'fmin', 'powell', 'fmin_powell', 'powell_direc', 'fmin_powell_direc'):
                if what == 'nm_adaptive' and (len(x0) == 2 or tol < 1e-4):
                    continue
                if what.endswith('_direc') and (tol != 1e-4 or maxiter == 5):     # user-supplied direction sets: one tolerance, maxiter None / 17
                    continue
                T.count('traces')
                T.nontriv((what, cname, tuple(x0), tol, maxiter))
                for sig, detail in LOCAL[what](T, cname, x0, tol, maxiter):
                    T.violate(sig, {'what': what, 'cost': cname, 'x0': list(x0), 'tol': tol, 'maxiter': maxiter}, detail)
    T.sample({'what': 'nm+powell', 'cost': cname, 'x0': list(x0), 'tols': list(TOLS), 'maxiters': list(MAXITERS)}, limit=1)
    return T


# ===================================================================== DE: one trial
class Rng(env.ScriptedRandom):
    """ScriptedRandom that also keeps what was asked (the list given to sample) and the
    *values* answered; optionally thins the answers of big sample() calls"""

    def __init__(self, chooser, unit, sample_cap=None):
        env.ScriptedRandom.__init__(self, chooser, unit=unit)
        self.calls = []
        self.sample_cap = sample_cap

    def reset(self, chooser):
        self.ch = chooser
        self.log = []
        self.calls = []

    def random(self):
        v = self.unit[self.ch.choose(len(self.unit), 'random')]
        self.calls.append(('random', v))
        return v

    def randrange(self, start, stop=None, step=1):
        v = env.ScriptedRandom.randrange(self, start, stop, step)
        self.calls.append(('randrange', v, (start, stop, step)))
        return v

    def sample(self, population, k):
        population = list(population)
        n = len(population)
        total = math.perm(n, k)
        if total <= 0:
            raise ValueError("Sample larger than population or is negative")
        if self.sample_cap and total > self.sample_cap:
            c = self.sample_cap
            opts = sorted(set([0, 1, total - 1] + [(total * j) // (c - 1) for j in range(1, c - 1)]))[:c]
            idx = opts[self.ch.choose(len(opts), 'sample')]
        else:
            idx = self.ch.choose(total, 'sample')
        pool = list(range(n))
        out = []
        rem = total
        for j in range(k):
            rem //= (n - j)
            q, idx = divmod(idx, rem)
            out.append(pool.pop(q))
        res = [population[i] for i in out]
        self.calls.append(('sample', list(res), list(population), k))
        return res


def encoded_population(NP, dim):
    """entry (m, j) = 16^m * (4+j)/4: every admissible base + F*difference has a unique
    expansion in powers of 16, and a value taken from the wrong component breaks it"""
    pop = [[16.0 ** m * (4 + j) / 4.0 for j in range(dim)] for m in range(NP)]
    best = [16.0 ** NP * (4 + j) / 4.0 for j in range(dim)]
    return pop, best


def _symmetry_class(name, r):
    kind, k = rde.family(name)
    if k == 4:
        return (frozenset(r[:2]), frozenset(r[2:]))
    if k == 5:
        return (r[0], frozenset(r[1:3]), frozenset(r[3:]))
    return tuple(r)


def decode_tables(name, NP, dim, F):
    """tables[cand][i] = {round(value, 4): set of member tuples r giving that mutant component};
    also the harness self-check that decoding is unambiguous (distinct member choices give
    distinct values unless they only swap interchangeable roles, no mutant equals the parent).
    The values have at most 4 decimals (F in {0.8, 0.5, 0.75} times multiples of 1/4), so rounding to 4 decimals is exact bucketing."""
    pop, best = encoded_population(NP, dim)
    k = rde.nsample(name)
    tables = []
    for cand in range(NP):
        others = [m for m in range(NP) if m != cand]
        row = []
        for i in range(dim):
            seen, tab = {}, {}
            for r in itertools.permutations(others, k):
                v = rde.mutant_component(name, pop, best, cand, r, F, i)
                key = round(v, 4)
                cls = _symmetry_class(name, r)
                if seen.setdefault(key, cls) != cls:
                    raise AssertionError('encoding ambiguous: %s NP=%d comp %d value %r from %r and %r'
                                         % (name, NP, i, v, seen[key], cls))
                tab.setdefault(key, set()).add(r)
            if round(pop[cand][i], 4) in seen:
                raise AssertionError('encoding ambiguous: a mutant equals the parent (%s NP=%d)' % (name, NP))
            row.append(tab)
        tables.append(row)
    return tables


def explain_fast(tables, pop, cand, trial):
    """same verdict as ref.de.explain, by table look-up"""
    parent = pop[cand]
    M = frozenset(i for i in range(len(trial)) if trial[i] != parent[i])
    good = None
    for i in M:
        rs = tables[cand][i].get(round(trial[i], 4), ())
        good = set(rs) if good is None else (good & set(rs))
        if not good:
            break
    return M, sorted(good or ())


def solver_class(kind):
    import mystic.differential_evolution as mde
    return mde.DifferentialEvolutionSolver if kind == 'DE' else mde.DifferentialEvolutionSolver2


def judge_trial(name, NP, dim, cand, CR, F, pop, best, trial, calls, tables=None):
    """-> (list of (clause, text), info dict)"""
    bad = []
    info = {'rule': None, 'M': None}
    k = rde.nsample(name)
    samples = [c for c in calls if c[0] == 'sample']
    ranges = [c for c in calls if c[0] == 'randrange']
    draws = [c[1] for c in calls if c[0] == 'random']
    # --- chosen members: distinct, not the candidate
    if len(samples) != 1:
        bad.append(('members', 'random.sample called %d times (the strategy draws its %d members once)' % (len(samples), k)))
    else:
        _, res, given, kk = samples[0]
        if cand in given or len(set(given)) != len(given) or any(not (0 <= m < NP) for m in given):
            bad.append(('members', 'members are drawn from %r: must be distinct indices of the population without the candidate %d' % (given, cand)))
        if kk != k:
            bad.append(('members', '%d members drawn, the strategy is defined with %d' % (kk, k)))
    if tables is not None:
        M, good = explain_fast(tables, pop, cand, trial)
    else:
        M, good = rde.explain(name, pop, best, cand, F, trial)
    info['M'] = M
    if M and not good:
        i = min(M)
        bad.append(('component_source', 'trial %r: mutated component(s) %s are not base + F*difference for any choice of %d distinct '
                    'members other than the candidate (e.g. trial[%d]=%r, parent[%d]=%r)'
                    % (trial, sorted(M), k, i, trial[i], i, pop[cand][i])))
    # --- mutated positions follow the crossover rule
    if len(ranges) != 1 or ranges[0][2][:2] not in ((dim, None), (0, dim)):
        bad.append(('crossover', 'random.randrange calls %r: the rule needs exactly one start index in range(%d)' % (ranges, dim)))
    else:
        n = ranges[0][1]
        accepted = [rde.RULES[name]] + (['exp'] if name in rde.EITHER else [])
        match = []
        for rule in ('exp', 'bin'):
            m = rde.mask(rule, n, draws, CR, dim)
            if m is not None and m[0] == M:
                match.append(rule)
        info['rule'] = '+'.join(match) if match else 'none'
        if not any(r in accepted for r in match):
            exp = {r: (sorted(rde.mask(r, n, draws, CR, dim)[0]) if rde.mask(r, n, draws, CR, dim) else 'answers insufficient')
                   for r in accepted}
            bad.append(('crossover', 'mutated positions %s; start index n=%d, random() answers %r, CR=%r give %r'
                        % (sorted(M), n, draws, CR, exp)))
    return bad, info


def shard_trial(item):
    _, kind, name, NP, dim, crfs = item
    import mystic.strategy as mstrat
    T = Tally()
    k = rde.nsample(name)
    if NP - 1 < k:
        # not enough other members: random.sample must refuse (no trial can be formed)
        s = solver_class(kind)(dim, NP)
        try:
            with env.owned_random(env.SeededRandom(0)):
                getattr(mstrat, name)(s, 0)
            T.violate({'solver': kind, 'clause': 'members', 'strategy': name, 'case': 'too_few_members'},
                      {'what': 'trial_small', 'kind': kind, 'name': name, 'NP': NP, 'dim': dim},
                      '%s formed a trial with NP=%d although it needs %d distinct other members' % (name, NP, k))
        except ValueError:
            T.hist('de_trial_outcome', 'refused: NP-1 < members needed')
        T.count('traces'); T.count('transitions'); T.count('states')
        return T
    strat = getattr(mstrat, name)
    for CR, F in crfs:
        tables = decode_tables(name, NP, dim, F)
        unit = tuple(sorted(set((0.0, CR, 0.999))))
        pop0, best0 = encoded_population(NP, dim)
        s = solver_class(kind)(dim, NP)
        if s.nPop != NP:
            raise AssertionError('solver adjusted NP to %d' % s.nPop)
        rng = Rng(None, unit)
        with env.owned_random(rng):
            for cand in range(NP):
                def run(ch):
                    rng.reset(ch)
                    s.population = [list(v) for v in pop0]
                    s.bestSolution = list(best0)
                    s.probability = CR
                    s.scale = F
                    if kind == 'DE':
                        s.trialSolution = [0.0] * dim
                    else:
                        s.trialSolution = [[0.0] * dim for _ in range(NP)]
                    try:
                        strat(s, cand)
                    except tree.Diverged:
                        raise
                    except Exception as e:
                        where = _library_frame(e)
                        if where is None:
                            raise
                        return ('RAISED', '%s: %s at %s' % (type(e).__name__, e, where)), list(rng.calls)
                    tr = s.trialSolution if kind == 'DE' else s.trialSolution[cand]
                    return [float(v) for v in tr], list(rng.calls)
                for ch, (trial, calls) in tree.explore(run):
                    T.count('traces')
                    T.count('transitions', len(ch.trace))
                    if trial[0] == 'RAISED':
                        T.hist('de_trial_outcome', 'raised')
                        T.violate({'solver': kind, 'clause': 'raised', 'strategy': name},
                                  {'what': 'trial', 'kind': kind, 'name': name, 'NP': NP, 'dim': dim, 'cand': cand,
                                   'CR': CR, 'F': F, 'choices': ch.choices},
                                  '%s (%s, NP=%d, dim=%d, candidate %d, CR=%r, F=%r) raised %s [answers %r]'
                                  % (name, kind, NP, dim, cand, CR, F, trial[1], [c[:2] for c in calls]))
                        continue
                    T.state((name, NP, dim, F, cand, tuple(trial)))
                    bad, info = judge_trial(name, NP, dim, cand, CR, F, pop0, best0, trial, calls, tables)
                    if s.population != pop0 or list(s.bestSolution) != best0:
                        bad.append(('side_effect', 'the strategy changed the population or bestSolution'))
                    if kind == 'DE2' and any(s.trialSolution[m] != [0.0] * dim for m in range(NP) if m != cand):
                        bad.append(('side_effect', 'the strategy wrote into the trial slot of another member'))
                    M = info['M']
                    if M:
                        T.nontriv((kind, name, NP, dim, CR, F, cand, tuple(ch.choices)))
                    T.hist('de_trial_mutated_positions', len(M))
                    T.hist('de_rule_matched:' + name, info['rule'])
                    for clause, text in bad:
                        T.violate({'solver': kind, 'clause': clause, 'strategy': name},
                                  {'what': 'trial', 'kind': kind, 'name': name, 'NP': NP, 'dim': dim, 'cand': cand,
                                   'CR': CR, 'F': F, 'choices': ch.choices},
                                  '%s (%s, NP=%d, dim=%d, candidate %d, CR=%r, F=%r): %s [answers %r]'
                                  % (name, kind, NP, dim, cand, CR, F, text, [c[:2] for c in calls]))
    T.sample({'what': 'trial', 'solver': kind, 'strategy': name, 'NP': NP, 'dim': dim, 'CR_F': list(crfs),
              'population': encoded_population(NP, dim)[0]}, limit=1)
    return T


def replay_trial(case):
    import mystic.strategy as mstrat
    kind, name, NP, dim, cand, CR, F = (case[k] for k in ('kind', 'name', 'NP', 'dim', 'cand', 'CR', 'F'))
    pop0, best0 = encoded_population(NP, dim)
    s = solver_class(kind)(dim, NP)
    ch = tree.ReplayChooser(case['choices'])
    rng = Rng(ch, tuple(sorted(set((0.0, CR, 0.999)))))
    s.population = [list(v) for v in pop0]
    s.bestSolution = list(best0)
    s.probability, s.scale = CR, F
    with env.owned_random(rng):
        try:
            getattr(mstrat, name)(s, cand)
        except Exception as e:
            return ['raised %s: %s (answers %r)' % (type(e).__name__, e, [x[:2] for x in rng.calls])]
    tr = s.trialSolution if kind == 'DE' else s.trialSolution[cand]
    trial = [float(v) for v in tr]
    bad, info = judge_trial(name, NP, dim, cand, CR, F, pop0, best0, trial, rng.calls)
    if s.population != pop0 or list(s.bestSolution) != best0:
        bad.append(('side_effect', 'the strategy changed the population or bestSolution'))
    return ['%s: %s (trial %r, answers %r)' % (c, t, trial, [x[:2] for x in rng.calls]) for c, t in bad]


# ===================================================================== DE: whole generations
def dsteps(x):
    """integer plateaus: different vectors tie exactly"""
    return float(sum(math.floor(v) ** 2 for v in x))


def dsphere(x):
    return float(sum((v - 0.25) ** 2 for v in x))


def dnan(x):
    """not a number on a half space (e.g. a sqrt of a negative argument): a NaN trial is not 'of strictly lower energy'"""
    return float('nan') if x[0] < 0 else float(sum(math.floor(v) ** 2 for v in x))


GCOSTS = {'dsteps': dsteps, 'dsphere': dsphere, 'dnan': dnan}


def start_population(NP, dim):
    """dyadic, distinct, several members on the same plateau of dsteps"""
    vals = [1.5, -0.75, 2.25, 0.5, -1.25, 1.75, 3.0, -2.5]
    return [[vals[(2 * m + 3 * j) % len(vals)] + 0.125 * ((m + j) % 3) for j in range(dim)] for m in range(NP)]


def _snap(s):
    return dict(pop=[_fl(v) for v in s.population], energy=_fl(s.popEnergy), best=_fl(s.bestSolution),
                best_e=float(s.bestEnergy), gen=[len(g) for g in s.genealogy], evals=s.evaluations)


def _veq(a, b):
    return a == b or _same(a, b) is not None


def gen_execution(kind, name, NP, dim, CR, F, cname, G, cap, ch):
    """one scripted execution; returns (violations [(clause, text)], info)"""
    info = {'replaced': 0, 'ties': 0, 'best_updates': 0, 'rule': None, 'steps': 0}
    try:
        return _gen_execution(kind, name, NP, dim, CR, F, cname, G, cap, ch, info), info
    except (tree.Diverged, env.UnownedRandomness, AssertionError):
        raise
    except Exception as e:     # the library raising inside a generation is an outcome, not a harness fault
        where = _library_frame(e)
        if where is None:
            raise
        return [('raised', '%s: %s at %s' % (type(e).__name__, e, where))], info


def _gen_execution(kind, name, NP, dim, CR, F, cname, G, cap, ch, info):
    import mystic.strategy as mstrat
    from mystic.termination import VTR
    cost = GCOSTS[cname]
    bad = []
    log = []

    def logged(x):
        v = cost(x)
        log.append((_fl(x), float(v)))
        return v
    unit = tuple(sorted(set((0.0, CR, 0.999))))
    rng = Rng(ch, unit, sample_cap=cap)
    with env.owned_random(rng):
        s = solver_class(kind)(dim, NP)
        s.population = [list(v) for v in start_population(NP, dim)]
        s.SetEvaluationLimits(10 ** 6, 10 ** 9)
        s.SetTermination(VTR(-1.0))
        s.SetObjective(logged)
        kw = dict(strategy=getattr(mstrat, name), CrossProbability=CR, ScalingFactor=F)
        s.Step(**kw)
        info['steps'] += 1
        # generation 0: every member is evaluated as it stands
        pop = start_population(NP, dim)
        energy = [cost(v) for v in pop]
        st = _snap(s)
        model = rde.select([list(v) for v in pop], [float('inf')] * NP, list(pop[0]), float('inf'), pop, energy)
        if rng.calls:
            bad.append(('generation0', 'generation 0 drew random numbers: %r' % (rng.calls[:3],)))
        if not (all(_veq(a, b) for a, b in zip(st['pop'], model[0])) and _veq(st['energy'], model[1])
                and _veq(st['best'], model[2]) and _veq([st['best_e']], [model[3]]) and st['evals'] == NP == len(log)):
            bad.append(('generation0', 'after the initial evaluation: solver %r, reference %r' % (st, model[:4])))
            return bad
        cur = (model[0], model[1], model[2], model[3])
        for g in range(1, G + 1):
            before = _snap(s)
            ncalls, nlog = len(rng.calls), len(log)
            s.Step(**kw)
            info['steps'] += 1
            after = _snap(s)
            calls = [c[:2] for c in rng.calls[ncalls:]]
            evald = log[nlog:]
            # --- selection, judged on what was really evaluated
            if len(evald) != NP or after['evals'] - before['evals'] != NP:
                bad.append(('selection', 'generation %d: %d evaluations logged, counter advanced by %d, population %d'
                            % (g, len(evald), after['evals'] - before['evals'], NP)))
                return bad
            trials = [e[0] for e in evald]
            values = [e[1] for e in evald]
            sel = rde.select(before['pop'], before['energy'], before['best'], before['best_e'], trials, values)
            for c in range(NP):
                lower = values[c] < before['energy'][c]
                if values[c] == before['energy'][c]:
                    info['ties'] += 1
                    if trials[c] != before['pop'][c]:
                        info['ties_distinct'] = info.get('ties_distinct', 0) + 1
                info['replaced'] += bool(lower)
                ok = _veq(after['pop'][c], sel[0][c]) and _veq([after['energy'][c]], [sel[1][c]])
                grew = after['gen'][c] - before['gen'][c]
                if not ok or grew != int(lower):
                    bad.append(('selection', 'generation %d member %d: trial %r energy %r against member %r energy %r; afterwards member %r '
                                'energy %r, genealogy grew by %d (replace iff strictly lower, by the trial)'
                                % (g, c, trials[c], values[c], before['pop'][c], before['energy'][c],
                                   after['pop'][c], after['energy'][c], grew)))
                    break
            if not (_veq(after['best'], sel[2]) and _veq([after['best_e']], [sel[3]])):
                bad.append(('best', 'generation %d: best (%r, %r) -> (%r, %r); trials %r with energies %r give (%r, %r)'
                            % (g, before['best'], before['best_e'], after['best'], after['best_e'], trials, values, sel[2], sel[3])))
            if sel[3] < before['best_e']:
                info['best_updates'] += 1
            # --- the trials themselves, against the reference generation fed the same answers
            accepted = [rde.RULES[name]] + (['exp'] if name in rde.EITHER and rde.RULES[name] != 'exp' else [])
            verdicts = []
            for rule in accepted:
                rp = rde.Replayer(calls)
                try:
                    ref = rde.generation(kind, name, rule, cur[0], cur[1], cur[2], cur[3], F, CR, cost, rp)
                    if not rp.done():
                        raise rde.Mismatch('%d recorded answers were not asked for' % (len(calls) - rp.i))
                except rde.Mismatch as e:
                    verdicts.append((rule, 'answers: %s' % e))
                    continue
                if not all(_veq(a, b) for a, b in zip(trials, ref[4])):
                    k = [i for i, (a, b) in enumerate(zip(trials, ref[4])) if not _veq(a, b)][0]
                    verdicts.append((rule, 'trial of member %d is %r, reference %r' % (k, trials[k], ref[4][k])))
                    continue
                verdicts.append((rule, None))
                info['rule'] = rule
                if not (all(_veq(a, b) for a, b in zip(after['pop'], ref[0])) and _veq(after['energy'], ref[1])
                        and _veq(after['best'], ref[2]) and _veq([after['best_e']], [ref[3]])):
                    bad.append(('generation_state', 'generation %d: state %r, reference %r' % (g, after, ref[:4])))
                cur = (ref[0], ref[1], ref[2], ref[3])
                break
            if not any(v[1] is None for v in verdicts):
                bad.append(('generation_trials', 'generation %d (%s semantics): %s [answers %r]'
                            % (g, 'in-place' if kind == 'DE' else 'invariant-generation',
                               '; '.join('%s rule: %s' % v for v in verdicts), calls)))
            if bad:
                return bad
    return bad


def shard_gen(item):
    _, kind, name, NP, dim, CR, F, cname, G, bound, cap = item
    T = Tally()
    outcomes = set()

    def run(ch):
        return gen_execution(kind, name, NP, dim, CR, F, cname, G, cap, ch)
    for ch, (bad, info) in tree.explore(run, bound=bound):
        T.count('traces')
        T.count('transitions', len(ch.trace) + info['steps'])
        T.count('de_members_replaced', info['replaced'])
        T.count('de_energy_ties', info['ties'])
        T.count('de_energy_ties_between_different_vectors', info.get('ties_distinct', 0))
        T.count('de_best_updates', info['best_updates'])
        T.hist('de_generation_rule:' + name, info['rule'])
        T.state((kind, name, NP, dim, CR, F, cname, tuple(ch.choices)))
        if ch.deviations and (info['replaced'] or info['ties']):
            T.nontriv((kind, name, NP, dim, CR, F, cname, tuple(ch.choices)))
        for clause, text in bad:
            T.violate({'solver': kind, 'clause': clause, 'strategy': name},
                      {'what': 'generation', 'kind': kind, 'name': name, 'NP': NP, 'dim': dim, 'CR': CR, 'F': F,
                       'cost': cname, 'G': G, 'cap': cap, 'choices': ch.choices},
                      '%s %s NP=%d dim=%d CR=%r F=%r cost=%s: %s [choices %r]' % (kind, name, NP, dim, CR, F, cname, text, ch.choices))
    T.sample({'what': 'generation', 'solver': kind, 'strategy': name, 'NP': NP, 'dim': dim, 'CR': CR, 'F': F,
              'cost': cname, 'generations': G, 'deviation_bound': bound, 'population': start_population(NP, dim)}, limit=1)
    return T


# ===================================================================== driver
def shard_pool(item):
    """large populations: what the strategy offers the random source as eligible members.  Every ordered k-subset of the
    offered pool is a possible answer, so 'distinct other members for every answer' holds iff the pool is exactly the other
    members, each once (the use made of the answer is judged at the small sizes by shard_trial)."""
    _, kind, name, NP, cands = item
    import mystic.strategy as mstrat
    T = Tally()
    dim = 2
    strat = getattr(mstrat, name)
    pop0 = [[float(i), float(-i)] for i in range(NP)]
    s = solver_class(kind)(dim, NP)
    rng = Rng(None, (0.0, 0.999), sample_cap=2)
    with env.owned_random(rng):
        for cand in cands:
            def run(ch):
                rng.reset(ch)
                s.population = [list(v) for v in pop0]
                s.bestSolution = list(pop0[1])
                s.probability, s.scale = 0.9, 0.8
                s.trialSolution = [0.0] * dim if kind == 'DE' else [[0.0] * dim for _ in range(NP)]
                strat(s, cand)
                return list(rng.calls)
            for ch, calls in tree.explore(run):
                T.count('traces'); T.count('transitions', len(ch.trace))
                for c in calls:
                    if c[0] != 'sample':
                        continue
                    pool = c[2]
                    T.state((name, NP, cand, len(pool)))
                    want = [i for i in range(NP) if i != cand]
                    if sorted(pool) != want:
                        extra = sorted(set(pool) - set(want)); lost = sorted(set(want) - set(pool))
                        T.violate({'solver': kind, 'clause': 'members', 'strategy': name, 'case': 'eligible_pool'},
                                  {'what': 'pool', 'kind': kind, 'name': name, 'NP': NP, 'cand': cand},
                                  '%s (%s, NP=%d, candidate %d): the members offered to sample() are not exactly the other members '
                                  '(offered although not eligible: %r; eligible but not offered: %r; duplicates: %d)'
                                  % (name, kind, NP, cand, extra[:5], lost[:5], len(pool) - len(set(pool))))
                T.nontriv((kind, name, NP, cand))
    T.hist('de_pool_cases', '%s NP=%d' % (kind, NP), len(cands))
    return T


def _dispatch(item):
    return {'local': shard_local, 'trial': shard_trial, 'gen': shard_gen, 'pool': shard_pool}[item[0]](item)


def run(ctx):
    th = ctx.thorough
    items = []
    # --- generation-level DE first (longest shards)
    # population size: the smallest that the strategy's number of sampled members allows, and the next one (thorough)
    gen_np = {2: (4, 5), 3: (4, 5), 4: (5, 6), 5: (6, 7)}
    gcrfs = ((0.9, 0.8), (0.5, 0.5))
    G = 2
    cap = 6
    gplan = []      # (NP index, dim, cost)
    if th:
        gplan = [(0, 1, 'dsteps'), (0, 2, 'dsteps'), (0, 3, 'dsteps'), (0, 2, 'dsphere'), (1, 2, 'dsteps')]
    else:
        gplan = [(0, 2, 'dsteps')]
    for ki, kind in enumerate(('DE', 'DE2')):
        for ni, name in enumerate(rde.NAMES):
            for npi, dim, cname in gplan:
                NP = gen_np[rde.nsample(name)][npi]
                # quick: one (CR,F) per (solver, strategy), alternating so that every strategy family
                # and both solvers meet both pairs; thorough: both pairs everywhere
                for CR, F in (gcrfs if th else (gcrfs[(ni // 2 + ni + ki) % 2],)):
                    items.append(('gen', kind, name, NP, dim, CR, F, cname, G, 2, cap))
            # boundary settings handed over as Step/Solve keywords (a zero is a legal CR and a legal F):
            # quick one of the two per (solver, strategy), thorough both plus (1, 1)
            edge = ((0.0, 0.8), (0.9, 0.0))
            npi, dim, cname = gplan[0]
            NP = gen_np[rde.nsample(name)][npi]
            for CR, F in ((edge + ((1.0, 1.0),)) if th else (edge[(ni + ki) % 2],)):
                items.append(('gen', kind, name, NP, dim, CR, F, cname, G, 2, cap))
            # a cost that returns NaN on a half space (selection must not let a NaN trial in)
            if th or ni in (1, 2, 7):
                items.append(('gen', kind, name, NP, dim, 0.9, 0.8, 'dnan', G, 2, cap))
    # --- trial-level DE
    if th:
        tplan = [(NP, d) for NP in (4, 5, 6) for d in (1, 2, 3)] + [(7, 1), (7, 2), (6, 4)]
        crfs = ((0.9, 0.8), (0.5, 0.5), (0.0, 0.75))
    else:
        tplan = [(NP, d) for NP in (4, 6) for d in (1, 2, 3)]
        crfs = ((0.9, 0.8), (0.5, 0.5))
    for kind in ('DE', 'DE2'):
        for name in rde.NAMES:
            for NP, dim in tplan:
                items.append(('trial', kind, name, NP, dim, crfs))
    # --- eligible members at population sizes past the small-integer cache (indices compared by value, not identity)
    pool_np = (258, 300, 1030) if th else (258, 300)
    for kind in ('DE', 'DE2'):
        for name in rde.NAMES:
            for NP in pool_np:
                cands = list(range(NP)) if NP == 258 else sorted(set(range(0, NP, 37)) | set(range(250, 262)) | {NP - 2, NP - 1})
                items.append(('pool', kind, name, NP, cands))
    # --- Nelder-Mead and Powell
    for cname in sorted(COSTS):
        for x0 in STARTS[cname] + (STARTS_T[cname] if th else []):
            items.append(('local', cname, x0))
    import os
    parts = os.environ.get('C08_PARTS')          # development aid: e.g. C08_PARTS=local,trial
    if parts:
        items = [it for it in items if it[0] in parts.split(',')]
        ctx.cap('C08_PARTS=%s: only those parts were run' % parts)
    # biggest first
    order = {'gen': 0, 'trial': 1, 'pool': 1, 'local': 2}
    items.sort(key=lambda it: (order[it[0]], -(it[3] if it[0] in ('gen', 'trial') else 0)))
    ctx.bounds = {
        'nm_powell': {'costs': sorted(COSTS), 'starts': {k: STARTS[k] + (STARTS_T[k] if th else []) for k in COSTS},
                      'xtol=ftol': list(TOLS), 'maxiter': list(MAXITERS), 'maxfun': None,
                      'compared': 'after every Step(): simplex, energies, evaluations, generations, stop / x, fval, '
                                  'x1, fx, bigind, delta, direction set, evaluations, generations, stop'},
        'de_trial': {'strategies': rde.NAMES, '(NP,dim)': tplan, 'candidate': 'all', '(CR,F)': list(crfs),
                     'solver': ['DE', 'DE2'], 'random()': '{0, CR, 0.999}', 'sample': 'every ordered subset',
                     'randrange': 'every index'},
        'de_pool': {'strategies': rde.NAMES, 'NP': list(pool_np), 'candidates': 'all for NP=258; every 37th, 250..261 and the last two otherwise',
                    'judged': 'the list handed to sample() is exactly the other members, each once'},
        'de_generation': {'strategies': rde.NAMES, 'NP_by_members_needed': gen_np,
                          '(NP index, dim, cost)': gplan,
                          '(CR,F)': list(gcrfs) if th else 'one of %r per (solver, strategy), alternating' % (list(gcrfs),),
                          'edge_(CR,F)_as_Step_keywords': '(0,0.8), (0.9,0) and (1,1)' if th else 'one of (0,0.8), (0.9,0) per (solver, strategy), alternating',
                          'generations_after_initial': G, 'deviation_bound': 2,
                          'sample_answers': 'all when <= %d ordered subsets, else %d spread over the lexicographic order' % (cap, cap)},
    }
    ctx.rule = ("NM/Powell: one case = (routine, cost, start, tolerance, maxiter), every iteration of it compared; all are counted "
                "non-trivial (each runs at least the initial evaluation and one iteration). DE trial: one case = one complete "
                "assignment of answers to sample/randrange/random for (solver, strategy, NP, dim, candidate, CR, F); non-trivial "
                "when the trial differs from its parent. DE generation: one case = one scripted execution (<= 2 non-default "
                "answers) of the initial evaluation plus 2 generations; non-trivial when an answer deviates and a member was "
                "replaced or tied")
    ctx.assumptions = [
        "unconstrained, no penalty, no bounds, scalar costs, serial map (the statement's scope)",
        "ties between simplex vertices are ordered stably (Lagarias et al. tie-breaking; numpy's argsort of <= 16 items is an insertion sort)",
        "Best1Bin is binomial, *Exp exponential (test-first loop, may mutate nothing); Rand1Bin, RandToBest1Bin, Best2Bin, "
        "Rand2Bin are accepted under either rule (DESIGN.md section 5) and the rule matched is recorded in the histograms",
        "mutate iff random() < CR (an answer equal to CR does not mutate)",
        "float comparisons tolerate |a-b| <= 1e-9*max(|a|,|b|) + 1e-12 ('to rounding'); the *_agreement histograms say how many were bit-identical",
    ]
    ctx.explanation = ("reference models: ref/nm.py, ref/powell.py (around mystic's own brent), ref/de.py; "
                       "scipy.optimize.fmin and the vendored scipy-0.6 fmin/fmin_powell for the wrappers")
    ctx.pmap(_dispatch, items)
    # --- vacuity guards required by the design
    if parts:
        return
    H = ctx.tally.h
    missing = [b for b in FIVE if not H.get('nm_branch', {}).get(b)]
    problems = []
    if missing:
        problems.append('Nelder-Mead branches never exercised: %s' % missing)
    if not H.get('nm_tie'):
        problems.append('no exact tie met by any Nelder-Mead comparison')
    for t in ('fr=fn', 'fr=f1', 'fcc=fn+1'):
        if not H.get('nm_tie', {}).get(t):
            problems.append('Nelder-Mead tie %s never met' % t)
    for b in ('no-gain', 'keep', 'replace'):
        if not H.get('powell_branch', {}).get(b):
            problems.append('Powell extrapolation branch %s never exercised' % b)
    if not H.get('powell_tie', {}).get('t==0'):
        problems.append('Powell: t == 0 never met')
    if not ctx.tally.n.get('de_energy_ties_between_different_vectors'):
        problems.append('DE: no energy tie between a trial and a different member')
    for p in problems:
        ctx.tally.notes.append('HARNESS-FAULT: vacuity guard: ' + p)
        ctx.tally.count('harness_faults')


def replay(case):
    what = case.get('what')
    if what in LOCAL:
        return [d for _, d in LOCAL[what](None, case['cost'], case['x0'], case['tol'], case['maxiter'])]
    if what == 'trial':
        return replay_trial(case)
    if what == 'trial_small':
        T = shard_trial(('trial', case['kind'], case['name'], case['NP'], case['dim'], ()))
        return [v['detail'] for v in T.violations.values()]
    if what == 'generation':
        ch = tree.ReplayChooser(case['choices'])
        bad, _ = gen_execution(case['kind'], case['name'], case['NP'], case['dim'], case['CR'], case['F'],
                               case['cost'], case['G'], case['cap'], ch)
        return ['%s: %s' % b for b in bad]
    return ['unknown replay case %r' % (case,)]
