"""C03 - hard constraints hold at every evaluation and for the reported result.

Engine E1 (histories on real solver objects, judged after every operation).  Enumerated, completely:

  solver {NM, Powell, DE, DE2}
  x constraint {pin, clamp, round, tie, symbolic-generated [pin1]} in a pure and an in-place variant
  x box/mode {no box; boxes x (tight,clip) in {(N,N),(T,N),(F,N),(N,T),(T,T)}}   (clip=False is outside the statement)
  x installation {configured before SetObjective; SetConstraints op before the first Step; SetConstraints op
                  after k Steps; SetConstraints op on a run already stopped by a limit, then continued;
                  SetConstraints(c) replacing another live constraint after k Steps}
  x stop {every Step boundary of an N-step run; Solve stopped by maxiter / maxfun in {1,2,3,5}
          (new=True limits when installed mid-run); Solve under the solver's default termination}
  x cost x start x DE seed [x penalty {none, ramp} on a reduced product].

'Ranges set twice' family (a few hundred executions): SetStrictRanges called a second time with a different box in
the same mode {tight=True, clip=True, both, default as a control} - before the first Step (constraint installed
before or after the second call) and between Steps - with a constraint that fits the final box and leaves the
first one {window clamp of every coordinate, affine tie, pin} x solver x variant; judged by clauses (1)-(3) against
the box in force (the final one).

Only constraints that are idempotent and map the box into itself are used (solverlab.compatible, mechanical).

Oracle (independent of the library: the constraint is restated as a predicate and cross-checked against a
harness-owned pure copy of the map; the objective is recomputed from the raw cost):
  (1) every cost call logged after the installation satisfies the constraint in force, exactly;
  (2) if the constraint was in force from the first iteration then, at every stop with a finite bestEnergy,
      bestSolution satisfies it and bestEnergy is the raw objective at bestSolution (inf outside the box);
  (3) differential: the pure and the in-place variant of one constraint give bit-identical traces (cost
      calls, best, energies, counters).  A divergence is accepted - and counted, not raised - only when the two
      runs, strictly before they diverged, stored different *non-reported* points such that the in-place run
      holds exactly the constrained images of the pure run's (the statement does not speak about them).
solution_history / population entries are not judged (the statement does not cover them).
"""
import math, re
import numpy as np
from mc import graph, solverlab, env, c03_lab
from mc.c03_lab import Lab3, split, compact
from mc.solverlab import Settings, inbox, INF
from mc.runner import Tally

MODES = [(None, None), (True, None), (False, None), (None, True), (True, True)]   # (tight, clip); clip=False excluded by the statement
PARTNER = {'pin': 'clamp', 'clamp': 'tie', 'round': 'pin', 'tie': 'round', 'symbolic': 'pin', 'pin1': 'clamp'}
LIMITS = [(1, None), (2, None), (3, None), (5, None), (None, 1), (None, 2), (None, 3), (None, 5)]


# ------------------------------------------------------------------ the constraints, restated as predicates
def holds(kind, x):
    """the statement 'c(x) == x' of each constraint of the alphabet, written as a predicate"""
    x = [float(v) for v in x]
    if kind == 'pin':
        return x[0] == 0.5
    if kind == 'pin1':
        return x[-1] == 1.25
    if kind == 'clamp':
        return x[0] <= 0.75
    if kind == 'round':
        return math.isinf(x[0]) or (x[0] == x[0] and x[0] == math.floor(x[0]))
    if kind == 'tie':
        return (x[1] == 0.5 * x[0] + 0.25) if len(x) > 1 else (x[0] <= 1.0)
    if kind == 'symbolic':
        return x[0] <= x[1] + 1.0
    if kind == 'window':
        return all(c03_lab.WINDOW[0] <= v <= c03_lab.WINDOW[1] for v in x)
    raise KeyError(kind)


def image(kind, x):
    """harness-owned pure copy of the map"""
    x = [float(v) for v in x]
    if kind == 'symbolic':
        f = solverlab.cached('symbolic_con', solverlab.symbolic_con)
        return [float(v) for v in f(list(x))]
    if kind == 'window':
        return [float(v) for v in c03_lab.Con3(kind, False)(list(x))]
    return [float(v) for v in solverlab.Con(kind, False)(list(x))]


def satisfied(kind, x):
    a = holds(kind, x)
    b = image(kind, x) == [float(v) for v in x]
    if a != b:
        raise AssertionError('C03 harness: predicate %r and pure copy %r disagree for %s at %r' % (a, b, kind, x))
    return a


def feq(a, b):
    return a == b or (a != a and b != b)


# ------------------------------------------------------------------ oracle
class Oracle(graph.Oracle):
    prop = 'C03'

    def __init__(self, lab):
        graph.Oracle.__init__(self, lab)
        cfg = lab.cfg
        self.st = c03_lab.Settings3(dict((k, v) for k, v in cfg.items() if k != 'constraint'))   # box + raw objective only
        self.cur = cfg.get('constraint')          # constraint symbol in force
        self.install = 'configured' if self.cur else None
        self.from_start = self.cur is not None    # in force from the first iteration and unchanged since
        self.stepped = False
        self.trace = []       # compared between the pure and the in-place variant
        self.pops = []        # not compared: used to explain a divergence
        self.calls_judged = 0
        self.best_judged = 0
        self.best_inf = 0
        self.midrun_best = [0, 0]   # [satisfied, not] - evidence only
        self.inf_best = [0, 0]      # [satisfied, not] at stops with a non-finite bestEnergy - evidence only
        self.abnormal = None
        self.stop_msg = None
        # per real iteration: (cost calls so far, stored points, constraint kinds in force so far) - used only to explain a divergence
        self.iters = []
        self.kinds_seen = [split(self.cur)[0]] if self.cur else []
        self.ranges_reset = 0     # SetStrictRanges operations seen (the 'ranges set twice' family)
        self.reset_midrun = False
        self.calls_at_reset = 0
        s = lab.solver
        inner = s._Step
        def probe(*a, **k):
            try:
                return inner(*a, **k)
            finally:
                self.iters.append((len(lab.cost.log),
                                   tuple(tuple(float(v) for v in np.asarray(m, dtype=float).ravel()) for m in s.population),
                                   tuple(self.kinds_seen),
                                   tuple(float(v) for v in np.asarray(s.bestSolution, dtype=float).ravel())))
        s._Step = probe

    def sig(self, clause, op):
        st = self.st
        kind, variant = split(self.cur)
        sig = {'clause': clause, 'variant': variant, 'install': self.install,
               'bounds': 'none' if st.box is None else ('box_as_constraint' if st.bounds_as_constraint() else 'box')}
        if self.ranges_reset:
            sig['ranges'] = 'set_again_midrun' if self.reset_midrun else 'set_again_before_first_step'
        return sig

    def after(self, op, outcome, b, a):
        lab, st = self.lab, self.st
        name = op[0]
        out = []
        if isinstance(outcome, tuple) and outcome and outcome[0] in ('RAISED', 'HORIZON'):
            # an exception / a runaway is neither an evaluation nor a report: the statement is silent (C05 judges stopping).
            # The history is judged up to here, counted in the 'abnormal' histogram, and the run is marked not exhaustive.
            self.abnormal = outcome[:3]
            return out
        if name == 'SetStrictRanges':
            st.update(op)              # the box in force is the last one set
            self.ranges_reset += 1
            self.reset_midrun = self.stepped
            self.calls_at_reset = b['ncalls']
        if name == 'SetConstraints':
            self.install = ('replaced_midrun' if self.stepped else 'replaced_before_first_step') if self.cur is not None \
                else ('installed_midrun' if self.stepped else 'installed_before_first_step')
            self.cur = op[1]
            self.from_start = (not self.stepped) and self.cur is not None
            if self.cur and split(self.cur)[0] not in self.kinds_seen:
                self.kinds_seen.append(split(self.cur)[0])
        calls = lab.cost.log[b['ncalls']:a['ncalls']]
        if name in ('Step', 'Solve'):
            self.stepped = True
            kind, variant = split(self.cur)
            lim = st.limits()
            if kind is not None:
                # (1) every evaluation made while the constraint is in force
                for x, v in calls:
                    self.calls_judged += 1
                    if not satisfied(kind, x):
                        out.append((self.sig('call_violates_constraint', name),
                                    'cost evaluated at %r which violates the %s constraint in force (c(x)=%r); call %d of this %s'
                                    % (x, kind, tuple(image(kind, x)), calls.index((x, v)) + 1, name)))
                        break
                best, bestE = a['best'], a['bestE']
                if self.from_start:
                    # (2) the reported solution and its energy
                    if isinstance(bestE, tuple):
                        out.append((self.sig('energy_not_scalar', name), 'bestEnergy is array-valued %r' % (bestE,)))
                    elif not np.isfinite(bestE):
                        self.best_inf += 1       # nothing better than inf/nan was found: no solution is being reported
                        self.inf_best[0 if satisfied(kind, best) else 1] += 1
                    else:
                        self.best_judged += 1
                        if not satisfied(kind, best):
                            out.append((self.sig('best_violates_constraint', name),
                                        'bestSolution %r (bestEnergy %r) violates the %s constraint in force since the first iteration (c(best)=%r)'
                                        % (best, bestE, kind, tuple(image(kind, best)))))
                        else:
                            want = INF if (lim is not None and not inbox(best, lim)) else st.objective_at(best, lab.cfg['cost'])
                            if not feq(want, bestE):
                                out.append((self.sig('best_energy_mismatch', name),
                                            'bestEnergy=%r but the objective at the reported (constrained) bestSolution %r is %r'
                                            % (bestE, best, want)))
                else:
                    if not isinstance(bestE, tuple) and np.isfinite(bestE):
                        self.midrun_best[0 if satisfied(kind, best) else 1] += 1
            if name == 'Solve':
                with lab._env():
                    self.stop_msg = lab.solver.Terminated(info=True) or ''
            else:
                self.stop_msg = outcome or None
        self.trace.append((name, tuple(calls), a['best'], a['bestE'], a['popE'], a['evals'], a['gens'], a['ncb'],
                           bool(outcome) if name == 'Step' else None))
        self.pops.append(a['pop'])
        return out


# ------------------------------------------------------------------ differential oracle
FIELDS = ('op', 'cost_calls', 'bestSolution', 'bestEnergy', 'popEnergy', 'evaluations', 'generations', 'callbacks', 'stopped')


def compare(lab_p, orc_p, lab_i, orc_i):
    """pure run vs in-place run -> ('identical'|'explained'|'diverged', detail)"""
    tp, ti = orc_p.trace, orc_i.trace
    if tp == ti:
        return 'identical', ''
    n = min(len(tp), len(ti))
    first = next((i for i in range(n) if tp[i] != ti[i]), n)
    field = '?'
    if first < n:
        field = next((f for f, u, v in zip(FIELDS, tp[first], ti[first]) if u != v), '?')
    det = 'first difference at op %d in %s' % (first + 1, field)
    if first < n and field in FIELDS:
        k = FIELDS.index(field)
        det += ': pure %s / in-place %s' % (_short(tp[first][k]), _short(ti[first][k]))
    # the first real iteration whose evaluations differ
    ip, ii = orc_p.iters, orc_i.iters
    logp, logi = lab_p.cost.log, lab_i.cost.log
    t = None
    for j in range(max(len(ip), len(ii))):
        if j >= len(ip) or j >= len(ii):
            t = j
            break
        a0 = ip[j - 1][0] if j else 0
        b0 = ii[j - 1][0] if j else 0
        if logp[a0:ip[j][0]] != logi[b0:ii[j][0]]:
            t = j
            break
    if t is None:
        return 'diverged', det + ' (although both runs made the same evaluations in the same iterations)'
    # accepted only if, at every iteration boundary before that, bestSolution is the same, each point stored by the in-place run is
    # the point stored by the pure run or its constrained image, and at least one stored point differs
    differ = False
    for j in range(t):
        pp, pi, kinds = ip[j][1], ii[j][1], ip[j][2]
        if len(pp) != len(pi):
            return 'diverged', det
        if ip[j][3] != ii[j][3]:
            return 'diverged', det + ' (iteration %d: bestSolution %r / %r after identical evaluations)' % (j + 1, ip[j][3], ii[j][3])
        for m, (m_p, m_i) in enumerate(zip(pp, pi)):
            if m_p != m_i:
                if not any(list(m_i) == image(k, m_p) for k in kinds):
                    return 'diverged', det + ' (iteration %d: stored point %d is %r / %r, not a constrained image)' % (j + 1, m, m_p, m_i)
                differ = True
    if not differ:
        return 'diverged', det + ' (iteration %d is the first with different evaluations; the stored points were identical until then)' % (t + 1)
    return 'explained', 'iteration %d' % (t + 1)


def _short(v):
    s = repr(v)
    return s if len(s) < 400 else s[:400] + '...'


# ------------------------------------------------------------------ schedules
def schedules(kind, variant, partner, N, KS, RKS, full):
    """-> list of (label, cfg overrides, ops).  `full`: all 8 limit stops for every installation time"""
    c = '%s/%s' % (kind, variant)
    few = [(2, None), (None, 3)]
    out = []
    out.append(('configured/steps', {'constraint': c}, [['Step']] * N))
    for g, e in LIMITS:
        out.append(('configured/solve_limit', {'constraint': c, 'limits': [g, e]}, [['Solve']]))
    out.append(('configured/solve_default', {'constraint': c, 'term': 'default'}, [['Solve']]))
    for k in [0] + list(KS):
        lab = 'op_before_first_step' if k == 0 else 'op_after_%d' % k
        pre = [['Step']] * k + [['SetConstraints', c]]
        out.append((lab + '/steps', {}, pre + [['Step']] * (N - k)))
        for g, e in (LIMITS if (full or k == 2) else few):
            out.append((lab + '/solve_limit', {}, pre + [['SetEvaluationLimits', g, e, True], ['Solve']]))
        if k == 2 or (full and k == 0):
            out.append((lab + '/solve_default', {'term': 'default'}, pre + [['Solve']]))
    # installed on a run that was already stopped by a limit (and finalised), then continued
    for g, e in few:
        out.append(('op_after_a_stop/solve_limit', {'limits': [2, None]},
                    [['Solve'], ['SetConstraints', c], ['SetEvaluationLimits', g, e, True], ['Solve']]))
    out.append(('op_after_a_stop/steps', {'limits': [None, 3]},
                [['Solve'], ['SetConstraints', c], ['SetEvaluationLimits', None, None, True]] + [['Step']] * 3))
    if partner:
        c0 = '%s/%s' % (partner, variant)
        for k in RKS:
            pre = [['Step']] * k + [['SetConstraints', c]]
            out.append(('replace_after_%d/steps' % k, {'constraint': c0}, pre + [['Step']] * (N - k)))
            for g, e in few:
                out.append(('replace_after_%d/solve_limit' % k, {'constraint': c0}, pre + [['SetEvaluationLimits', g, e, True], ['Solve']]))
    return out


def schedules_twice(kind, variant, final, t, c, N):
    """the strict ranges are set a second time (box `final`, same mode) -> list of (label, cfg overrides, ops)"""
    con = '%s/%s' % (kind, variant)
    again = ['SetStrictRanges', final, t, c]
    return [('ranges_twice_before_first_step/steps', {}, [again, ['SetConstraints', con]] + [['Step']] * N),
            ('ranges_twice_constraint_first/solve_limit', {'constraint': con, 'limits': [3, None]}, [again, ['Solve']]),
            ('ranges_twice_after_2/steps', {}, [['Step']] * 2 + [again, ['SetConstraints', con]] + [['Step']] * (N - 2))]


def compat_twice(kind, box, dim):
    """the same mechanical pre-check as solverlab.compatible (grid incl. faces), with the harness-owned map and the boxes of this family"""
    import itertools
    lo, hi = c03_lab.box_of3(box, dim)
    axes = [sorted({l, h, (l + h) / 2.0, l + (h - l) * 0.25, l + (h - l) * 0.9}) for l, h in zip(lo, hi)]
    for p in itertools.product(*axes):
        y = image(kind, p)
        if not inbox(y, (lo, hi)) or image(kind, y) != y:
            return False
    return True


def leaves(kind, box, dim):
    """does the constraint move some point of `box` out of `box`? (grid)"""
    import itertools
    lo, hi = c03_lab.box_of3(box, dim)
    axes = [sorted({l, h, (l + h) / 2.0, l + (h - l) * 0.25, l + (h - l) * 0.9}) for l, h in zip(lo, hi)]
    return any(not inbox(image(kind, p), (lo, hi)) for p in itertools.product(*axes))


def specs_twice(ctx):
    out = []
    for solver in solverlab.SOLVERS:
        for kind in ('window', 'tie', 'pin'):
            for first, final, modes in (('low', 'unit', [(True, None), (None, True), (True, True), (None, None)]),
                                        ('neg', 'unit', [(None, True)] + ([(True, None), (True, True)] if ctx.thorough else []))):
                if not compat_twice(kind, final, 2) or not leaves(kind, first, 2):
                    continue
                for (t, c) in modes:
                    for cost, x0 in ([('rosen', [0.8, -0.4]), ('sphere', [3.0, -2.0])] if ctx.thorough else [('rosen', [0.8, -0.4])]):
                        out.append({'solver': solver, 'dim': 2, 'cost': cost, 'x0': x0, 'box': first, 'tight': t, 'clip': c,
                                    'kind': kind, 'seed': ctx.seed, 'final': final})
    return out


def shard_twice(item):
    specs, N = item
    T = Tally()
    for spec in specs:
        kind, final = spec['kind'], spec['final']
        first = c03_lab.box_of3(spec['box'], spec['dim'])
        sp = schedules_twice(kind, 'pure', final, spec['tight'], spec['clip'], N)
        si = schedules_twice(kind, 'inplace', final, spec['tight'], spec['clip'], N)
        for (label, over_p, ops_p), (_, over_i, ops_i) in zip(sp, si):
            cfg_p = dict(base_cfg(spec), **over_p)
            cfg_i = dict(base_cfg(spec), **over_i)
            lab_p, orc_p = run_one(cfg_p, ops_p, T, label)
            lab_i, orc_i = run_one(cfg_i, ops_i, T, label)
            for lab in (lab_p, lab_i):
                # evidence that the family discriminates: judged evaluations that lie outside the FIRST box
                n0 = (orc_p if lab is lab_p else orc_i).calls_at_reset
                outside = sum(1 for x, v in lab.cost.log[n0:] if not inbox(x, first))
                T.hist('ranges_twice_runs', 'mode(tight,clip)=%r: %s' % ((spec['tight'], spec['clip']),
                       'some judged evaluation lies outside the first box' if outside else 'all judged evaluations inside the first box'))
            if len([x for x in T.samples if str(x.get('schedule', '')).startswith('ranges_twice')]) < 1:
                T.sample({'schedule': label, 'cfg': graph._short(dict(cfg_i, solver=None)), 'solver': spec['solver'], 'ops': compact(ops_i),
                          'cost_calls_judged': orc_i.calls_judged, 'reports_judged': orc_i.best_judged,
                          'final_best': list(orc_i.trace[-1][2]), 'final_bestEnergy': orc_i.trace[-1][3]})
            verdict, det = compare(lab_p, orc_p, lab_i, orc_i)
            T.count('variant_pairs_compared')
            if verdict == 'diverged':
                T.hist('differential', 'diverged')
                T.violate({'clause': 'pure_and_inplace_variants_diverge', 'solver': spec['solver'],
                           'install': install_class(label), 'bounds': 'box', 'ranges': 'set_twice'},
                          {'cfg': cfg_p, 'ops': ops_p, 'twin': cfg_i, 'twin_ops': ops_i},
                          'the pure and the in-place variant of the %s constraint give different runs: %s | solver=%s cfg=%s ops=%s'
                          % (kind, det, spec['solver'], graph._short(cfg_p), compact(ops_p)))
            elif verdict == 'explained':
                T.hist('differential', 'diverged after the in-place run stored constrained images of non-reported points (not judged) [%s]' % spec['solver'])
            else:
                T.hist('differential', 'identical')
    return T


def compat(kind, box, dim):
    """precondition of the statement: idempotent, maps the (effective) box into itself"""
    return solverlab.compatible('symbolic' if kind == 'symbolic' else kind + '/pure', box, dim)


def install_class(label):
    head = label.split('/')[0]
    return re.sub(r'_\d+$', '_k', head)


def base_cfg(spec):
    cfg = {'solver': spec['solver'], 'dim': spec['dim'], 'cost': spec['cost'], 'x0': spec['x0'], 'box': spec['box'],
           'tight': spec['tight'], 'clip': spec['clip'], 'seed': spec['seed'], 'term': 'never', 'horizon': 20000}
    if spec.get('penalty'):
        cfg['penalty'] = spec['penalty']
    return cfg


def run_one(cfg, ops, T, label):
    lab, orc, ndone = c03_lab.run_history(cfg, ops, Oracle, T)
    solver = cfg['solver']
    T.count('evaluations', orc.calls_judged)
    T.hist('cost_calls_judged_by_solver', solver, orc.calls_judged)
    T.hist('best_reports_judged_by_solver', solver, orc.best_judged)
    if orc.best_inf:
        T.hist('best_not_judged_nonfinite_energy', '%s: bestSolution satisfies the constraint' % solver, orc.inf_best[0])
        T.hist('best_not_judged_nonfinite_energy', '%s: bestSolution violates it (evidence only)' % solver, orc.inf_best[1])
    if orc.midrun_best[0] or orc.midrun_best[1]:
        T.hist('evidence_only_best_after_midrun_installation', '%s: satisfies the new constraint' % solver, orc.midrun_best[0])
        T.hist('evidence_only_best_after_midrun_installation', '%s: violates it (not judged: not in force from the first iteration)' % solver, orc.midrun_best[1])
    live = getattr(lab, 'live_cons', [])
    changed = sum(c.changed for c in live[-1:])     # the constraint of interest is the last installed
    aliased = sum(c.aliased for c in live[-1:])
    T.hist('constraint_changed_a_point', 'yes' if changed else 'no')
    if aliased:
        T.hist('in_place_constraint_wrote_into_a_solver_array', solver)
    stop = label.split('/')[1]
    if stop != 'steps' and orc.stop_msg is not None:
        T.hist('solve_stop_reason', (orc.stop_msg or 'none').split(' ')[0].split('(')[0][:40])
    T.hist('schedule', label)
    distinct_values = len(set(v for x, v in lab.cost.log))
    if changed and distinct_values > 1 and orc.calls_judged:
        T.nontriv((sorted(cfg.items(), key=str), repr(ops)))
    return lab, orc


def shard(item):
    specs, N, KS, RKS, full = item
    T = Tally()
    for spec in specs:
        kind = spec['kind']
        partner = PARTNER[kind]
        if spec['dim'] < 2 and partner == 'symbolic':
            partner = None
        if partner and not compat(partner, spec['box'], spec['dim']):
            partner = None
        sp = schedules(kind, 'pure', partner, N, KS, RKS, full)
        si = schedules(kind, 'inplace', partner, N, KS, RKS, full)
        for (label, over_p, ops_p), (_, over_i, ops_i) in zip(sp, si):
            cfg_p = dict(base_cfg(spec), **over_p)
            cfg_i = dict(base_cfg(spec), **over_i)
            lab_p, orc_p = run_one(cfg_p, ops_p, T, label)
            lab_i, orc_i = run_one(cfg_i, ops_i, T, label)
            if label in ('op_after_2/solve_limit', 'configured/steps', 'replace_after_2/steps') and len(T.samples) < 3 \
                    and label not in [x.get('schedule') for x in T.samples]:
                T.sample({'schedule': label, 'cfg': graph._short(dict(cfg_i, solver=None)), 'solver': spec['solver'], 'ops': compact(ops_i),
                          'cost_calls_judged': orc_i.calls_judged, 'reports_judged': orc_i.best_judged,
                          'final_best': list(orc_i.trace[-1][2]), 'final_bestEnergy': orc_i.trace[-1][3]})
            verdict, det = compare(lab_p, orc_p, lab_i, orc_i)
            T.count('variant_pairs_compared')
            if verdict == 'diverged':
                T.hist('differential', 'diverged')
                T.violate({'clause': 'pure_and_inplace_variants_diverge', 'solver': spec['solver'],
                           'install': install_class(label), 'bounds': 'none' if spec['box'] is None else 'box'},
                          {'cfg': cfg_p, 'ops': ops_p, 'twin': cfg_i, 'twin_ops': ops_i},
                          'the pure and the in-place variant of the %s constraint give different runs: %s | solver=%s cfg=%s ops=%s'
                          % (kind, det, spec['solver'], graph._short(cfg_p), compact(ops_p)))
            elif verdict == 'explained':
                T.hist('differential', 'diverged after the in-place run stored constrained images of non-reported points (not judged) [%s]' % spec['solver'])
            else:
                T.hist('differential', 'identical')
    return T


# ------------------------------------------------------------------ enumeration
def specs_for(ctx):
    """the configuration product (one entry = a pure/in-place pair of configurations)"""
    th = ctx.thorough
    out = []
    TN = (True, None)     # bounds imposed by the symbolic solver: by far the most expensive mode
    if th:
        kinds2 = ['pin', 'clamp', 'round', 'tie', 'symbolic', 'pin1']
        boxmodes = ([(None, None, None)] + [(b, t, c) for b in ('unit', 'shift') for (t, c) in MODES]
                    + [('degen', None, None), ('degen', True, True), ('onesided', None, None), ('onesided', None, True)])
        coststarts = [('sphere', [0.8, -0.4]), ('sphere', [3.0, -2.0]), ('sphere', [2.0, 0.5]),
                      ('rosen', [0.8, -0.4]), ('rosen', [3.0, -2.0]), ('steps', [0.8, -0.4]), ('infwall', [2.0, 0.5])]
    else:
        kinds2 = ['pin', 'clamp', 'round', 'tie', 'symbolic']
        boxmodes = [(None, None, None)] + [('unit', t, c) for (t, c) in MODES] + [('shift', None, None), ('shift', None, True)]
        coststarts = [('sphere', [0.8, -0.4]), ('sphere', [3.0, -2.0]), ('rosen', [0.8, -0.4]), ('rosen', [3.0, -2.0])]
    for solver in solverlab.SOLVERS:
        for kind in kinds2:
            for (box, t, c) in boxmodes:
                if not compat(kind, box, 2):
                    continue
                for cost, x0 in coststarts:
                    if not th and cost != 'rosen' and (box == 'shift' or (t, c) == TN):
                        continue   # quick tier: the shifted box and the (T,N) mode with one cost (thorough: the product)
                    if not th and (t, c) == TN and x0 != [3.0, -2.0]:
                        continue   # quick tier: the (T,N) mode from the start outside the box only
                    seeds = [ctx.seed]
                    if th and solver.startswith('DE') and box in (None, 'unit') and (t, c) in ((None, None), (True, True)):
                        seeds.append(ctx.seed + 1)
                    for seed in seeds:
                        out.append({'solver': solver, 'dim': 2, 'cost': cost, 'x0': x0, 'box': box, 'tight': t, 'clip': c,
                                    'kind': kind, 'seed': seed})
    # with a penalty (the reported energy is then cost + penalty at the constrained point): a reduced product
    for solver in solverlab.SOLVERS:
        for kind in kinds2:
            for (box, t, c) in [(None, None, None), ('unit', None, None)] + ([('unit', True, True)] if th else []):
                if not compat(kind, box, 2):
                    continue
                for cost in (['sphere', 'rosen'] if th else ['sphere']):
                    out.append({'solver': solver, 'dim': 2, 'cost': cost, 'x0': [2.0, 0.5], 'box': box, 'tight': t, 'clip': c,
                                'kind': kind, 'seed': ctx.seed, 'penalty': 'ramp'})
    # other dimensions: a reduced product (the symbolic constraint needs two coordinates)
    for dim in ((1, 3) if th else (1,)):
        for solver in solverlab.SOLVERS:
            for kind in ['pin', 'clamp', 'round', 'tie'] + (['symbolic', 'pin1'] if dim > 1 else []):
                for (box, t, c) in [(None, None, None), ('unit', None, None), ('unit', True, True)] + ([('unit', None, True)] if th else []):
                    if not compat(kind, box, dim):
                        continue
                    for cost in (['sphere', 'steps'] if th else ['sphere']):
                        for x0 in (solverlab.STARTS[dim][:3:2] if th else solverlab.STARTS[dim][2:3]):
                            out.append({'solver': solver, 'dim': dim, 'cost': cost, 'x0': x0, 'box': box, 'tight': t, 'clip': c,
                                        'kind': kind, 'seed': ctx.seed})
    return out


def _weight(spec):
    w = 6.0 if spec['solver'] == 'Powell' else 1.0
    if spec['tight'] is True and spec['clip'] is None:
        w *= 3.0
    elif spec['box'] is not None and (spec['tight'] or spec['clip']):
        w *= 1.8
    if spec['kind'] == 'symbolic':
        w *= 1.5
    return w


def run(ctx):
    N = 12 if ctx.thorough else 8
    KS = [1, 2, 3]
    RKS = [1, 2, 3] if ctx.thorough else [2]
    full = bool(ctx.thorough)
    solverlab.cached('symbolic_con', solverlab.symbolic_con)     # built once, inherited by the forked workers
    specs = specs_for(ctx)
    # ownership of nondeterminism: the same seeded history twice must be bit-identical
    probe = {'solver': 'DE', 'dim': 2, 'cost': 'rosen', 'x0': [3.0, -2.0], 'box': 'unit', 'tight': True, 'clip': True,
             'kind': 'clamp', 'seed': ctx.seed}
    t1, t2 = Tally(), Tally()
    ops = [['Step']] * 3 + [['SetConstraints', 'clamp/inplace']] + [['Step']] * 3
    a = c03_lab.run_history(base_cfg(probe), ops, Oracle, t1)[1].trace
    b = c03_lab.run_history(base_cfg(probe), ops, Oracle, t2)[1].trace
    if a != b:
        ctx.tally.notes.append('HARNESS-FAULT: the same seeded history gave two different traces (randomness not owned)')
        ctx.tally.count('harness_faults')
        return
    # balanced chunks, deterministic order
    specs.sort(key=lambda s: -_weight(s))
    nchunks = max(16, min(len(specs), 16 * (12 if ctx.thorough else 6)))
    loads = [0.0] * nchunks
    chunks = [[] for _ in range(nchunks)]
    for s in specs:
        i = loads.index(min(loads))
        chunks[i].append(s)
        loads[i] += _weight(s)
    items = [(ch, N, KS, RKS, full) for ch in chunks if ch]
    nsched = len(schedules('pin', 'pure', 'clamp', N, KS, RKS, full))
    ctx.bounds = {'solvers': list(solverlab.SOLVERS), 'constraint_kinds': sorted(set(s['kind'] for s in specs)), 'variants': ['pure', 'inplace'],
                  'modes(tight,clip)': MODES, 'boxes': sorted(set(str(s['box']) for s in specs)),
                  'costs': sorted(set(s['cost'] for s in specs)), 'starts': sorted(set(map(tuple, (s['x0'] for s in specs)))),
                  'dims': sorted(set(s['dim'] for s in specs)), 'de_seeds': sorted(set(s['seed'] for s in specs)),
                  'penalties': ['none', 'ramp = 10*max(0, sum(x)-1) (reduced product)'],
                  'steps_per_run': N, 'install_after_k_steps': [0] + KS, 'replace_after_k_steps': RKS,
                  'solve_limits(maxiter,maxfun)': LIMITS, 'base_configurations(pairs)': len(specs),
                  'schedules_per_configuration_and_variant': nsched,
                  'replacement_partner': PARTNER}
    ctx.rule = ("full product solver x constraint kind x {pure,in-place} x box/mode x cost x start x seed (incompatible constraint/box pairs "
                "removed by the mechanical pre-check), each run under every installation time and every stop of the schedule list; every "
                "operation judged. states = distinct solver snapshots; evaluations = cost calls judged by clause (1). non-trivial = runs in "
                "which the installed constraint changed at least one point handed to it and the cost returned more than one distinct value")
    ctx.assumptions = ['constraints are deterministic, idempotent and map the box into itself (solverlab.compatible, checked on a grid)',
                       'clip=False (randomising) bounds are outside the statement and outside the alphabet',
                       'the report clause is judged when bestEnergy is finite (as C01/C02): with a non-finite bestEnergy no solution is being reported; such stops are counted in best_not_judged_nonfinite_energy',
                       'after a mid-run installation or replacement only clause (1) is judged; whether bestSolution satisfies the new constraint is recorded as evidence only',
                       'population / solution_history entries are not judged; a pure/in-place divergence that follows from differently stored non-reported points is counted, not raised']
    ctx.explanation = ('Clause (3) is stricter than the wording of the statement (which asks that (1),(2) hold for both variants, not that the runs coincide); '
                       'it is kept because identical runs are what makes in-place aliasing unobservable, and the one accepted kind of divergence is listed in the differential histogram.')
    ctx.pmap(shard, items)
    # the 'ranges set twice' family
    tw = specs_twice(ctx)
    tw.sort(key=lambda s: -_weight(s))
    NT = 6
    nch = max(1, min(len(tw), 32))
    ctx.bounds['ranges_set_twice'] = {'first->final box': sorted(set('%s->%s' % (s['box'], s['final']) for s in tw)),
                                      'modes(tight,clip)': sorted(set(str((s['tight'], s['clip'])) for s in tw)),
                                      'constraint_kinds': sorted(set(s['kind'] for s in tw)), 'base_configurations(pairs)': len(tw),
                                      'schedules': [l for l, _, _ in schedules_twice('pin', 'pure', 'unit', None, None, NT)], 'steps_per_run': NT}
    ctx.pmap(shard_twice, [(tw[i::nch], NT) for i in range(nch)])
    ab = ctx.tally.h.get('abnormal')
    if ab:
        ctx.cap('%d histories ended by an exception or the evaluation horizon and were judged only up to that operation: %s'
                % (sum(ab.values()), sorted(ab.items())[:6]))


def replay(case):
    T = Tally()
    lab, orc, _ = c03_lab.run_history(case['cfg'], case['ops'], Oracle, T)
    out = [v['detail'] for v in T.violations.values()]
    if case.get('twin'):
        T2 = Tally()
        lab2, orc2, _ = c03_lab.run_history(case['twin'], case.get('twin_ops') or case['ops'], Oracle, T2)
        out += [v['detail'] for v in T2.violations.values()]
        verdict, det = compare(lab, orc, lab2, orc2)
        if verdict == 'diverged':
            out.append('the pure and the in-place variant give different runs: ' + det)
    return out
