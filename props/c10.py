"""C10 - termination conditions mean what they say, alone and in combination.

Engine E3.  The object handed to the conditions is a duck-typed stand-in solver
(plain attributes), so energy histories, populations and counters are arbitrary
and not only those a run produces.  Sections (one family of shards each):

  H  the five history conditions x every energy history up to a length over a
     dyadic value alphabet x every tolerance / window / target of the alphabet
  P  the population conditions (CandidateRelativeTolerance, PopulationSpread,
     SolutionImprovement) x every small population on a value grid
  M  GradientNormTolerance, EvaluationLimits, TimeLimits (FrozenClock),
     SolverInterrupt over their grids
  C  every And/Or/When expression of depth <= 3 with <= 3 members per node over
     three leaf conditions x all 8 leaf truth assignments
  R  real solvers after real Steps: the stand-in built from the solver's
     attributes must answer exactly as the solver, and a spying proxy records
     which attributes the conditions read (must be a subset of the stand-in's)

Oracle: ref/termination.py (the documented inequality, exact arithmetic; None =
the docstring does not decide the case).  For every case also: the plain call is
the bool of the info call; the info names only satisfied leaves and is non-empty
iff satisfied; ``cond(s,'self')``; the condition rebuilt from
``type(c)(**state(c)[doc])`` (recursively for compounds, as mystic.mask does)
answers identically.
"""
import copy, itertools
from mc import env
from mc.runner import Tally
from ref import termination as ref

INF = float('inf')
MISSING = object()

STANDIN_ATTRS = ('energy_history', 'population', 'popEnergy', 'bestSolution', 'trialSolution',
                 'generations', '_fcalls', '_EARLYEXIT', '_stepmon', '_cost')
OPTIONAL_ATTRS = ('gradient',)      # read with getattr(inst, 'gradient', [None])


class StandIn(object):
    """exactly the attributes DESIGN.md lists; anything else a condition reads raises"""

    def __init__(self, **kw):
        self.energy_history = []
        self.population = [[0.0]]
        self.popEnergy = [0.0]
        self.bestSolution = [0.0]
        self.trialSolution = [0.0]
        self.generations = 0
        self._fcalls = [0]
        self._EARLYEXIT = False
        self._stepmon = None
        self._cost = (None, None, None)
        for k, v in kw.items():
            if k not in STANDIN_ATTRS + OPTIONAL_ATTRS:
                raise AttributeError(k)
            setattr(self, k, v)


def _mt():
    import mystic.termination as mt
    return mt


# ------------------------------------------------------------------ alphabets
def alphabets(thorough):
    a = {}
    a['energies'] = [INF, 4.0, 2.0, 1.0, 0.5, 0.0] + ([-1.0] if thorough else [])
    a['maxlen'] = 6 if thorough else 5
    a['tolerances'] = [0.0, 0.5, 1.0] + ([INF] if thorough else [])
    a['windows'] = [None, 0, 1, 2, 3, 7]
    a['targets'] = [0.0, 1.0]
    a['fvals'] = [None, 0.0, 1.0]
    # populations: (grid, dims, member counts)
    if thorough:
        a['pop_plans'] = [([0.0, 0.5, 1.0, -1.0], (1, 2), (1, 2, 3)), ([0.0, 1.0, INF], (1, 2), (1, 2))]
        a['pop_energies'] = [INF, 2.0, 1.0, 0.5, 0.0]
    else:
        a['pop_plans'] = [([0.0, 0.5, -1.0], (1, 2), (1, 2, 3))]
        a['pop_energies'] = [INF, 1.0, 0.5, 0.0]
    a['grad_values'] = [0.0, 0.5, -1.0, 3.0, 4.0]
    a['grad_dims'] = (1, 2, 3) if thorough else (1, 2)
    a['grad_tolerances'] = [0.0, 0.5, 1.0, 4.0, 5.0, 7.0] + ([INF] if thorough else [])
    a['norms'] = [1, 2, INF]
    a['limit_generations'] = [None, 0, 1, 2, 7]
    a['limit_evaluations'] = [None, 0, 1, 5, 7]
    a['counter_generations'] = [0, 1, 2, 3, 7, 8]
    a['counter_evaluations'] = [0, 1, 4, 5, 6, 7, 8]
    a['seconds'] = [0, 0.5, 1, 2] + ([INF] if thorough else [])
    a['clock_ticks'] = [0.5 * i for i in range(7)]
    a['system'] = [None, True, False]
    return a


def history_conditions(a):
    out = []
    T, W, G, F = a['tolerances'], a['windows'], a['targets'], a['fvals']
    for t, g in itertools.product(T, G):
        out.append(('VTR', {'tolerance': t, 'target': g}))
    for t, w in itertools.product(T, W):
        out.append(('ChangeOverGeneration', {'tolerance': t, 'generations': w}))
    for t, w in itertools.product(T, W):
        out.append(('NormalizedChangeOverGeneration', {'tolerance': t, 'generations': w}))
    for f, t, w in itertools.product(F, T, W):
        out.append(('NormalizedCostTarget', {'fval': f, 'tolerance': t, 'generations': w}))
    for ft, gt, w, g in itertools.product(T, T, W, G):
        out.append(('VTRChangeOverGeneration', {'ftol': ft, 'gtol': gt, 'generations': w, 'target': g}))
    return out


def histories(E, maxlen):
    for n in range(maxlen + 1):
        for h in itertools.product(E, repeat=n):
            yield list(h)


def populations(plans, part=0, nparts=1):
    """lists of member lists (the slice `part` of `nparts`, round robin)"""
    if nparts > 1:
        for i, pop in enumerate(populations(plans)):
            if i % nparts == part:
                yield pop
        return
    seen = set()
    for grid, dims, counts in plans:
        for d in dims:
            members = [list(m) for m in itertools.product(grid, repeat=d)]
            for n in counts:
                for pop in itertools.product(members, repeat=n):
                    key = tuple(map(tuple, pop))
                    if key in seen:
                        continue
                    seen.add(key)
                    yield [list(m) for m in pop]


# ------------------------------------------------------------------ reference dispatch
def ref_history(name, kwds, h):
    if name == 'VTR':
        return ref.vtr(h, kwds['tolerance'], kwds['target'])
    if name == 'ChangeOverGeneration':
        return ref.change_over_generation(h, kwds['tolerance'], kwds['generations'])
    if name == 'NormalizedChangeOverGeneration':
        return ref.normalized_change_over_generation(h, kwds['tolerance'], kwds['generations'])
    if name == 'NormalizedCostTarget':
        return ref.normalized_cost_target(h, kwds['fval'], kwds['tolerance'], kwds['generations'])
    if name == 'VTRChangeOverGeneration':
        return ref.vtr_change_over_generation(h, kwds['ftol'], kwds['gtol'], kwds['generations'], kwds['target'])
    raise KeyError(name)


HISTORY_FACTORIES = ('VTR', 'ChangeOverGeneration', 'NormalizedChangeOverGeneration',
                     'NormalizedCostTarget', 'VTRChangeOverGeneration')


def ref_any(name, kwds, s, elapsed=None):
    """documented truth of condition `name(**kwds)` on the stand-in `s`"""
    if name in HISTORY_FACTORIES:
        return ref_history(name, kwds, list(s.energy_history))
    if name == 'CandidateRelativeTolerance':
        return ref.candidate_relative_tolerance(_rows(s.population), list(s.popEnergy), kwds['xtol'], kwds['ftol'])
    if name == 'PopulationSpread':
        return ref.population_spread(_rows(s.population), kwds['tolerance'])
    if name == 'SolutionImprovement':
        trial = s.trialSolution
        trial = _rows(trial) if (len(trial) and hasattr(trial[0], '__len__')) else list(trial)
        return ref.solution_improvement(list(s.bestSolution), trial, kwds['tolerance'])
    if name == 'GradientNormTolerance':
        g = getattr(s, 'gradient', [None])[-1]
        if g is None:
            return None
        return ref.gradient_norm_tolerance(list(g), kwds['tolerance'], kwds['norm'])
    if name == 'EvaluationLimits':
        return ref.evaluation_limits(s.generations, s._fcalls[0], kwds['generations'], kwds['evaluations'])
    if name == 'SolverInterrupt':
        return ref.solver_interrupt(s._EARLYEXIT)
    if name == 'TimeLimits':
        return ref.time_limits(elapsed, kwds['seconds'])
    raise KeyError(name)


def _rows(p):
    return [list(r) for r in p]


# ------------------------------------------------------------------ static facts of one leaf
def rebuild_leaf(c):
    """type(c)(**state(c)[doc]) - what mystic.mask._replace_mask does"""
    mt = _mt()
    st = mt.state(c)
    return mt.type(c)(**st[c.__doc__])


def static_checks(T, name, kwds, c):
    """doc / state / type of a leaf; returns the rebuilt condition (or None)"""
    mt = _mt()
    case = {'kind': 'static', 'factory': name, 'kwds': kwds}
    doc = c.__doc__
    T.count('transitions', 3)
    if not isinstance(doc, str) or not doc.startswith(name + ' with '):
        T.violate({'clause': 'doc', 'factory': name}, case, '%s(**%r).__doc__ = %r does not start with %r' % (name, kwds, doc, name + ' with '))
        return None
    try:
        st = mt.state(c)
    except Exception as e:
        T.violate({'clause': 'state_raises', 'factory': name, 'error': type(e).__name__}, case,
                  'state(%s(**%r)) raised %s: %s' % (name, kwds, type(e).__name__, e))
        return None
    if list(st.keys()) != [doc] or not _same_kwds(st[doc], kwds):
        T.violate({'clause': 'state', 'factory': name}, case, 'state(%s(**%r)) = %r, expected {doc: %r}' % (name, kwds, st, kwds))
    if mt.type(c) is not getattr(mt, name):
        T.violate({'clause': 'type', 'factory': name}, case, 'type(%s(**%r)) is %r' % (name, kwds, mt.type(c)))
        return None
    # the reported state is a report, not a handle: callers edit it (mystic.mask sets kwds['mask'], tools.no_mask pops
    # it, users loosen a tolerance to build a variant); a later state() of the same - or of an independently built,
    # equal - condition must still report the settings the condition was built with
    try:
        twin = getattr(mt, name)(**kwds)
        for k in list(st[doc]):
            st[doc][k] = ('edited', k)
        st[doc]['added_by_caller'] = 1
        for which, cond in (('same condition', c), ('an equal condition built independently', twin)):
            again = mt.state(cond)
            T.count('transitions')
            if list(again.keys()) != [doc] or not _same_kwds(again[doc], kwds):
                T.violate({'clause': 'state_after_caller_edit', 'factory': name, 'which': which.split()[0]}, case,
                          'state(%s(**%r)) was edited by its caller; state() of %s now reports %r'
                          % (name, kwds, which, again))
                break
        st = mt.state(c)
    except Exception as e:
        T.violate({'clause': 'state_raises', 'factory': name, 'error': type(e).__name__}, case,
                  'state() after a caller edit raised %s: %s' % (type(e).__name__, e))
        return None
    try:
        return mt.type(c)(**st[doc])
    except Exception as e:
        T.violate({'clause': 'rebuild_raises', 'factory': name, 'error': type(e).__name__}, case,
                  'type(c)(**state(c)[doc]) raised %s: %s for %s(**%r)' % (type(e).__name__, e, name, kwds))
        return None


def _same_kwds(a, b):
    if set(a) != set(b):
        return False
    for k in a:
        x, y = a[k], b[k]
        if x is None or y is None:
            if x is not y:
                return False
        elif x != y:
            return False
    return True


# ------------------------------------------------------------------ judging one leaf case
def judge_leaf(name, kwds, c, c2, s, expected):
    """list of (clause, extra-sig, text) for one (condition, stand-in) case"""
    out = []
    doc = c.__doc__
    got = c(s)
    info = c(s, True)
    slf = c(s, 'self')
    sat = bool(info)
    if expected is not None and bool(got) is not expected:
        out.append(('inequality', {'got': bool(got)},
                    'plain call gives %r, the documented inequality is %s' % (got, expected)))
    elif expected is not None and sat is not expected:
        out.append(('inequality', {'got': sat, 'via': 'info'},
                    'info call gives %r, the documented inequality is %s' % (info, expected)))
    if not (got is True or got is False) or got != sat:
        out.append(('plain_vs_info', {'plain_type': type(got).__name__},
                    'cond(s) = %r but bool(cond(s, info=True)) = %r (info %r)' % (got, sat, info)))
    if info != '' and info != doc:
        out.append(('info', {'what': 'not_its_doc'}, 'info = %r is neither empty nor the condition\'s doc %r' % (info, doc)))
    if slf != info:
        out.append(('self', {}, "cond(s,'self') = %r differs from cond(s, info=True) = %r" % (slf, info)))
    if c2 is not None:
        got2, info2 = c2(s), c2(s, True)
        if got2 != got or info2 != info:
            out.append(('rebuild', {}, 'rebuilt condition gives (%r, %r), the original (%r, %r)' % (got2, info2, got, info)))
    return out


def _fast_ok(c, c2, s, expected, doc):
    """True when everything about the case is in order (the common path)"""
    got = c(s)
    if got is not expected:
        return False
    info = c(s, True)
    if info != (doc if got else ''):
        return False
    if c(s, 'self') != info:
        return False
    return c2(s) is got and c2(s, True) == info


def _report_leaf(T, name, kwds, probs, standin, extra_sig, text):
    for clause, xs, msg in probs:
        sig = {'clause': clause, 'factory': name}
        sig.update(extra_sig)
        sig.update(xs)
        T.violate(sig, {'kind': 'leaf', 'factory': name, 'kwds': kwds, 'standin': standin},
                  '%s(**%r) on %s: %s' % (name, kwds, text, msg))


def _kw_sig(name, kwds):
    """categorical view of the settings (no raw values)"""
    out = {}
    if 'generations' in kwds and name != 'EvaluationLimits':
        out['window'] = 'none_or_zero' if not kwds['generations'] else 'positive'
    if name == 'NormalizedCostTarget':
        out['fval'] = 'None' if kwds['fval'] is None else ('zero' if kwds['fval'] == 0 else 'nonzero')
    return out


# ------------------------------------------------------------------ H: history conditions
def shard_history(item):
    name, kwds, E, maxlen = item
    mt = _mt()
    T = Tally()
    c = getattr(mt, name)(**kwds)
    c2 = static_checks(T, name, kwds, c)
    if c2 is None:
        return T
    doc = c.__doc__
    g = kwds.get('generations')
    s = StandIn()
    cache = {}
    outcomes = {}
    ncases = ndecided = 0
    for h in histories(E, maxlen):
        ncases += 1
        s.energy_history = h
        key = ref.hkey(h, g)
        exp = cache.get(key, MISSING)
        if exp is MISSING:
            exp = cache[key] = ref_history(name, kwds, h)
        if key[0] == 'win':
            ndecided += 1
        if exp is not None and _fast_ok(c, c2, s, exp, doc):
            outcomes[(key, exp)] = outcomes.get((key, exp), 0) + 1
            continue
        probs = judge_leaf(name, kwds, c, c2, s, exp)
        outcomes[(key, exp if not probs else 'V')] = outcomes.get((key, exp if not probs else 'V'), 0) + 1
        if probs:
            xs = {'endpoints': ref.endpoint_class(key)}
            xs.update(_kw_sig(name, kwds))
            _report_leaf(T, name, kwds, probs, {'energy_history': h}, xs, 'energy_history=%r' % (h,))
    T.count('traces', ncases)
    T.count('transitions', 5 * ncases)
    T.count('cases_decided_by_inequality', ndecided)
    kw = tuple(sorted((k, repr(v)) for k, v in kwds.items()))
    for (key, res), n in outcomes.items():
        T.state((name, kw, key, res))
        if key[0] == 'win':
            T.nontriv((name, kw, key))
        T.hist('H:' + name, {True: 'satisfied', False: 'unsatisfied', None: 'undecided_by_doc', 'V': 'VIOLATION'}[res], n)
        T.hist('H:endpoints', ref.endpoint_class(key), n)
    T.sample({'factory': name, 'kwds': kwds, 'energy_history': [4.0, 2.0, 2.0], 'documented': ref_history(name, kwds, [4.0, 2.0, 2.0])}, 1)
    return T


# ------------------------------------------------------------------ P: population conditions
def shard_population(item):
    name, kwds, plans, energies, part, nparts = item
    mt = _mt()
    T = Tally()
    c = getattr(mt, name)(**kwds)
    c2 = static_checks(T, name, kwds, c)
    if c2 is None:
        return T
    doc = c.__doc__
    s = StandIn()
    kw = tuple(sorted((k, repr(v)) for k, v in kwds.items()))
    ncases = 0
    hist = {}
    import io, sys
    old = sys.stdout
    sys.stdout = io.StringIO()      # CandidateRelativeTolerance prints a warning for nPop < 2
    try:
        if name == 'CandidateRelativeTolerance':
            fcache = {}
            for pop in populations(plans, part, nparts):
                n = len(pop)
                xpart = ref.crt_params(pop, kwds['xtol'])
                s.population = pop
                for en in itertools.product(energies, repeat=n):
                    ncases += 1
                    s.popEnergy = list(en)
                    if n < 2:
                        # outside the documented domain (ref R9): counted, not judged
                        hist['outside_documented_domain_npop_lt_2'] = hist.get('outside_documented_domain_npop_lt_2', 0) + 1
                        continue
                    else:
                        fpart = fcache.get(en, MISSING)
                        if fpart is MISSING:
                            fpart = fcache[en] = ref.crt_cost(list(en), kwds['ftol'])
                        exp = ref.all3([xpart, fpart])
                    _pop_case(T, name, kwds, kw, c, c2, s, exp, doc, hist,
                              {'population': pop, 'popEnergy': list(en)}, {'npop': 'one' if n < 2 else 'many'})
        elif name == 'PopulationSpread':
            for pop in populations(plans, part, nparts):
                ncases += 1
                s.population = pop
                exp = ref.population_spread(pop, kwds['tolerance'])
                unnorm = all(abs(u - v) <= kwds['tolerance'] for p in pop for u, v in zip(p, pop[0])
                             if not (u == v))
                if exp is not None and unnorm is not exp:
                    T.hist('P:PopulationSpread_formula_line_without_normaliser', 'differs_from_normalised_reading')
                _pop_case(T, name, kwds, kw, c, c2, s, exp, doc, hist, {'population': pop},
                          {'npop': 'one' if len(pop) < 2 else 'many'})
        elif name == 'SolutionImprovement':
            for pop in populations(plans, part, nparts):
                best = pop[0]
                s.bestSolution = best
                trials = [pop[1]] if len(pop) == 2 else []          # 1-D trial
                if len(pop) >= 2:
                    trials.append(pop[1:])                           # 2-D trial population (DE2)
                for trial in trials:
                    ncases += 1
                    s.trialSolution = trial
                    exp = ref.solution_improvement(best, trial, kwds['tolerance'])
                    _pop_case(T, name, kwds, kw, c, c2, s, exp, doc, hist,
                              {'bestSolution': best, 'trialSolution': trial},
                              {'trial': '2d' if hasattr(trial[0], '__len__') else '1d'})
    finally:
        sys.stdout = old
    T.count('traces', ncases)
    T.count('transitions', 5 * ncases)
    for k, n in hist.items():
        T.hist('P:' + name, k, n)
    return T


def _pop_case(T, name, kwds, kw, c, c2, s, exp, doc, hist, standin, xs):
    if exp is not None and _fast_ok(c, c2, s, exp, doc):
        res = exp
    else:
        probs = judge_leaf(name, kwds, c, c2, s, exp)
        res = 'V' if probs else exp
        if probs:
            x = dict(xs)
            x.update(_kw_sig(name, kwds))
            _report_leaf(T, name, kwds, probs, standin, x, repr(standin))
    k = {True: 'satisfied', False: 'unsatisfied', None: 'undecided_by_doc', 'V': 'VIOLATION'}[res]
    if k not in hist:
        T.sample({'factory': name, 'kwds': kwds, 'standin': standin, 'documented': exp}, 4)
    hist[k] = hist.get(k, 0) + 1
    key = (name, kw, repr(standin))
    T.state(key + (res,))
    if res is True or res is False:
        T.nontriv(key)


# ------------------------------------------------------------------ M: gradient / limits / clock / interrupt
def _const_cost(x):
    return 2.5


def _linear_cost(x):
    return 3.0 * x[0] + (4.0 * x[1] if len(x) > 1 else 0.0)


def shard_misc(item):
    what, a = item
    mt = _mt()
    T = Tally()
    if what == 'gradient':
        import numpy
        for tol, norm in itertools.product(a['grad_tolerances'], a['norms']):
            name, kwds = 'GradientNormTolerance', {'tolerance': tol, 'norm': norm}
            c = mt.GradientNormTolerance(**kwds)
            c2 = static_checks(T, name, kwds, c)
            if c2 is None:
                continue
            kw = tuple(sorted((k, repr(v)) for k, v in kwds.items()))
            hist = {}
            n = 0
            for d in a['grad_dims']:
                for g in itertools.product(a['grad_values'], repeat=d):
                    n += 1
                    decoy = [9.0] * d
                    s = StandIn(gradient=[decoy, list(g)])
                    exp = ref.gradient_norm_tolerance(list(g), tol, norm)
                    _pop_case(T, name, kwds, kw, c, c2, s, exp, c.__doc__, hist, {'gradient': [decoy, list(g)]}, {'path': 'gradient_attribute'})
            # no gradient attribute: the forward difference of solver._cost[1] at bestSolution.
            # 2**-26 steps on a constant / a linear cost give the gradient exactly.
            for cost, grad, x0 in ((_const_cost, [0.0, 0.0], [1.0, 0.0]), (_linear_cost, [3.0, 4.0], [0.0, 0.0]),
                                   (_linear_cost, [3.0, 4.0], [1.0, 1.0]), (_linear_cost, [3.0], [0.5])):
                n += 1
                s = StandIn(bestSolution=numpy.array(x0), _cost=(None, cost, None))
                exp = ref.gradient_norm_tolerance(grad, tol, norm)
                _pop_case(T, name, kwds, kw, c, c2, s, exp, c.__doc__, hist,
                          {'bestSolution': x0, '_cost': cost.__name__}, {'path': 'finite_difference'})
            T.count('traces', n); T.count('transitions', 5 * n)
            for k, v in hist.items():
                T.hist('M:GradientNormTolerance', k, v)
    elif what == 'limits':
        for G, E in itertools.product(a['limit_generations'], a['limit_evaluations']):
            name, kwds = 'EvaluationLimits', {'generations': G, 'evaluations': E}
            c = mt.EvaluationLimits(**kwds)
            c2 = static_checks(T, name, kwds, c)
            if c2 is None:
                continue
            kw = tuple(sorted((k, repr(v)) for k, v in kwds.items()))
            hist = {}
            n = 0
            for gens, ev in itertools.product(a['counter_generations'], a['counter_evaluations']):
                n += 1
                s = StandIn(generations=gens, _fcalls=[ev])
                exp = ref.evaluation_limits(gens, ev, G, E)
                _pop_case(T, name, kwds, kw, c, c2, s, exp, c.__doc__, hist, {'generations': gens, '_fcalls': [ev]}, {})
            T.count('traces', n); T.count('transitions', 5 * n)
            for k, v in hist.items():
                T.hist('M:EvaluationLimits', k, v)
    elif what == 'interrupt':
        name, kwds = 'SolverInterrupt', {}
        c = mt.SolverInterrupt()
        c2 = static_checks(T, name, kwds, c)
        hist = {}
        for flag in (False, True, 0, 1):
            s = StandIn(_EARLYEXIT=flag)
            _pop_case(T, name, kwds, (), c, c2, s, ref.solver_interrupt(flag), c.__doc__, hist, {'_EARLYEXIT': flag}, {})
        T.count('traces', 4); T.count('transitions', 20)
        for k, v in hist.items():
            T.hist('M:SolverInterrupt', k, v)
    elif what == 'time':
        for seconds, system in itertools.product(a['seconds'], a['system']):
            for reset_after in (None, 2):
                probs = time_case(seconds, system, a['clock_ticks'], reset_after, T)
                for clause, xs, msg, tick in probs:
                    sig = {'clause': clause, 'factory': 'TimeLimits', 'system': repr(system), 'after_reset': reset_after is not None}
                    sig.update(xs)
                    T.violate(sig, {'kind': 'time', 'seconds': seconds, 'system': system, 'ticks': a['clock_ticks'], 'reset_after': reset_after},
                              'TimeLimits(seconds=%r, system=%r) at clock tick %r%s: %s'
                              % (seconds, system, tick, '' if reset_after is None else ' (reset() after tick index %d)' % reset_after, msg))
    T.sample({'section': what}, 1)
    return T


def time_case(seconds, system, ticks, reset_after, T=None):
    """build under a frozen clock, walk the clock through `ticks` (offsets from the start)"""
    mt = _mt()
    name, kwds = 'TimeLimits', {'seconds': seconds, 'system': system}
    clock = env.FrozenClock(1000.0)
    out = []
    with clock.installed():
        c = mt.TimeLimits(**kwds)
        tt = T if T is not None else Tally()
        c2 = static_checks(tt, name, kwds, c)      # rebuilt at the same (frozen) instant
        if T is None:
            out.extend(('static', {}, v['detail'], None) for v in tt.violations.values())
        s = StandIn()
        origin = 0.0
        for i, tick in enumerate(ticks):
            clock.now = 1000.0 + tick
            exp = ref.time_limits(tick - origin, seconds)
            for clause, xs, msg in judge_leaf(name, kwds, c, c2, s, exp):
                out.append((clause, xs, msg, tick))
            if T is not None:
                T.count('traces'); T.count('transitions', 5)
                T.hist('M:TimeLimits', 'satisfied' if exp else 'unsatisfied')
                T.state(('TimeLimits', seconds, system, tick - origin, exp))
                T.nontriv(('TimeLimits', seconds, system, tick, reset_after))
            if reset_after is not None and i == reset_after:
                c.reset()
                if c2 is not None:
                    c2.reset()
                origin = tick
    return out


# ------------------------------------------------------------------ C: compound expressions
LEAF_NAMES = ('A', 'B', 'C')
KINDS = ('And', 'Or', 'When')


def leaf_conditions():
    mt = _mt()
    return {'A': mt.VTR(tolerance=0.0, target=0.0),                       # cost[-1] == 0
            'B': mt.EvaluationLimits(generations=1, evaluations=None),     # generations >= 1
            'C': mt.SolverInterrupt()}                                     # _EARLYEXIT


def leaf_standins():
    """the 8 stand-ins, index k = 4*A + 2*B + C"""
    out = []
    for a, b, c in itertools.product((False, True), repeat=3):
        s = StandIn(energy_history=[4.0, 0.0 if a else 1.0], generations=1 if b else 0, _EARLYEXIT=c)
        out.append(((a, b, c), s))
    return out


def depth2_specs():
    """every expression of depth <= 2: leaves, When(leaf), And/Or of 1..3 leaves (84)"""
    specs = [('L', n) for n in LEAF_NAMES]
    specs += [('When', (('L', n),)) for n in LEAF_NAMES]
    for kind in ('And', 'Or'):
        for n in (1, 2, 3):
            for ch in itertools.product(LEAF_NAMES, repeat=n):
                specs.append((kind, tuple(('L', x) for x in ch)))
    return specs


def build(spec, leaves):
    """construct the mystic object of a spec (children first)"""
    mt = _mt()
    if spec[0] == 'L':
        return leaves[spec[1]]
    return getattr(mt, spec[0])(*[build(ch, leaves) for ch in spec[1]])


def rebuild(cond, memo=None):
    """rebuild from reported state by walking the *constructed* object, exactly as
    mystic.mask._update_masks does: type(condition)(*rebuilt members) for a compound,
    type(c)(**state(c)[doc]) for a leaf.  memo: id(member) -> already rebuilt member"""
    if memo is not None and id(cond) in memo:
        return memo[id(cond)]
    if isinstance(cond, tuple):
        return type(cond)(*[rebuild(ch, memo) for ch in cond])
    return rebuild_leaf(cond)


def try_rebuild(cond, memo=None):
    """(rebuilt, None) or (None, problem)"""
    try:
        return rebuild(cond, memo), None
    except Exception as e:
        return None, ('compound_rebuild', {'what': 'raises', 'error': type(e).__name__},
                      'rebuilding the expression member by member (as mystic.mask does) raised %s: %s' % (type(e).__name__, e))


def show(spec):
    if spec[0] == 'L':
        return spec[1]
    return '%s(%s)' % (spec[0], ', '.join(show(ch) for ch in spec[1]))


def spec_from_json(o):
    if o[0] == 'L':
        return ('L', o[1])
    return (o[0], tuple(spec_from_json(ch) for ch in o[1]))


def hazards(spec):
    """structural features of an expression, computed from the spec and from plain tuple
    equality of the constructed members (When/And/Or are tuple subclasses):
      unary_compound_member : a node whose only member is itself a compound
      tuple_equal_members   : a node with two distinct compound members that compare equal as tuples"""
    out = set()
    if spec[0] == 'L':
        return out
    ch = spec[1]
    if len(ch) == 1 and ch[0][0] != 'L':
        out.add('unary_compound_member')
    comp = [x for x in ch if x[0] != 'L']
    for i in range(len(comp)):
        for j in range(i + 1, len(comp)):
            if comp[i] != comp[j] and _flat(comp[i]) == _flat(comp[j]):
                out.add('tuple_equal_members')
    for x in ch:
        out |= hazards(x)
    return out


def _flat(spec):
    """what tuple equality sees of a constructed member (kinds are invisible to tuple.__eq__).
    Computed from the *documented* constructor (members kept as given)."""
    if spec[0] == 'L':
        return spec[1]
    return tuple(_flat(ch) for ch in spec[1])


def judge_tree(spec, cond, recond, k, s, exp, leaf_docs_true, modes):
    """problems of one (expression, assignment): list of (clause, extra sig, text)"""
    t_exp, docs_exp = exp
    out = []
    got = cond(s)
    info = cond(s, True)
    pieces = info.split('; ') if info else []
    if bool(got) is not t_exp:
        out.append(('compound_truth', {'got': bool(got)}, 'plain call gives %r, members say %r' % (got, t_exp)))
    elif bool(info) is not t_exp:
        out.append(('compound_truth', {'got': bool(info), 'via': 'info'}, 'info %r, members say %r' % (info, t_exp)))
    if not (got is True or got is False) or got != bool(info):
        out.append(('plain_vs_info', {'plain_type': type(got).__name__}, 'cond(s) = %r but bool(cond(s, info=True)) = %r' % (got, bool(info))))
    bad = [p for p in pieces if p not in leaf_docs_true]
    if bad:
        out.append(('compound_info', {'what': 'names_unsatisfied_or_unknown'},
                    'info %r names %r which is not the doc of a satisfied leaf' % (info, bad)))
    if 'self' in modes:
        slf = cond(s, 'self')
        if bool(slf) is not bool(got):
            out.append(('compound_self', {'what': 'emptiness'}, "cond(s,'self') = %r while cond(s) = %r" % (slf, got)))
        else:
            for m in slf:
                if not any(m is x for x in cond):
                    out.append(('compound_self', {'what': 'not_a_member'}, "cond(s,'self') returns %r which is not one of its members" % (m,)))
                elif not m(s):
                    out.append(('compound_self', {'what': 'unsatisfied_member'}, "cond(s,'self') returns the member %r which is itself not satisfied" % (m,)))
    if 'rebuild' in modes and recond is not None:
        g2, i2 = recond(s), recond(s, True)
        if g2 != got or set(i2.split('; ')) != set(info.split('; ')):
            out.append(('compound_rebuild', {}, 'rebuilt expression gives (%r, %r), the original (%r, %r)' % (g2, i2, got, info)))
    return out


class TreeLab(object):
    """depth-<=2 building blocks with their objects, rebuilt objects and reference parts"""

    def __init__(self):
        self.leaves = leaf_conditions()
        self.docs = {n: c.__doc__ for n, c in self.leaves.items()}
        self.standins = leaf_standins()
        self.specs = depth2_specs()
        self.objs = [build(sp, self.leaves) for sp in self.specs]
        self.reobjs = [rebuild(o) for o in self.objs]
        self.memo = {id(o): r for o, r in zip(self.objs, self.reobjs)}
        self.parts = []       # parts[i][k] = (truth, docs)
        for sp in self.specs:
            row = []
            for (a, b, c), s in self.standins:
                row.append(ref.compound(sp, {'A': a, 'B': b, 'C': c}, self.docs))
            self.parts.append(row)
        self.true_docs = [frozenset(self.docs[n] for n, v in zip(LEAF_NAMES, abc) if v) for abc, s in self.standins]


def run_tree(T, lab, kind, idx, modes, hist):
    """evaluate root `kind` over the depth-2 members idx under all 8 assignments"""
    mt = _mt()
    K = getattr(mt, kind)
    spec = (kind, tuple(lab.specs[i] for i in idx))
    cond = K(*[lab.objs[i] for i in idx])
    recond, reprob = try_rebuild(cond, lab.memo) if 'rebuild' in modes else (None, None)
    parts = [lab.parts[i] for i in idx]
    first = {}
    if reprob is not None:
        first[reprob[0]] = (reprob[1], reprob[2], 0)
    exact = True
    truth_mask = 0
    for k in range(8):
        s = lab.standins[k][1]
        exp = ref.combine(kind, [p[k] for p in parts])
        if exp[0]:
            truth_mask |= 1 << k
        # fast path: everything exactly as the reference says
        got = cond(s)
        if got is exp[0]:
            info = cond(s, True)
            if (frozenset(info.split('; ')) == exp[1]) if info else (not exp[1]):
                ok = True
                if 'self' in modes:
                    slf = cond(s, 'self')
                    ok = bool(slf) is got
                if ok and recond is not None:
                    ok = recond(s) is got and (frozenset(recond(s, True).split('; ')) == exp[1] if got else recond(s, True) == '')
                if ok:
                    continue
        probs = judge_tree(spec, cond, recond, k, s, exp, lab.true_docs[k], modes)
        if not probs:
            exact = False          # subset of the satisfied leaves but not exactly the expected names
        for clause, xs, msg in probs:
            if clause not in first:
                first[clause] = (xs, msg, k)
    ncalls = 8 * (2 + ('self' in modes) + 2 * ('rebuild' in modes))
    T.count('traces', 8)
    T.count('transitions', ncalls)
    hist['truth_table_%s' % ('constant' if truth_mask in (0, 255) else 'varies')] = hist.get('truth_table_%s' % ('constant' if truth_mask in (0, 255) else 'varies'), 0) + 1
    if first:
        hz = sorted(hazards(spec))
        hist['VIOLATION'] = hist.get('VIOLATION', 0) + 1
        for clause, (xs, msg, k) in first.items():
            sig = {'clause': clause, 'root': kind, 'structure': '+'.join(hz) if hz else 'plain'}
            sig.update(xs)
            abc = lab.standins[k][0]
            T.violate(sig, {'kind': 'tree', 'tree': spec, 'assignment': list(abc)},
                      '%s with A=%s B=%s C=%s (A=VTR(0,0), B=EvaluationLimits(1), C=SolverInterrupt()): %s'
                      % (show(spec), abc[0], abc[1], abc[2], msg))
    else:
        hist['holds_exact_info' if exact else 'holds_info_subset'] = hist.get('holds_exact_info' if exact else 'holds_info_subset', 0) + 1
    return truth_mask


def shard_trees(item):
    what, kind, n, first_idx, modes = item
    T = Tally()
    lab = TreeLab()
    N = len(lab.specs)
    hist = {}
    masks = set()
    ntrees = 0
    if what == 'small':
        # the depth <= 2 expressions themselves (each once), with every mode
        for i, sp in enumerate(lab.specs):
            cond, recond = lab.objs[i], lab.reobjs[i]
            ntrees += 1
            for k in range(8):
                s = lab.standins[k][1]
                exp = lab.parts[i][k]
                T.count('traces'); T.count('transitions', 5)
                if sp[0] == 'L':
                    probs = judge_leaf(sp[1], {}, cond, recond, s, exp[0])
                else:
                    probs = judge_tree(sp, cond, recond, k, s, exp, lab.true_docs[k], ('self', 'rebuild'))
                    st = _mt().state(cond)
                    want = set(lab.docs[x[1]] for x in sp[1])
                    if set(st) != want:
                        probs.append(('compound_state', {}, 'state() keys %r, leaves %r' % (sorted(st), sorted(want))))
                for clause, xs, msg in probs:
                    sig = {'clause': clause, 'root': sp[0], 'structure': 'plain'}
                    sig.update(xs)
                    T.violate(sig, {'kind': 'tree', 'tree': sp, 'assignment': list(lab.standins[k][0])},
                              '%s with A,B,C=%r: %s' % (show(sp), lab.standins[k][0], msg))
            T.nontriv(('tree', sp))
    else:
        if n == 1:
            combos = ((i,) for i in range(N))
        elif n == 2:
            combos = itertools.product(range(N), repeat=2)
        else:
            combos = ((first_idx,) + rest for rest in itertools.product(range(N), repeat=2))
        for idx in combos:
            ntrees += 1
            m = run_tree(T, lab, kind, idx, modes, hist)
            masks.add(m)
    T.count('expressions', ntrees)
    for k, v in hist.items():
        T.hist('C:%s' % kind, k, v)
        if k.startswith('holds') or k == 'VIOLATION':
            T.hist('C:all', k, v)
    # distinct (root kind, member count, first member, truth table) outcomes
    for m in masks:
        T.state(('tree', kind, n, first_idx, m))
        if m not in (0, 255):
            T.nontriv(('tree', kind, n, first_idx, m))
    if what != 'small' and n == 2:
        T.sample({'expression': show((kind, (lab.specs[10], lab.specs[40]))), 'leaves': {n_: lab.docs[n_] for n_ in LEAF_NAMES}}, 1)
    return T


# ------------------------------------------------------------------ R: real solvers
class Spy(object):
    """forwards every attribute read to the real solver and records its name"""

    def __init__(self, real):
        object.__setattr__(self, '_spy_real', real)
        object.__setattr__(self, '_spy_log', set())

    def __getattr__(self, name):
        self._spy_log.add(name)
        return getattr(self._spy_real, name)


def standin_from(solver):
    """a stand-in carrying deep copies of exactly the stand-in attributes of a real solver"""
    kw = {}
    for name in STANDIN_ATTRS:
        kw[name] = copy.deepcopy(getattr(solver, name))
    if hasattr(solver, 'gradient'):
        kw['gradient'] = copy.deepcopy(solver.gradient)
    return StandIn(**kw)


REAL_CONDITIONS = [
    ('VTR', {'tolerance': 0.01, 'target': 0.0}), ('VTR', {'tolerance': 0.5, 'target': 1.0}), ('VTR', {'tolerance': INF, 'target': 0.0}),
    ('ChangeOverGeneration', {'tolerance': 1e-6, 'generations': 2}), ('ChangeOverGeneration', {'tolerance': 0.125, 'generations': 3}),
    ('ChangeOverGeneration', {'tolerance': 0.0, 'generations': None}), ('ChangeOverGeneration', {'tolerance': 1e-6, 'generations': 30}),
    ('NormalizedChangeOverGeneration', {'tolerance': 1e-4, 'generations': 2}), ('NormalizedChangeOverGeneration', {'tolerance': 0.5, 'generations': 3}),
    ('NormalizedChangeOverGeneration', {'tolerance': 0.0, 'generations': 1}),
    ('CandidateRelativeTolerance', {'xtol': 1e-4, 'ftol': 1e-4}), ('CandidateRelativeTolerance', {'xtol': 1.0, 'ftol': 2.0}),
    ('CandidateRelativeTolerance', {'xtol': INF, 'ftol': INF}),
    ('SolutionImprovement', {'tolerance': 1e-5}), ('SolutionImprovement', {'tolerance': 0.75}), ('SolutionImprovement', {'tolerance': INF}),
    ('NormalizedCostTarget', {'fval': None, 'tolerance': 1e-6, 'generations': 2}), ('NormalizedCostTarget', {'fval': 1.0, 'tolerance': 0.5, 'generations': 3}),
    ('NormalizedCostTarget', {'fval': 0.0, 'tolerance': 0.5, 'generations': 2}),
    ('VTRChangeOverGeneration', {'ftol': 0.01, 'gtol': 1e-6, 'generations': 2, 'target': 0.0}),
    ('VTRChangeOverGeneration', {'ftol': 0.0, 'gtol': 0.125, 'generations': 3, 'target': 1.0}),
    ('PopulationSpread', {'tolerance': 1e-6}), ('PopulationSpread', {'tolerance': 0.5}), ('PopulationSpread', {'tolerance': 4.0}),
    ('GradientNormTolerance', {'tolerance': 1e-5, 'norm': INF}), ('GradientNormTolerance', {'tolerance': 1e3, 'norm': 2}),
    ('GradientNormTolerance', {'tolerance': 1.0, 'norm': 1}),
    ('EvaluationLimits', {'generations': 3, 'evaluations': None}), ('EvaluationLimits', {'generations': None, 'evaluations': 20}),
    ('EvaluationLimits', {'generations': None, 'evaluations': None}),
    ('SolverInterrupt', {}),
    # compounds: kwds is the list of members
    ('Or', [('VTR', {'tolerance': 0.01, 'target': 0.0}), ('ChangeOverGeneration', {'tolerance': 1e-6, 'generations': 2})]),
    ('And', [('EvaluationLimits', {'generations': 3, 'evaluations': None}), ('PopulationSpread', {'tolerance': 4.0})]),
    ('When', [('SolutionImprovement', {'tolerance': 0.75})]),
    ('And', [('Or', [('SolverInterrupt', {}), ('VTR', {'tolerance': 0.5, 'target': 1.0})]),
             ('NormalizedChangeOverGeneration', {'tolerance': 0.5, 'generations': 3})]),
]


def make_condition(name, kwds):
    mt = _mt()
    if name in KINDS:
        return getattr(mt, name)(*[make_condition(n, k) for n, k in kwds])
    return getattr(mt, name)(**kwds)


def ref_condition(name, kwds, s):
    """documented truth on a stand-in, compounds through ref.combine; None if any member is undecided"""
    if name in KINDS:
        parts = [ref_condition(n, k, s) for n, k in kwds]
        if any(p is None for p in parts):
            return None
        return ref.combine(name, [(p, frozenset()) for p in parts])[0]
    return ref_any(name, kwds, s)


def make_solver(name, cost_name, seed):
    """a real solver, configured and seeded, not yet stepped"""
    import mystic.solvers as ms
    from mc import solverlab
    mt = _mt()
    cost = solverlab.COSTS[cost_name]
    x0 = [0.8, -0.4] if cost_name != 'infwall' else [1.75, 0.5]
    if name == 'NM':
        s = ms.NelderMeadSimplexSolver(2)
        s.SetInitialPoints(x0)
    elif name == 'Powell':
        s = ms.PowellDirectionalSolver(2)
        s.SetInitialPoints(x0)
    elif name == 'DE':
        s = ms.DifferentialEvolutionSolver(2, 5)
        s.SetRandomInitialPoints([-1.0, -1.0], [2.0, 2.0])
    else:
        s = ms.DifferentialEvolutionSolver2(2, 5)
        s.SetRandomInitialPoints([-1.0, -1.0], [2.0, 2.0])
    s.SetObjective(cost)
    s.SetTermination(mt.VTR(-1.0))       # never satisfied by these costs
    return s


def real_case(solver_name, cost_name, seed, steps, T=None, only=None):
    """Step a real solver `steps` times; after every Step compare solver / spy / stand-in / reference"""
    mt = _mt()
    out = []
    rng = env.SeededRandom(1000 + seed)
    reads = {}
    with env.owned_random(rng):
        solver = make_solver(solver_name, cost_name, seed)
        for step in range(1, steps + 1):
            solver.Step()
            solver._EARLYEXIT = bool(step % 2)     # what the signal handler sets; cleared again before the next Step
            stand = standin_from(solver)
            for ci, (name, kwds) in enumerate(REAL_CONDITIONS):
                if only is not None and ci != only:
                    continue
                c = make_condition(name, kwds)
                import io, sys
                old = sys.stdout; sys.stdout = io.StringIO()
                try:
                    spy = Spy(solver)
                    r_real = (c(solver), c(solver, True))
                    r_spy = (c(spy), c(spy, True))
                    r_stand = (c(stand), c(stand, True))
                finally:
                    sys.stdout = old
                reads.setdefault(name, set()).update(spy._spy_log)
                solver._EARLYEXIT = False if ci == len(REAL_CONDITIONS) - 1 or only is not None else solver._EARLYEXIT
                extra = spy._spy_log - set(STANDIN_ATTRS) - set(OPTIONAL_ATTRS)
                case = {'kind': 'real', 'solver': solver_name, 'cost': cost_name, 'seed': seed, 'steps': step, 'condition': ci}
                where = '%s on %s after %d Step(s), %s(**%r)' % (solver_name, cost_name, step, name, kwds)
                if extra:
                    out.append(({'clause': 'standin_fidelity', 'factory': name, 'what': 'reads_unlisted_attribute'}, case,
                                '%s reads %r which the stand-in does not carry' % (where, sorted(extra))))
                if not (r_real == r_spy == r_stand):
                    out.append(({'clause': 'standin_fidelity', 'factory': name, 'what': 'answers_differ', 'solver': solver_name}, case,
                                '%s: solver %r, spy %r, stand-in %r' % (where, r_real, r_spy, r_stand)))
                if name == 'GradientNormTolerance':
                    exp = _real_gradient_ref(cost_name, solver, kwds)
                else:
                    exp = ref_condition(name, kwds, stand)
                if T is not None:
                    T.count('traces'); T.count('transitions', 6)
                    T.hist('R:' + name, {True: 'satisfied', False: 'unsatisfied', None: 'undecided_by_doc'}[exp])
                    T.state(('real', solver_name, cost_name, seed, step, ci, r_real[0]))
                    if exp is not None:
                        T.nontriv(('real', solver_name, cost_name, seed, step, ci))
                if exp is not None and bool(r_real[0]) is not exp:
                    sig = {'clause': 'inequality', 'factory': name, 'got': bool(r_real[0]), 'on': 'real_solver', 'solver': solver_name}
                    if name in HISTORY_FACTORIES:
                        sig['endpoints'] = ref.endpoint_class(ref.hkey(list(stand.energy_history), kwds.get('generations')))
                        sig.update(_kw_sig(name, kwds))
                    if name in ('CandidateRelativeTolerance', 'PopulationSpread'):
                        sig['npop'] = 'one' if len(stand.population) < 2 else 'many'
                    out.append((sig, case, '%s gives %r, the documented inequality is %s (energy_history=%r)'
                                % (where, r_real[0], exp, list(stand.energy_history)[-4:])))
    if T is not None:
        for name, names in reads.items():
            for n in names:
                T.hist('R:attributes_read', '%s.%s' % (name, n))
    return out


def _real_gradient_ref(cost_name, solver, kwds):
    """sphere has the gradient 2*(x - 0.3*(i+1)); judged only well away from the boundary"""
    if cost_name != 'sphere':
        return None
    g = [2.0 * (float(v) - 0.3 * (i + 1)) for i, v in enumerate(solver.bestSolution)]
    p = kwds['norm']
    gn = max(abs(v) for v in g) if p == INF else sum(abs(v) ** p for v in g) ** (1.0 / p)
    tol = kwds['tolerance']
    if abs(gn - tol) <= 1e-3 * max(1.0, tol):
        return None
    return gn <= tol


def shard_real(item):
    solver_name, cost_name, seed, steps = item
    T = Tally()
    for sig, case, text in real_case(solver_name, cost_name, seed, steps, T):
        T.violate(sig, case, text)
    T.sample({'solver': solver_name, 'cost': cost_name, 'seed': seed, 'steps': steps}, 1)
    return T


# ------------------------------------------------------------------ driver
def _dispatch(item):
    sect, payload = item
    return {'H': shard_history, 'P': shard_population, 'M': shard_misc, 'C': shard_trees, 'R': shard_real}[sect](payload)


def run(ctx):
    a = alphabets(ctx.thorough)
    items = []
    # C first: the heavy, evenly sized shards
    all_modes = ('self', 'rebuild')
    light = all_modes if ctx.thorough else ()
    n2 = len(depth2_specs())
    items.append(('C', ('small', 'all', 0, None, all_modes)))
    items.append(('C', ('big', 'When', 1, None, all_modes)))
    for kind in ('And', 'Or'):
        items.append(('C', ('big', kind, 1, None, all_modes)))
        items.append(('C', ('big', kind, 2, None, all_modes)))
        for i in range(n2):
            items.append(('C', ('big', kind, 3, i, light)))
    hc = history_conditions(a)
    for name, kwds in hc:
        items.append(('H', (name, kwds, a['energies'], a['maxlen'])))
    pc = []
    for xt, ft in itertools.product(a['tolerances'], repeat=2):
        pc.append(('CandidateRelativeTolerance', {'xtol': xt, 'ftol': ft}))
    for t in a['tolerances']:
        pc.append(('PopulationSpread', {'tolerance': t}))
        pc.append(('SolutionImprovement', {'tolerance': t}))
    for name, kwds in pc:
        nparts = 6 if (ctx.thorough and name == 'CandidateRelativeTolerance') else 1
        for part in range(nparts):
            items.append(('P', (name, kwds, a['pop_plans'], a['pop_energies'], part, nparts)))
    for what in ('gradient', 'limits', 'interrupt', 'time'):
        items.append(('M', (what, a)))
    steps = 12 if ctx.thorough else 6
    costs = ['sphere', 'rosen', 'infwall', 'steps'] if ctx.thorough else ['sphere', 'infwall']
    for sv in ('NM', 'Powell', 'DE', 'DE2'):
        for cn in costs:
            items.append(('R', (sv, cn, ctx.seed, steps)))
    nh = sum(len(a['energies']) ** n for n in range(a['maxlen'] + 1))
    ntree = 3 + 2 * (n2 + n2 ** 2 + n2 ** 3) + n2
    ctx.bounds = dict(a)
    ctx.bounds.update({
        'history_lengths': [0, a['maxlen']], 'histories': nh, 'history_conditions': len(hc),
        'population_conditions': len(pc),
        'expressions': {'leaves': {k: v.__doc__ for k, v in leaf_conditions().items()}, 'depth': 3, 'max_members': 3,
                        'depth2_building_blocks': n2, 'distinct_expressions': ntree, 'assignments': 8,
                        "modes_on_3-member_roots": ['plain', 'info'] + list(light),
                        'modes_elsewhere': ['plain', 'info', 'self', 'rebuild']},
        'real_solvers': ['NM', 'Powell', 'DE(NP=5)', 'DE2(NP=5)'], 'real_costs': costs, 'real_steps': steps,
        'real_conditions': len(REAL_CONDITIONS), 'factories': 12,
    })
    ctx.rule = ("a case is one (condition with settings, stand-in) pair, each evaluated plain, with info=True, with 'self' and on the "
                "condition rebuilt from its reported state; histories are ALL sequences of the length range over the energy alphabet; "
                "expressions are ALL And/Or/When trees of depth <= 3 with <= 3 members per node over leaves A,B,C, each under all 8 "
                "truth assignments. distinct_nontrivial counts: for history conditions the distinct (settings, cost[-g], cost[-1]) "
                "triples whose verdict is decided by the inequality (history long enough); for population / gradient / limit conditions the "
                "distinct stand-ins with a documented verdict; for expressions the distinct (root, member count, first member, truth table) "
                "classes whose truth table is not constant; for real solvers each (solver, cost, step, condition) with a documented verdict. "
                "states counts distinct (settings, what the documented formula reads, outcome).")
    ctx.assumptions = [
        "readings R1-R9 in ref/termination.py (DESIGN.md section 5: python indexing of cost[-g], window longer than history = not satisfied, equal endpoints = zero change)",
        "cases the docstring does not decide (reference None) are evaluated and counted as undecided_by_doc, never raised",
        "all alphabet values are dyadic rationals: float arithmetic is exact and NormalizedChangeOverGeneration's eta=1e-20 cannot decide a case",
        "TimeLimits is built, and rebuilt from its state, at the same frozen instant (its state does not carry the start time)",
        "CandidateRelativeTolerance's nPop<2 warning print is swallowed",
    ]
    if not ctx.thorough:
        ctx.explanation = ("quick evaluates the 3-member roots (2 x 84^3 expressions) with the plain and info calls only; "
                           "'self' and the rebuilt expression are checked on all expressions with <= 2 members at the root; thorough checks all modes everywhere")
    ctx.pmap(_dispatch, items)


# ------------------------------------------------------------------ replay
def _dec(o):
    if isinstance(o, dict):
        return {k: _dec(v) for k, v in o.items()}
    if isinstance(o, list):
        return [_dec(v) for v in o]
    if o == 'inf':
        return INF
    if o == '-inf':
        return -INF
    if o == 'nan':
        return float('nan')
    return o


def replay(case):
    case = _dec(case)
    mt = _mt()
    kind = case['kind']
    out = []
    if kind == 'static':
        T = Tally()
        static_checks(T, case['factory'], case['kwds'], getattr(mt, case['factory'])(**case['kwds']))
        out = [v['detail'] for v in T.violations.values()]
    elif kind == 'leaf':
        name, kwds = case['factory'], case['kwds']
        st = dict(case['standin'])
        if '_cost' in st:
            import numpy
            st['_cost'] = (None, {'_const_cost': _const_cost, '_linear_cost': _linear_cost}[st['_cost']], None)
            st['bestSolution'] = numpy.array(st['bestSolution'])
        s = StandIn(**st)
        c = getattr(mt, name)(**kwds)
        import io, sys
        old = sys.stdout; sys.stdout = io.StringIO()
        try:
            c2 = rebuild_leaf(c)
            if name == 'GradientNormTolerance' and '_cost' in st:
                grad = {'_const_cost': [0.0, 0.0], '_linear_cost': [3.0, 4.0][:len(st['bestSolution'])]}[case['standin']['_cost']]
                exp = ref.gradient_norm_tolerance(grad, kwds['tolerance'], kwds['norm'])
            else:
                exp = ref_any(name, kwds, s)
            probs = judge_leaf(name, kwds, c, c2, s, exp)
        finally:
            sys.stdout = old
        out = ['%s(**%r) on %r: %s' % (name, kwds, case['standin'], msg) for clause, xs, msg in probs]
    elif kind == 'time':
        out = ['TimeLimits(seconds=%r, system=%r) at tick %r: %s' % (case['seconds'], case['system'], tick, msg)
               for clause, xs, msg, tick in time_case(case['seconds'], case['system'], case['ticks'], case['reset_after'])]
    elif kind == 'tree':
        spec = spec_from_json(case['tree'])
        leaves = leaf_conditions()
        docs = {n: c.__doc__ for n, c in leaves.items()}
        cond = build(spec, leaves)
        recond, reprob = try_rebuild(cond)
        abc = tuple(bool(v) for v in case['assignment'])
        s = dict(leaf_standins())[abc]
        truth = dict(zip(LEAF_NAMES, abc))
        exp = ref.compound(spec, truth, docs)
        true_docs = frozenset(docs[n] for n in LEAF_NAMES if truth[n])
        if spec[0] == 'L':
            probs = judge_leaf(spec[1], {}, cond, recond, s, exp[0])
        else:
            probs = judge_tree(spec, cond, recond, 0, s, exp, true_docs, ('self', 'rebuild'))
            if reprob is not None:
                probs.append(reprob)
        out = ['%s with A,B,C=%r: %s' % (show(spec), abc, msg) for clause, xs, msg in probs]
    elif kind == 'real':
        out = [text for sig, c, text in real_case(case['solver'], case['cost'], case['seed'], case['steps'], None, case['condition'])
               if c['steps'] == case['steps']]
    return out
