"""C14 - compiled condition and penalty functions measure exactly the stated violation.

Engine E3.  Every constraint text of the alphabet is compiled once by the real
``generate_conditions`` / ``generate_penalty`` (and ``generate_solvers`` /
``generate_constraint`` for the last clause) and evaluated on the complete grid plus
points built to lie exactly on each line's boundary.  The oracle parses the text with
``ref/ratexpr.py`` and works in exact rationals; the documented penalty expressions
(docstrings of mystic.penalty) are evaluated in rationals too.
"""
import itertools, math, io, contextlib
from fractions import Fraction as F
import numpy as np
from mc import env
from mc.runner import Tally
from ref import ratexpr as R

INF = float('inf')
GRID7 = [-3.0, -1.0, 0.0, 0.5, 1.0, 2.0, 3.0]
CMPS = ['=', '==', '<', '<=', '>', '>=', '!=']
LHS = ['{0}', '2*{0}-{2}', '{0}*{1}']
RHS = ['{1}+1', '{1}', '3']
RHS_Q = ['{1}+pi', 'pi']               # need locals={'pi': 0.5}; the name is also exported by math / numpy: the user's value must win
QVAL = 0.5
TOL = REL = F(1e-15)                   # documented defaults (the doubles, exactly)

ABC = ['a', 'b', 'c']
AL = list('ABCDEFGHIJKL')
# name, variables, dimension, indices standing for {0},{1},{2}
SCHEMES = [('x3', 'x', 3, (0, 1, 2)), ('abc', ABC, 3, (0, 1, 2)), ('x12', 'x', 12, (1, 10, 11)), ('A-L', AL, 12, (1, 10, 11))]
SCHEME = {s[0]: s for s in SCHEMES}

LINES = [(l, c, r) for l in LHS for c in CMPS for r in RHS]                 # 63
LINES_Q = [(l, c, r) for l in LHS for c in CMPS for r in RHS_Q]             # 42, use the extra constant
# a covering subset: every comparator twice, every lhs and rhs (Latin-square style)
COVER = [(LHS[(i + j) % 3], c, RHS[(2 * i + j) % 3]) for i, c in enumerate(CMPS) for j in (0, 1)]   # 14

FAMILIES = ['quadratic', 'linear', 'uniform']
DEFAULT_KH = {'quadratic': (100, 5), 'linear': (100, 5), 'uniform': (INF, 5)}


def vname(variables, k):
    return '%s%d' % (variables, k) if isinstance(variables, str) else variables[k]


def line_text(scheme, spec):
    name, variables, n, idx = SCHEME[scheme]
    names = [vname(variables, k) for k in idx]
    l, c, r = spec
    return '%s %s %s' % (l.format(*names), c, r.format(*names))


def filler(n):
    return [10.0 + 0.25 * k for k in range(n)]


def same(u, v):
    return u == v or (u != u and v != v)


# ------------------------------------------------------------------ reference
def tol_of(q):
    return TOL + abs(q) * REL


_cache = {}


def line_facts(rel, x):
    """exact (oriented lhs-rhs, documented epsilon shift, holds) of one line at x"""
    key = (rel.text, tuple(x))
    v = _cache.get(key)
    if v is None:
        l, r = rel.sides(x, 'exact')
        d = l - r
        if rel.cmp in ('>', '>='):
            d = -d
        eps = tol_of(r) if rel.cmp in ('<', '>') else F(0)
        v = _cache[key] = (d, eps, R._compare(rel.cmp, l, r))
        if len(_cache) > 400000:
            _cache.clear()
    return v


def kind_of(rel):
    """container mystic documents for the line: inequalities / equalities ('!=' is filed with the equalities)"""
    return 'inequality' if rel.cmp in ('<', '<=', '>', '>=') else 'equality'


def ref_term(ptype, f, k, h, n):
    """documented per-line penalty (mystic.penalty docstrings); f is the condition value"""
    if k == INF:
        pk = INF
    else:
        pk = F(k) * F(h) ** n
    fam, kind = ptype.split('_')
    if kind == 'equality':
        if fam == 'quadratic':
            return pk * f * f
        if fam == 'linear':
            return pk * abs(f)
        return pk if f != 0 else F(0)
    pos = max(F(0), f)
    if fam == 'quadratic':
        return 2 * pk * pos * pos
    if fam == 'linear':
        return 2 * pk * pos
    return pk if f > 0 else F(0)


def feasible_in_x0(rels, x, j):
    """is there a real value of x[j] satisfying every line (each line is x[j] CMP r, r free of x[j])"""
    rs = sorted(set(rel.sides(x, 'exact')[1] for rel in rels))
    cands = set(rs) | {rs[0] - 1, rs[-1] + 1} | set((a + b) / 2 for a, b in zip(rs, rs[1:]))
    for t in cands:
        y = list(x); y[j] = t
        if all(rel.holds(y, 'exact') for rel in rels):
            return True
    return False


# ------------------------------------------------------------------ points
def points_for(scheme, rels):
    name, variables, n, idx = SCHEME[scheme]
    pts, seen = [], set()

    def add(x, tag):
        k = tuple(x)
        if k not in seen:
            seen.add(k)
            pts.append((x, tag))
    for v in itertools.product(GRID7, repeat=3):
        x = filler(n)
        for k, val in zip(idx, v):
            x[k] = val
        add(x, 'grid')
    for rel in rels:
        for j in idx[:1] + idx[2:]:                      # solve for {0}, and for {2} where the line mentions it
            if j not in rel.variables():
                continue
            others = [k for k in idx if k != j]
            for v in itertools.product(GRID7, repeat=2):
                x = filler(n)
                for k, val in zip(others, v):
                    x[k] = val
                t = R.boundary_value(rel, x, j)
                if t is not None:
                    x[j] = t
                    add(x, 'boundary')
    return pts


# ------------------------------------------------------------------ one program
def ptype_list(family, rels):
    """explicit ptype list in the documented order: inequalities first, then equalities"""
    kinds = [kind_of(r) for r in rels]
    return ['%s_%s' % (family, k) for k in kinds if k == 'inequality'] + ['%s_%s' % (family, k) for k in kinds if k == 'equality']


def program(T, scheme, specs, given, configs, containers, constraint_clause, join_clause):
    import mystic.symbolic as ms
    import mystic.penalty as mp
    import mystic.coupler as cp
    name, variables, n, idx = SCHEME[scheme]
    text = '\n'.join(line_text(scheme, s) for s in specs)
    use_q = any('pi' in s[2] for s in specs)
    consts = {'pi': QVAL} if use_q else None
    nvars = n if given else None
    rels = R.parse(text, variables, locals=consts)
    mvars = variables if isinstance(variables, str) else list(variables)
    base = {'text': text, 'variables': variables, 'nvars': nvars, 'locals': consts}
    cmps = '+'.join(sorted(set(r.cmp for r in rels)))
    sigbase = {'scheme': name, 'nlines': len(rels), 'locals': bool(use_q)}
    T.hist('programs', '%d line(s)' % len(rels))
    try:
        with contextlib.redirect_stdout(io.StringIO()):
            ineqf, eqf = ms.generate_conditions(text, variables=mvars, nvars=nvars, locals=dict(consts) if consts else None)
    except Exception as e:
        T.count('traces')
        T.violate(dict(sigbase, clause='build_raised', error=type(e).__name__), base,
                  'generate_conditions(%r, variables=%r, nvars=%r) raised %s: %s' % (text, variables, nvars, type(e).__name__, e))
        return
    irels = [r for r in rels if kind_of(r) == 'inequality']
    erels = [r for r in rels if kind_of(r) == 'equality']
    if len(ineqf) != len(irels) or len(eqf) != len(erels) or \
            any(f.__name__ != 'inequality' for f in ineqf) or any(f.__name__ != 'equality' for f in eqf):
        T.count('traces')
        T.violate(dict(sigbase, clause='containers', cmp=cmps), base,
                  'generate_conditions(%r) returned %d inequality and %d equality functions (names %r); the text has %d and %d'
                  % (text, len(ineqf), len(eqf), [f.__name__ for f in ineqf + eqf], len(irels), len(erels)))
        return
    ordered = irels + erels
    conds = list(ineqf) + list(eqf)
    pts = points_for(scheme, rels)

    def as_input(x, array):
        return np.array(x, dtype=float) if array else list(x)

    # ---- clause 1: condition functions
    observed = {}
    for array in containers:
        for x, tag in pts:
            T.count('traces')
            T.count('transitions', len(conds))
            for rel, f in zip(ordered, conds):
                d, eps, holds = line_facts(rel, x)
                try:
                    got = f(as_input(x, array))
                    g = float(got)
                except Exception as e:
                    T.violate(dict(sigbase, clause='condition_raised', cmp=rel.cmp, error=type(e).__name__),
                              dict(base, x=x, array=array), 'condition %r raised %s: %s at %r' % (f.__doc__, type(e).__name__, e, x))
                    continue
                if not array:
                    observed[(rel.text, tuple(x))] = g
                msg = None
                if rel.cmp == '!=':
                    # no lhs-rhs reading exists for '!=': zero iff it holds, positive otherwise
                    if (g == 0) != holds or g < 0:
                        msg = 'value %r but the line %s' % (got, 'holds' if holds else 'fails')
                elif kind_of(rel) == 'equality':
                    if g != float(d):
                        msg = 'value %r, lhs-rhs is %s' % (got, d)
                elif eps == 0:
                    if g != float(d):
                        msg = 'value %r, oriented lhs-rhs is %s' % (got, d)
                    elif (g <= 0) != holds:
                        msg = 'value %r but the line %s' % (got, 'holds' if holds else 'fails')
                else:
                    if (g <= 0) != holds:
                        msg = 'value %r but the line %s (oriented lhs-rhs %s)' % (got, 'holds' if holds else 'fails', d)
                    elif abs(F(g) - (d + eps)) > F(2e-15) * max(1, abs(d)):
                        msg = 'value %r, documented expression lhs-rhs+tolerance(rhs) is %s + %.3g' % (got, d, float(eps))
                T.hist('condition_outcome', '%s %s' % (kind_of(rel) if rel.cmp != '!=' else 'disequality',
                                                      'satisfied' if holds else 'violated'))
                if msg:
                    T.violate(dict(sigbase, clause='condition_value', cmp=rel.cmp, lhs=specs[rels.index(rel)][0], rhs=specs[rels.index(rel)][2]),
                              dict(base, x=x, array=array, line=rel.text),
                              'condition function of %r (%r) at %r: %s' % (rel.text, f.__doc__, x, msg))

    # ---- clause 2/3: penalties
    allhold, fvals = {}, {}
    for x, tag in pts:
        kx = tuple(x)
        allhold[kx] = all(line_facts(rel, x)[2] for rel in rels)
        row = []
        for rel in ordered:
            d, eps, holds = line_facts(rel, x)
            fval = (F(0) if holds else F(1)) if rel.cmp == '!=' else d + eps
            if eps != 0 and math.isfinite(observed.get((rel.text, kx), INF)):
                # the shifted value (judged in clause 1) is rounded at the scale of rhs: use the observed one in the documented formula
                fval = F(observed[(rel.text, kx)])
            row.append((fval, eps != 0))
        fvals[kx] = row
    npos = nzero = 0
    default_pf = None
    for family, k, h, ns, join in configs:
        if family is None:
            ptypes = ['quadratic_' + kind_of(r) for r in ordered]
            arg = None
        else:
            ptypes = ptype_list(family, rels)
            arg = [getattr(mp, p) for p in ptypes]
            if len(set(ptypes)) == 1 and (len(ptypes) > 1 or k == 1):
                arg = arg[0]                         # a single ptype for all conditions is also accepted
        kw = {}
        if k is not None:
            kw['k'] = k
        if h is not None:
            kw['h'] = h
        if join:
            kw['join'] = cp.and_
            if arg is not None and isinstance(arg, list):
                arg = (arg[:len(irels)], arg[len(irels):])
        fam = family or 'quadratic'
        kk, hh = DEFAULT_KH[fam]
        kk = kk if k is None else k
        hh = hh if h is None else h
        cfg = {'ptype': family or 'default', 'k': k, 'h': h, 'join': bool(join)}
        try:
            pf = ms.generate_penalty((ineqf, eqf), arg, **kw)
        except Exception as e:
            T.count('traces')
            T.violate(dict(sigbase, clause='penalty_build_raised', error=type(e).__name__, **cfg), dict(base, config=cfg),
                      'generate_penalty for %r with %r raised %s: %s' % (text, cfg, type(e).__name__, e))
            continue
        if family is None and k is None and h is None and not join:
            default_pf = pf
        cur = 0
        # after the documented iterations: clear() must bring the generated penalty back to what it was when new
        steps = list(ns) + (['clear'] if max(ns) > 0 else [])
        for nn in steps:
            cleared = (nn == 'clear')
            if cleared:
                pf.clear()
                cur = nn = 0
            while cur < nn:
                pf.iter()
                cur += 1
            for x, tag in (pts[::6] if cleared else pts):
                T.count('traces')
                T.count('transitions', len(conds))
                try:
                    got = float(pf(list(x)))
                except Exception as e:
                    T.violate(dict(sigbase, clause='penalty_raised', error=type(e).__name__, **cfg), dict(base, x=x, config=cfg, n=nn),
                              'penalty for %r with %r raised %s: %s at %r' % (text, cfg, type(e).__name__, e, x))
                    continue
                ref, shifted = F(0), False
                for (fval, strict), p in zip(fvals[tuple(x)], ptypes):
                    t = ref_term(p, fval, kk, hh, nn)
                    if t != 0 and strict:
                        shifted = True
                    ref = INF if (t == INF or ref == INF) else ref + t
                ok = allhold[tuple(x)]
                if got == 0:
                    nzero += 1
                else:
                    npos += 1
                msg = None
                if (got == 0) != ok or got < 0 or got != got:
                    msg = 'penalty %r but %s' % (got, 'every line holds' if ok else 'some line fails')
                    clause = 'penalty_zero_iff_feasible'
                elif ref == INF:
                    if got != INF:
                        msg = 'penalty %r, documented sum is inf' % got
                        clause = 'penalty_value'
                elif shifted:
                    if got == INF or abs(F(got) - ref) > ref * F(1e-12):
                        msg = 'penalty %r, documented sum is %.17g' % (got, float(ref))
                        clause = 'penalty_value'
                elif got == INF or F(got) != ref:
                    msg = 'penalty %r, documented sum is %s' % (got, ref)
                    clause = 'penalty_value'
                if msg:
                    T.violate(dict(sigbase, clause=clause, cmp=cmps, n=nn, after_clear=cleared, **cfg), dict(base, x=x, config=cfg, n=nn),
                              '%r with %r after %s: at %r %s' % (text, cfg, ('%d iter() and clear()' % max(ns)) if cleared else '%d iter()' % nn, x, msg))
                if not ok:
                    T.nontriv((text, name, nvars, tuple(x)))
    T.count('states', len(pts))
    T.hist('penalty_outcome', 'zero', nzero)
    T.hist('penalty_outcome', 'positive', npos)

    # ---- clause 4: penalty(constraint(x)) == 0
    if constraint_clause and default_pf is not None:
        iso = all(s[0] == '{0}' for s in specs)
        ctext, route = text, 'same text'
        if not iso:
            if len(specs) != 1 or specs[0][0] != '2*{0}-{2}' or use_q or n != 3:
                T.hist('constraint_clause', 'not applicable (a left-hand side is not an isolated variable)')
                return
            try:
                with env.owned_random(env.SeededRandom(0)), contextlib.redirect_stdout(io.StringIO()):
                    ctext = ms.simplify(text, variables=mvars)
                route = 'simplify(text)'
            except Exception as e:
                T.hist('constraint_clause', 'simplify raised %s' % type(e).__name__)
                return
        try:
            with contextlib.redirect_stdout(io.StringIO()):
                c = ms.generate_constraint(ms.generate_solvers(ctext, variables=mvars, nvars=nvars,
                                                               locals=dict(consts) if consts else None))
        except Exception as e:
            T.violate(dict(sigbase, clause='constraint_build_raised', error=type(e).__name__, route=route), dict(base, constraint_text=ctext),
                      'generate_solvers/generate_constraint(%r) raised %s: %s' % (ctext, type(e).__name__, e))
            return
        j = idx[0]
        for x, tag in pts:
            if iso and not feasible_in_x0(rels, x, j):
                T.hist('constraint_clause', 'lines conflict at the point (not judged)')
                continue
            T.count('traces')
            T.count('transitions', len(conds) + 1)
            try:
                y = c(list(x))
                got = float(default_pf([float(v) for v in y]))
            except Exception as e:
                T.violate(dict(sigbase, clause='constraint_raised', error=type(e).__name__, route=route), dict(base, x=x, constraint_text=ctext),
                          'penalty(constraint(%r)) for %r raised %s: %s' % (x, text, type(e).__name__, e))
                continue
            if route == 'same text':
                T.hist('constraint_clause', 'same text: penalty zero' if got == 0 else 'same text: penalty positive')
                bad = got != 0
            else:       # rearranged text: the relative tolerance is not invariant under the rearrangement; judge beyond that level
                T.hist('constraint_clause', 'simplified text: penalty zero' if got == 0 else
                       ('simplified text: positive at tolerance level (<=1e-20)' if got <= 1e-20 else 'simplified text: penalty positive'))
                bad = not (got <= 1e-20)
            if bad:
                T.violate(dict(sigbase, clause='penalty_after_constraint', cmp=cmps, route=route), dict(base, x=x, constraint_text=ctext),
                          'constraint from %r maps %r to %r where the penalty from %r is %r, not 0'
                          % (ctext, x, [float(v) for v in y], text, got))


# penalty configurations: (family or None=default ptype, k, h, iterations n at which it is evaluated, join)
def configs_full():
    out = [(None, None, None, (0, 1), False), (None, None, None, (0,), True)]
    for fam in FAMILIES:
        out.append((fam, None, None, (0, 1), False))
        for k in (1, 100):
            for h in (1, 5):
                out.append((fam, k, h, (0, 1, 2), False))
        out.append((fam, 100, 5, (0,), True))
    out.append((None, 1, 5, (0, 2), False))
    return out


def configs_light():
    return [(None, None, None, (0,), False), ('linear', 100, 1, (1,), False), ('uniform', 1, 5, (2,), False),
            ('uniform', None, None, (0,), False), ('quadratic', 1, 1, (0,), True)]


CONFIGS = {'full': configs_full(), 'light': configs_light(), 'default': [(None, None, None, (0,), False)]}


def shard(item):
    T = Tally()
    for scheme, specs, given, cfgname, arrays, cclause in item:
        program(T, scheme, specs, given, CONFIGS[cfgname], (False, True) if arrays else (False,), cclause, True)
    if item:
        scheme, specs = item[0][0], item[0][1]
        T.sample({'scheme': scheme, 'text': '\n'.join(line_text(scheme, s) for s in specs), 'penalty_configs': item[0][3]})
    return T


# ------------------------------------------------------------------ (H) histories: compiled conditions / penalties are values
HIST = [
    ('x0 <= a*x1 + b', {'a': 2.0, 'b': 1.0}),
    ('x0 <= a*x1 + b', {'a': -1.0, 'b': 0.5}),
    ('x0 = q', {'q': 1.0}),
    ('x0 = q', {'q': -2.0}),
    ('x0 - x1 >= q\nx1 <= 2', {'q': 0.5}),
    ('x1 >= 3', None),
    ('x0 > 2.0', {'tol': 0.25, 'rel': 0.0}),        # disturbers: differential only
    ('x0 < x1', {'tol': 0.0, 'rel': 0.5}),
]
HIST_JUDGED = 6
HGRID = [-3.0, -1.0, 0.0, 0.5, 1.0, 2.0, 3.0]


def hist_build(text, consts):
    import mystic.symbolic as ms
    with contextlib.redirect_stdout(io.StringIO()):
        ineqf, eqf = ms.generate_conditions(text, variables='x', nvars=2, locals=dict(consts) if consts else None)
        pen = ms.generate_penalty((ineqf, eqf), k=10)
    return list(ineqf), list(eqf), pen


def hist_values(fs, pts):
    ineqf, eqf, pen = fs
    out = []
    for x in pts:
        row = []
        for f in ineqf + eqf + [pen]:
            try:
                row.append(float(f(list(x))))
            except Exception as e:
                row.append('raised %s' % type(e).__name__)
        out.append(tuple(row))
    return out


def hist_reference(text, consts):
    import re
    for name, val in (consts or {}).items():
        if name not in ('tol', 'rel'):
            text = re.sub(r'\b%s\b' % re.escape(name), '(%r)' % float(val), text)
    return R.parse(text, 'x')


def shard_history(item):
    """every ordered sequence of `depth` distinct programs of HIST: after each generate_conditions/generate_penalty every
    function generated earlier is evaluated on the whole grid again and must give what it gave when it was new; when new,
    the judged programs must have penalty 0 exactly where every line (with its own constants) holds"""
    _, first, depth = item
    T = Tally()
    pts = [list(p) for p in itertools.product(HGRID, repeat=2)]
    others = [k for k in range(len(HIST)) if k != first]
    for tail in itertools.permutations(others, depth - 1):
        seq = (first,) + tail
        built = []
        T.count('traces')
        for pos, k in enumerate(seq):
            text, consts = HIST[k]
            case = {'kind': 'history', 'sequence': list(seq[:pos + 1])}
            try:
                fs = hist_build(text, consts)
            except Exception as e:
                T.violate({'part': 'history', 'clause': 'build_raised', 'error': type(e).__name__}, case,
                          'generate_conditions(%r, locals=%r) raised %s: %s' % (text, consts, type(e).__name__, e))
                break
            vals = hist_values(fs, pts)
            built.append((k, fs, vals))
            T.count('transitions', len(pts))
            if k < HIST_JUDGED:
                rels = hist_reference(text, consts)
                for x, row in zip(pts, vals):
                    holds = all(r.holds(x, 'exact') for r in rels)
                    pv = row[-1]
                    if isinstance(pv, str) or (pv == 0.0) != holds or pv < 0:
                        T.violate({'part': 'history', 'clause': 'penalty_zero_iff_holds', 'position': 'first' if pos == 0 else 'later'},
                                  dict(case, x=x),
                                  'after generating %r: penalty of %r with locals %r at %r is %r while the text %s there'
                                  % ([HIST[j][0] for j in seq[:pos + 1]], text, consts, x, pv, 'holds' if holds else 'fails'))
                        break
            for (j, fj, vj) in built[:-1]:
                again = hist_values(fj, pts)
                T.count('transitions', len(pts))
                if again != vj:
                    i = [a != b for a, b in zip(again, vj)].index(True)
                    T.violate({'part': 'history', 'clause': 'changed_by_a_later_build', 'same_text': HIST[j][0] == text,
                               'later_sets_tolerance': bool(consts and 'tol' in consts)},
                              dict(case, x=pts[i], earlier=j),
                              'conditions+penalty of %r (locals %r) gave %r at %r when new, and %r after generate_conditions(%r, locals=%r)'
                              % (HIST[j][0], HIST[j][1], vj[i], pts[i], again[i], text, consts))
                    break
        T.state(('H', seq, tuple(v for _, _, v in built)))
        if len(set(HIST[k][0] for k in seq)) < len(seq) or any(HIST[k][1] and 'tol' in HIST[k][1] for k in seq[1:]):
            T.nontriv(('H', seq))
    T.hist('programs', 'history')
    if T.n.get('traces'):
        T.sample({'history': [list(map(str, HIST[k])) for k in ((first,) + tuple(others[:depth - 1]))]})
    return T


def replay_history(case):
    seq, x = case['sequence'], case['x']
    out, built = [], []
    for k in seq:
        text, consts = HIST[k]
        fs = hist_build(text, consts)
        built.append((k, fs, hist_values(fs, [x])))
        for (j, fj, vj) in built[:-1]:
            again = hist_values(fj, [x])
            if again != vj:
                out.append('%r (locals %r) at %r: %r when new, %r after generating %r (locals %r)'
                           % (HIST[j][0], HIST[j][1], x, vj[0], again[0], text, consts))
    k = seq[-1]
    if k < HIST_JUDGED:
        text, consts = HIST[k]
        holds = all(r.holds(x, 'exact') for r in hist_reference(text, consts))
        pv = built[-1][2][0][-1]
        if isinstance(pv, str) or (pv == 0.0) != holds:
            out.append('penalty of %r (locals %r) at %r is %r while the text %s' % (text, consts, x, pv, 'holds' if holds else 'fails'))
    return out


def _dispatch(item):
    if isinstance(item, tuple) and item and item[0] == 'H':
        return shard_history(item)
    return shard(item)


def _chunks(seq, k):
    return [seq[i:i + k] for i in range(0, len(seq), k)]


def run(ctx):
    th = ctx.thorough
    progs = []
    # one line: every line, every scheme, nvars given and omitted; quick: the full penalty matrix and ndarray inputs for scheme x3 with nvars given
    for scheme in SCHEME:
        for spec in LINES + LINES_Q:
            for given in (True, False):
                full = th or (scheme == 'x3' and given)
                progs.append((scheme, (spec,), given, 'full' if full else 'light', full, True))
    # two lines
    second = LINES if th else COVER
    for a in LINES:
        for b in second:
            progs.append(('x3', (a, b), True, 'full' if th else 'light', False, True))
    if not th:      # the other order (thorough has every ordered pair already)
        for a in LINES:
            for b in COVER[::2]:
                if a != b and a not in COVER:
                    progs.append(('x3', (b, a), True, 'default', False, True))
    for scheme in ('abc', 'x12', 'A-L'):
        for a in (LINES if th else COVER[::2]):
            for b in COVER:
                progs.append((scheme, (a, b), scheme != 'x12', 'light', False, True))
    for a in LINES_Q:
        for b in (COVER[::2] if th else COVER[::5]):
            progs.append(('x3', (a, b), True, 'light', False, True))
    # three lines
    third = [(COVER[i], COVER[(i + 5) % 14]) for i in range(0, 14, 4 if not th else 1)]
    if th:
        third += [(a, b) for a in COVER for b in COVER[1::3]]
        third = sorted(set(third))
    for a in LINES:
        for b, c in third:
            progs.append(('x3', (a, b, c), True, 'light', False, True))
    for b, c in third[:2]:
        for a in COVER:
            progs.append(('x12', (b, a, c), True, 'light', False, True))
    one = [p for p in progs if len(p[1]) == 1]
    rest = [p for p in progs if len(p[1]) > 1]
    items = _chunks(one, 4) + _chunks(rest, 12)
    # interleave long and short shards
    a, b = items[:len(_chunks(one, 4))], items[len(_chunks(one, 4)):]
    items = [it for pair in itertools.zip_longest(a, b) for it in pair if it is not None]
    ctx.bounds = {
        'lhs': LHS, 'rhs': RHS, 'rhs_with_locals_constant(pi=0.5)': RHS_Q, 'comparators': CMPS, 'values': GRID7,
        'schemes(name,variables,dim,indices of {0},{1},{2})': [list(map(str, s)) for s in SCHEMES],
        'programs': {'1 line': len(one), '2 lines': len([p for p in rest if len(p[1]) == 2]), '3 lines': len([p for p in rest if len(p[1]) == 3])},
        'second_lines': 'all 63' if th else COVER, 'third_line_pairs': len(third),
        'penalty_configs(family,k,h,iterations,join)': {k: v for k, v in CONFIGS.items()},
        'penalty_configs_used': 'full for all 1-line and all x3 2-line programs, light elsewhere' if th else
                                'full (and ndarray inputs) for 1-line programs of scheme x3 with nvars given, default only for the reversed-order 2-line programs, light elsewhere',
        'points': 'values^3 over the three variables (12-variable texts: x1,x10,x11, other coordinates hold fillers 10+k/4) plus, per line, '
                  'the points with {0} (and {2} where present) solved exactly onto the boundary for every value pair of the others',
    }
    ctx.rule = ("each text is compiled once; one trace = one evaluation of all its condition functions, or of one penalty configuration, "
                "or of penalty(constraint(x)), at one point; non-trivial = (text, point) pairs at which some line fails, so that the "
                "penalty must be positive")
    ctx.assumptions = [
        "values are small dyadic rationals, so double arithmetic on lhs-rhs is exact and is compared with == against the rational value",
        "strict '<' '>' conditions carry the documented shift tolerance(rhs)=1e-15+1e-15*|rhs| (compared within 2e-15 relative); "
        "no grid or boundary point lies strictly inside that margin, so 'holds iff value <= 0' is judged exactly",
        "'!=' has no lhs-rhs reading: its condition must be 0 where the line holds and positive elsewhere; its penalty term uses f=1",
        "explicit penalty types are given per condition with the family's equality type for '=', '==', '!=' and inequality type otherwise",
        "penalty terms of a violated strict line are computed by the documented formula from the observed condition value (itself judged "
        "against lhs-rhs+tolerance(rhs)) and compared to 1e-12 relative; all other penalty values are compared exactly",
        "penalty(constraint(x))==0 is judged for texts whose lines all have the isolated variable {0} on the left, at points where the lines "
        "do not conflict; one-line texts with lhs 2*{0}-{2} go through simplify() first and are judged beyond the tolerance level (1e-20); "
        "lhs {0}*{1} needs a sign case split (C12) and is not part of this clause",
    ]
    items += [('H', first, 3 if th else 2) for first in range(len(HIST))]
    ctx.bounds['history_programs(text,locals)'] = [list(map(str, h)) for h in HIST]
    ctx.bounds['history_depth'] = 3 if th else 2
    ctx.pmap(_dispatch, items)


def replay(case):
    T = Tally()
    if case.get('kind') == 'history':
        return replay_history(case)
    text, variables = case['text'], case['variables']
    # rebuild the (scheme, specs) description from the text
    for scheme in SCHEME:
        if SCHEME[scheme][1] == variables:
            table = {line_text(scheme, s): s for s in LINES + LINES_Q}
            lines = [l for l in text.splitlines() if l.strip()]
            if all(l in table for l in lines) and (case['nvars'] in (None, SCHEME[scheme][2])):
                specs = tuple(table[l] for l in lines)
                cfgs = CONFIGS['full'] + CONFIGS['light']
                program(T, scheme, specs, case['nvars'] is not None, cfgs, (False, True), True, True)
                break
    out = []
    want = case.get('x')
    for v in T.violations.values():
        out.append(v['detail'])
    if want is not None:
        hit = [d for d in out if repr(want) in d]
        out = hit or out
    return out
