"""C05 - stopping discipline: limits, termination and exit requests are honoured.

Engine E1.  (A) every op sequence up to a depth over a 10-op alphabet;
(B) structured histories Step^k . SetEvaluationLimits(g,e,new) . tail for the
complete limit alphabet; (C) the four scipy-style wrappers over all limit pairs.
The harness keeps its own model of the absolute limits (G, E) from the
documented semantics and observes, at the moment every iteration begins, the
real counters, the exit flag and the truth of the termination condition.
"""
import itertools, tempfile, shutil
import numpy as np
from mc import graph, solverlab
from mc.runner import Tally

SCALES = {'NM': (200, 200), 'Powell': (1000, 1000), 'DE': (10, 1000), 'DE2': (10, 1000)}


def defaults(cfg):
    n = cfg.get('dim', 2)
    npop = cfg.get('npop', 4) if cfg['solver'].startswith('DE') else 1
    npop = max(npop, n, 4) if cfg['solver'].startswith('DE') else 1
    gi, ei = SCALES[cfg['solver']]
    return n * npop * gi, n * npop * ei


ALPHABET = [
    ['Step'],
    ['Solve'],
    ['SetEvaluationLimits', 2, None, False],
    ['SetEvaluationLimits', 1, None, True],
    ['SetEvaluationLimits', None, 5, True],
    ['SetEvaluationLimits', 0, 0, False],
    ['SetEvaluationLimits', None, None, True],
    ['SetTermination', 'always'],
    ['SetTermination', 'cog1'],
    ['request_exit'],
]

GS = [None, 0, 1, 2, 3]
ES = [None, 0, 1, 5]


class Oracle(graph.Oracle):
    prop = 'C05'

    def __init__(self, lab):
        graph.Oracle.__init__(self, lab)
        self.DG, self.DE = defaults(lab.cfg)
        lim = lab.cfg.get('limits')
        g, e = (lim[0], lim[1]) if lim else (None, None)
        self.G = self.DG if g is None else g
        self.Elo = self.Ehi = self.DE if e is None else e
        self.armG = self.armE = True
        self.lazyE = False
        # instrument: truth of the termination condition when each iteration begins
        s = lab.solver
        self.term_at_entry = []
        counted = s._Step
        def probe(*a, **k):
            try:
                t = bool(s._termination(s)) if len(s._stepmon) else False
            except Exception:
                t = False
            self.term_at_entry.append(t)
            return counted(*a, **k)
        s._Step = probe

    # ------------------------------------------------------------------
    def after(self, op, outcome, b, a):
        lab = self.lab
        s = lab.solver
        name = op[0]
        out = []
        if isinstance(outcome, tuple) and outcome and outcome[0] == 'HORIZON':
            out.append(({'clause': 'runaway', 'op': name}, '%s did not return within the evaluation horizon (%s)' % (name, outcome[1])))
            return out
        if isinstance(outcome, tuple) and outcome and outcome[0] == 'RAISED':
            out.append(({'clause': 'raised', 'op': name, 'error': outcome[1]}, '%s raised %s: %s' % (name, outcome[1], outcome[2])))
            return out
        true_g = max(0, b['inner'] - 1)
        true_c = b['ncalls']
        if name == 'SetEvaluationLimits':
            g, e, new = op[1], op[2], (op[3] if len(op) > 3 else False)
            self.G = (self.DG if g is None else g) + (true_g if new else 0)
            self.Elo = self.Ehi = (self.DE if e is None else e) + (true_c if new else 0)
            self.lazyE = bool(new and e is None and b['nstep'] == 0)
            self.armG = self.G >= true_g
            self.armE = self.Elo >= true_c
        # lazily resolved default evaluation limit: resolved by the implementation at its first limit check
        if self.lazyE and a['inner'] > b['inner'] and b['nstep'] == 0:
            k = b['inner']
            self.Ehi = self.DE + lab.iter_entry[k][1] + lab.iter_calls[k]
            self.lazyE = False
        # ---- I1: no further iteration begins while a stop condition holds
        for k in range(b['inner'], a['inner']):
            if k == 0:
                continue   # the initial evaluation
            g, c, ex = lab.iter_entry[k]
            term = self.term_at_entry[k] if k < len(self.term_at_entry) else False
            reasons = []
            if g >= self.G: reasons.append('generations %d >= limit %d' % (g, self.G))
            if c >= self.Ehi: reasons.append('evaluations %d >= limit %d' % (c, self.Ehi))
            if ex: reasons.append('exit requested')
            if term: reasons.append('termination condition holds')
            if reasons:
                out.append(({'clause': 'began_iteration_when_stopped', 'reason': reasons[0].split(' ')[0], 'op': name},
                            'iteration %d began although %s' % (k, '; '.join(reasons))))
                break
        # ---- I3: counters versus limits
        if self.armG and a['gens'] > self.G:
            out.append(({'clause': 'generations_exceed_limit'}, 'generations=%d exceeds the generation limit %d' % (a['gens'], self.G)))
        worst = max(lab.iter_calls) if lab.iter_calls else 0
        after_init = (lab.iter_entry[0][1] + lab.iter_calls[0]) if lab.iter_calls else 0   # the initial evaluation is exempt
        if self.armE and a['ncalls'] >= max(self.Ehi, after_init) + max(worst, 1) and a['ncalls'] > b['ncalls']:
            out.append(({'clause': 'evaluations_exceed_limit'},
                        'real evaluations=%d exceed the limit %d by a full iteration (largest iteration made %d calls)' % (a['ncalls'], self.Ehi, worst)))
        # ---- I2/I4: a stop must be justified by a condition that is true of the final state
        msg = None
        if name == 'Step':
            msg = outcome
        elif name == 'Solve':
            with lab._env():
                msg = s.Terminated(info=True)
            if not msg:
                out.append(({'clause': 'solve_returned_unstopped'}, 'Solve returned but Terminated(info=True) is empty'))
        if msg:
            gens_now, calls_now = max(0, a['inner'] - 1), a['ncalls']
            if msg.startswith('EvaluationLimits'):
                ok = gens_now >= self.G or calls_now >= self.Elo
                why = 'generations=%d (limit %d), evaluations=%d (limit %d)' % (gens_now, self.G, calls_now, self.Elo)
            elif msg.startswith('SolverInterrupt'):
                ok = bool(s._EARLYEXIT)
                why = 'exit flag is %r' % bool(s._EARLYEXIT)
            else:
                try:
                    ok = bool(s._termination(s))
                except Exception as e:
                    ok = False
                why = 'termination condition evaluates to %r' % ok
            if not ok:
                out.append(({'clause': 'message_untrue', 'kind': msg.split(' ')[0], 'op': name},
                            'stop message %r names a condition that is not true: %s' % (msg[:80], why)))
        elif name == 'Step' and a['inner'] == b['inner']:
            out.append(({'clause': 'step_noop_without_message'}, 'Step neither iterated nor returned a stop message'))
        return out


def shard_general(item):
    cfg, depth, prefix = item
    T = Tally()
    graph.explore_ops(cfg, ALPHABET, depth, Oracle, T, prefix)
    T.sample({'cfg': cfg, 'ops': [ALPHABET[i] for i in (list(prefix) + [0] * depth)[:depth]]})
    T.nontriv(('A', sorted(cfg.items()), prefix))
    return T


TAILS = [[['Step']], [['Solve']], [['Step'], ['Step']], [['Step'], ['Solve']], [['Solve'], ['Step']],
         [['Solve'], ['SetEvaluationLimits', 1, None, True], ['Solve']],
         [['Solve'], ['SetEvaluationLimits', None, 3, True], ['Solve']],
         [['request_exit'], ['Step']], [['Step'], ['request_exit'], ['Step'], ['Solve']]]


def shard_struct(item):
    cfg, k = item
    T = Tally()
    judged = set()
    for g in GS:
        for e in ES:
            for new in (False, True):
                for tail in TAILS:
                    ops = [['Step']] * k + [['SetEvaluationLimits', g, e, new]] + tail
                    graph.run_history(cfg, ops, Oracle, T, None, judged)
                    T.nontriv(('B', sorted(cfg.items()), k, g, e, new, repr(tail)))
    T.sample({'cfg': cfg, 'ops': [['Step']] * k + [['SetEvaluationLimits', 1, 5, True], ['Solve']]})
    return T


def shard_wrappers(item):
    """(C) warnflag / iter / funcalls of the scipy-style wrappers for every limit pair"""
    wrapper, cost_name = item
    import mystic.solvers as ms
    import io, sys
    T = Tally()
    for maxiter in [None, 0, 1, 2, 3, 7]:
        for maxfun in [None, 0, 1, 5, 23]:
            rec = solverlab.Recorder(cost_name, 200000)
            rng = solverlab.env.SeededRandom(3)
            x0 = [0.8, -0.4]
            old = sys.stdout; sys.stdout = io.StringIO()
            try:
                with solverlab.env.owned_random(rng):
                    kw = dict(maxiter=maxiter, maxfun=maxfun, full_output=1, disp=0)
                    if wrapper == 'fmin':
                        r = ms.fmin(rec, x0, **kw); dflt = (2 * 200, 2 * 200)
                    elif wrapper == 'fmin_powell':
                        r = ms.fmin_powell(rec, x0, **kw); dflt = (2 * 1000, 2 * 1000)
                    elif wrapper == 'diffev':
                        r = ms.diffev(rec, x0, npop=4, **kw); dflt = (2 * 4 * 10, 2 * 4 * 1000)
                    else:
                        r = ms.diffev2(rec, x0, npop=4, **kw); dflt = (2 * 4 * 10, 2 * 4 * 1000)
            except Exception as e:
                sys.stdout = old
                T.violate({'clause': 'wrapper_raised', 'wrapper': wrapper, 'error': type(e).__name__},
                          {'wrapper': wrapper, 'cost': cost_name, 'maxiter': maxiter, 'maxfun': maxfun},
                          '%s(maxiter=%r, maxfun=%r) raised %s: %s' % (wrapper, maxiter, maxfun, type(e).__name__, e))
                continue
            finally:
                sys.stdout = old
            x, fval, it, fc, warn = r[:5]
            G = dflt[0] if maxiter is None else maxiter
            E = dflt[1] if maxfun is None else maxfun
            T.count('traces'); T.count('transitions', it + 1); T.state(('w', wrapper, cost_name, maxiter, maxfun, it, fc, warn))
            T.nontriv(('C', wrapper, cost_name, maxiter, maxfun))
            T.hist('warnflag', warn)
            case = {'wrapper': wrapper, 'cost': cost_name, 'maxiter': maxiter, 'maxfun': maxfun}
            desc = '%s(maxiter=%r,maxfun=%r) -> iter=%d funcalls=%d warnflag=%d (real calls %d)' % (wrapper, maxiter, maxfun, it, fc, warn, len(rec.log))
            if fc != len(rec.log):
                T.violate({'clause': 'wrapper_funcalls', 'wrapper': wrapper}, case, desc)
            if warn == 1 and not fc >= E:
                T.violate({'clause': 'warnflag_untrue', 'wrapper': wrapper, 'flag': 1}, case, desc)
            if warn == 2 and not it >= G:
                T.violate({'clause': 'warnflag_untrue', 'wrapper': wrapper, 'flag': 2}, case, desc)
            if warn == 0 and (fc >= E or it >= G):
                T.violate({'clause': 'warnflag_missing', 'wrapper': wrapper}, case, desc)
            if it > G:
                T.violate({'clause': 'wrapper_iter_exceeds', 'wrapper': wrapper}, case, desc)
    T.sample({'wrapper': wrapper, 'cost': cost_name, 'maxiter': 2, 'maxfun': 5})
    return T


class ExitArm(object):
    """requests an exit from inside the cost function (as a signal arriving mid-iteration would), once, when armed"""

    def __init__(self, solver):
        self.solver, self.armed, self.fired_at = solver, False, None

    def __call__(self, x):
        if self.armed and self.fired_at is None:
            self.solver._EARLYEXIT = True
            self.fired_at = int(self.solver.generations)


FREQS = [None, 1, 2, 3]
EXIT_ITERS = [1, 2, 3, 4, 5, 6]


def shard_savefreq(item):
    """(D) exit requested while iteration j runs, with a periodic restart file of frequency f, under a Step loop and under
    Solve: no iteration may begin after j, and a SolverInterrupt message must stay true"""
    import os
    cfg = item
    T = Tally()
    tmp = tempfile.mkdtemp(prefix='c05_')
    try:
        for f in FREQS:
            for j in EXIT_ITERS:
                for mode in ('Step', 'Solve', 'Step+idle'):
                    lab = solverlab.Lab(dict(cfg, instrument=False), tmp)
                    s = lab.solver
                    with lab._env():
                        if f is not None:
                            s.SetSaveFrequency(f, os.path.join(tmp, 'restart_%d.pkl' % os.getpid()))
                        s.SetEvaluationLimits(14, None)
                    arm = ExitArm(s)
                    lab.cost.watch = arm
                    case = {'cfg': cfg, 'savefreq': f, 'exit_during': j, 'mode': mode, 'part': 'D'}
                    sig = {'solver': cfg['solver'], 'savefreq': f is not None, 'mode': mode, 'exit_from': 'cost'}
                    T.count('traces')
                    if mode.startswith('Step'):
                        rows = []
                        for i in range(j + 3):
                            if i == j:
                                arm.armed = True
                            n0 = len(lab.cost.log)
                            with lab._env():
                                msg = s.Step()
                            T.count('transitions')
                            rows.append((i, len(lab.cost.log) - n0, msg, bool(s._EARLYEXIT)))
                            if mode == 'Step+idle' and i >= j:
                                with lab._env():
                                    info = s.Terminated(info=True)      # looking at the stop state changes nothing
                        if arm.fired_at is None:
                            T.hist('D_exit_never_fired', 1); continue
                        for i, calls, msg, flag in rows[j + 1:]:
                            if calls or not msg:
                                T.violate(dict(sig, clause='began_iteration_when_stopped', reason='exit'), case,
                                          'exit requested inside the cost during Step %d (save frequency %r), yet Step %d made %d cost calls and returned %r | solver=%s'
                                          % (j, f, i, calls, msg, cfg['solver']))
                                break
                            if msg.startswith('SolverInterrupt') and not flag:
                                T.violate(dict(sig, clause='message_untrue', kind='SolverInterrupt'), case,
                                          'Step %d returned %r but the exit flag is no longer set (save frequency %r) | solver=%s' % (i, msg[:60], f, cfg['solver']))
                                break
                        T.nontriv(('D', cfg['solver'], f, j, mode, tuple(r[1] for r in rows)))
                    else:
                        seen = []
                        def cb(x):
                            seen.append(len(lab.cost.log))
                            if len(seen) == j:          # the callback ending iteration j-1 (0 = the initial evaluation)
                                arm.armed = True
                        with lab._env():
                            s.Solve(callback=cb)
                            msg = s.Terminated(info=True)
                        T.count('transitions', len(seen))
                        if arm.fired_at is None:
                            T.hist('D_exit_never_fired', 1); continue
                        if len(seen) > j + 1 or int(s.generations) > j:
                            T.violate(dict(sig, clause='began_iteration_when_stopped', reason='exit'), case,
                                      'exit requested inside the cost during iteration %d of Solve (save frequency %r), yet %d iterations ran (generations=%d, message %r) | solver=%s'
                                      % (j, f, len(seen), s.generations, (msg or '')[:50], cfg['solver']))
                        elif not msg:
                            T.violate(dict(sig, clause='solve_returned_unstopped'), case, 'Solve returned but Terminated(info=True) is empty | solver=%s' % cfg['solver'])
                        elif msg.startswith('SolverInterrupt') and not s._EARLYEXIT:
                            T.violate(dict(sig, clause='message_untrue', kind='SolverInterrupt'), case,
                                      'Solve stopped with %r but the exit flag is no longer set (save frequency %r) | solver=%s' % (msg[:60], f, cfg['solver']))
                        T.nontriv(('D', cfg['solver'], f, j, mode, len(seen)))
                    T.state(('D', cfg['solver'], f, j, mode, int(s.generations), len(lab.cost.log), bool(s._EARLYEXIT)))
    finally:
        shutil.rmtree(tmp, ignore_errors=True)
    T.sample({'cfg': cfg, 'savefreq': 1, 'exit_during': 2, 'mode': 'Solve', 'part': 'D'})
    return T


# ------------------------------------------------------------------ (E) the real interrupt handler
KICK = {'armed': False, 'at': 0, 'count': 0, 'fired_iters': None, 'iters': 0}


def _kick_watch(x):
    """module-level (pickled by reference, so copies and restarted solvers share it): sends this process a real SIGINT at
    the chosen cost call of the watched Solve"""
    import os, signal
    if KICK['armed']:
        KICK['count'] += 1
        if KICK['count'] == KICK['at'] and KICK['fired_iters'] is None:
            KICK['fired_iters'] = KICK['iters']
            os.kill(os.getpid(), signal.SIGINT)


def _kick_cb(x):
    KICK['iters'] += 1


TRANSFERS = ['same', 'copy.copy', 'copy.deepcopy', 'dill.copy', 'SaveSolver/LoadSolver']
ANSWERS = [['exit'], ['sol', 'exit'], ['bogus', 'call', 'exit'], ['cont']]


def shard_sigint(item):
    """(E) enable_signal_handler(); [an earlier Solve to a limit]; transfer; Solve during which a real SIGINT arrives at
    cost call j and the prompt is answered by a script.  'exit' must stop the run that is RUNNING: at most the iteration
    in progress completes.  'cont' must not stop it."""
    import os, copy, dill, builtins, signal
    cfg = item
    T = Tally()
    tmp = tempfile.mkdtemp(prefix='c05_')
    real_input = builtins.input
    try:
        for prior in (0, 1, 2):
            for how in TRANSFERS:
                if how != 'same' and prior == 0:
                    continue
                for answers in ANSWERS:
                    for j in (1, 4, 9):
                        lab = solverlab.Lab(dict(cfg, instrument=False), tmp)
                        s = lab.solver
                        lab.cost.watch = _kick_watch
                        KICK.update(armed=False, at=j, count=0, fired_iters=None, iters=0)
                        script = list(answers)
                        def scripted(prompt=''):
                            return script.pop(0) if script else 'exit'
                        builtins.input = scripted
                        case = {'cfg': cfg, 'part': 'E', 'prior_solves': prior, 'transfer': how, 'answers': answers, 'kick_at_call': j}
                        sig = {'solver': cfg['solver'], 'part': 'sigint', 'transfer': how, 'prior_solves': min(prior, 1), 'answer': answers[-1]}
                        T.count('traces')
                        try:
                            with lab._env():
                                s.enable_signal_handler()
                                for n in range(prior):
                                    s.SetEvaluationLimits(2, None, new=True)
                                    s.Solve(callback=_kick_cb)
                                if how == 'copy.copy':
                                    t = copy.copy(s)
                                elif how == 'copy.deepcopy':
                                    t = copy.deepcopy(s)
                                elif how == 'dill.copy':
                                    t = dill.copy(s)
                                elif how == 'SaveSolver/LoadSolver':
                                    from mystic.solvers import LoadSolver
                                    fn = os.path.join(tmp, 'sig_%d.pkl' % os.getpid())
                                    s.SaveSolver(fn)
                                    t = LoadSolver(fn)
                                else:
                                    t = s
                                t.SetEvaluationLimits(12, None, new=True)
                                g0 = int(t.generations)
                                KICK.update(armed=True, count=0, iters=0)
                                t.Solve(callback=_kick_cb)
                                KICK['armed'] = False
                                msg = t.Terminated(info=True)
                        except KeyboardInterrupt:
                            KICK['armed'] = False
                            T.violate(dict(sig, clause='sigint_not_caught'), case,
                                      'enable_signal_handler() was called, yet a SIGINT during Solve reached the default handler | solver=%s' % cfg['solver'])
                            continue
                        except Exception as e:
                            KICK['armed'] = False
                            if KICK['fired_iters'] is None:
                                raise
                            T.violate(dict(sig, clause='raised', op='Solve', error=type(e).__name__), case,
                                      'SIGINT at cost call %d answered %r during Solve of the %s solver (after %d earlier Solve): %s: %s | solver=%s'
                                      % (j, answers, how, prior, type(e).__name__, e, cfg['solver']))
                            continue
                        finally:
                            builtins.input = real_input
                            KICK['armed'] = False
                        T.count('transitions', KICK['iters'])
                        if KICK['fired_iters'] is None:
                            T.hist('E_sigint_never_sent', 1); continue
                        after = KICK['iters'] - KICK['fired_iters']
                        T.hist('E_iterations_completed_after_the_request', '%s:%d' % (answers[-1], min(after, 3)))
                        if answers[-1] == 'exit':
                            if after > 1:
                                T.violate(dict(sig, clause='began_iteration_when_stopped', reason='exit'), case,
                                          'SIGINT at cost call %d answered %r during Solve of the %s solver (after %d earlier Solve): %d further iterations completed, stop message %r | solver=%s'
                                          % (j, answers, how, prior, after, (msg or '')[:60], cfg['solver']))
                            elif not msg:
                                T.violate(dict(sig, clause='solve_returned_unstopped'), case, 'Solve returned but Terminated(info=True) is empty | solver=%s' % cfg['solver'])
                        else:
                            if int(t.generations) - g0 < 12 and (msg or '').startswith('SolverInterrupt'):
                                T.violate(dict(sig, clause='message_untrue', kind='SolverInterrupt'), case,
                                          'SIGINT answered %r (continue), yet the run stopped with %r after %d generations | solver=%s'
                                          % (answers, msg[:60], int(t.generations) - g0, cfg['solver']))
                        T.nontriv(('E', cfg['solver'], prior, how, tuple(answers), j, after))
                        T.state(('E', cfg['solver'], prior, how, answers[-1], j, after, int(t.generations)))
    finally:
        builtins.input = real_input
        signal.signal(signal.SIGINT, signal.default_int_handler)
        shutil.rmtree(tmp, ignore_errors=True)
    T.sample({'cfg': cfg, 'part': 'E', 'prior_solves': 1, 'transfer': 'copy.deepcopy', 'answers': ['exit'], 'kick_at_call': 4})
    return T


def _dispatch(item):
    kind, payload = item
    return {'A': shard_general, 'B': shard_struct, 'C': shard_wrappers, 'D': shard_savefreq, 'E': shard_sigint}[kind](payload)


def configs(ctx):
    out = []
    for solver in solverlab.SOLVERS:
        for cost in (['sphere', 'steps'] if ctx.thorough else ['sphere']):
            for term in ('never', 'default'):
                out.append({'solver': solver, 'dim': 2, 'cost': cost, 'seed': ctx.seed, 'term': term, 'horizon': 30000})
    return out


def run(ctx):
    depth = 5 if ctx.thorough else 4
    cfgs = configs(ctx)
    gen_cfgs = cfgs if ctx.thorough else [c for c in cfgs if c['term'] == 'never']
    items = [('A', (cfg, depth, (i,))) for cfg in gen_cfgs for i in range(len(ALPHABET))]
    items += [('B', (cfg, k)) for cfg in cfgs for k in (0, 1, 2, 3)]
    items += [('C', (w, c)) for w in ('fmin', 'fmin_powell', 'diffev', 'diffev2') for c in ('sphere', 'steps')]
    items += [('D', cfg) for cfg in cfgs if cfg['term'] == 'never']
    items += [('E', cfg) for cfg in cfgs if cfg['term'] == 'never']
    ctx.bounds = {'sigint_part': {'transfers': TRANSFERS, 'answer_scripts': ANSWERS, 'earlier_solves': [0, 1, 2], 'signal_at_cost_call': [1, 4, 9]},
                  'save_frequencies': FREQS, 'exit_during_iteration': EXIT_ITERS, 'depth_general': depth, 'alphabet': ALPHABET, 'limit_values_g': GS, 'limit_values_e': ES,
                  'struct_prefix_steps': [0, 1, 2, 3], 'tails': TAILS, 'configs': len(cfgs)}
    ctx.rule = ("(A) all op sequences <= depth over the 10-op alphabet; (B) Step^k . SetEvaluationLimits(g,e,new) . tail for all "
                "5x4x2 limit triples, k<=3 and 9 tails; (C) 4 wrappers x 30 limit pairs x 2 costs. distinct_nontrivial counts "
                "(A) shards and (B)/(C) individual limit configurations")
    ctx.assumptions = ['the exit request is modelled by setting the flag the signal handler sets, except in part E where a real SIGINT is sent to the process and the handler prompt is answered by a script',
                       'a default evaluation limit given with new=True before the first iteration may be resolved at the first limit check (interval model)']
    ctx.pmap(_dispatch, items)


def replay(case):
    T = Tally()
    if case.get('part') == 'E':
        T2 = shard_sigint(case['cfg'])
        return [v['detail'] for v in T2.violations.values()
                if all(v['case'].get(f) == case.get(f) for f in ('transfer', 'answers'))]
    if case.get('part') == 'D':
        global FREQS, EXIT_ITERS
        FREQS, EXIT_ITERS = [case['savefreq']], [case['exit_during']]
        T2 = shard_savefreq(case['cfg'])
        return [v['detail'] for v in T2.violations.values() if v['case'].get('mode') == case['mode']]
    if 'wrapper' in case:
        # re-run the single wrapper configuration
        global _one
        T2 = shard_wrappers((case['wrapper'], case['cost']))
        return [v['detail'] for v in T2.violations.values()
                if v['case'].get('maxiter') == case['maxiter'] and v['case'].get('maxfun') == case['maxfun']]
    graph.run_history(case['cfg'], case['ops'], Oracle, T)
    return [v['detail'] for v in T.violations.values()]
