"""C18 - moment-imposing transforms hit their target and keep what they promise to keep;
the statistics, norms and metrics equal their textbook (weighted) definitions.

Engine E3: the full Cartesian product of (sample vector, weight vector, target,
selection, trimming fraction, function) over small dyadic alphabets is pushed
through the real functions of mystic.math.measures / distance / approx; every
result is converted to exact rationals and judged by ref/stats.py (Fraction).

Two input classes go beyond the O(1) alphabets: (a) *large-offset* sample vectors (offset +
alphabet, |mean| >> spread) and impose_mean targets of that size, judged with a tolerance that is
the first-order propagation of a few ulps of position noise (see `noise`, `P.tol`) - a two-pass
evaluation meets it with margin, one that cancels raw moments cannot; (b) index / pair selections
that name positions by *negative indices*, in particular one position named p in one pair and
p - n in another (`render`, `negative_pair_selections`).

Two further families (added for the documented `tol` keyword and for entries of any binary64 magnitude):
(c) *tol family* - mean / moment / standard_moment / impose_moment with an explicit tol in {0, 2**-6, 0.25, 0.5, 2}
on every (sample, weight) case of length 2 and 3 (length 4 unweighted / per orbit): the weighted mean of the case
is 0, non-zero but within tol, or beyond tol (labelled), and tol may only snap a RESULT of magnitude <= tol to 0.0 -
the centre of a central moment stays the true weighted mean (`c_tol_defs`, `c_tol_moment`);
(d) *scale families* - Lnorm (vectors, matrices with axis), the point-to-point metrics in all five call forms,
and normalize / impose_sum on entries that mix O(1) values with tiny non-zero ones (2**-600 .. 2**-260: |v|**p
underflows to a subnormal or to 0 for p = 2, 3, 4) and huge ones (2**300 .. 2**600: |v|**p overflows), plus
integer-typed coordinates whose p-th powers leave the int64 range.  Oracle: ref/c18_exact.py (exact rational radicand,
exact rational powers of the returned float; the max-norm fallback is accepted only for a vector whose OWN radicand
is not a finite binary64 number - rules R1-R3 there).

A *clause* is one library entry point with one parameter tuple; a clause returns
an outcome label (histogrammed, exposes vacuity), the list of problems found and
the number of library calls made.  `replay` re-runs exactly one clause.
"""
import itertools, math, os
from fractions import Fraction as F
from mc.runner import Tally
from ref import stats as R
from ref import c18_exact as X

ALPHA = [-2.0, 0.0, 0.5, 1.0, 3.0]
WALPHA = [0.0, 0.25, 0.5, 1.0]
TARGETS = [-1.0, 0.0, 2.5]
KS = [0, 20, 40]
KS_THOROUGH = [0, 20, 40, [0, 40], [20, 40]]
FUNCS = {'x': lambda p: p[0], 'x*x': lambda p: p[0] * p[0], 'abs': lambda p: abs(p[0])}
TOLS = [0.0, 0.25]
REL = 1e-12
INF = float('inf')
# samples with a large common offset (|mean| >> spread): offset + small alphabet, exact in binary64
OFFSETS = [2.0 ** 20, -(2.0 ** 26)]
BIG_TARGETS = [2.0 ** 26, -(2.0 ** 20) - 0.5]          # impose_mean targets of that size
U = 2.0 ** -53                                           # unit roundoff
KNOISE = 32                                              # rounding steps granted per stored position


# ------------------------------------------------------------------ helpers
def fl(v):
    return [float(a) for a in v]


def isbad(v):
    try:
        return not all(math.isfinite(float(a)) for a in v)
    except (TypeError, ValueError):
        return True


def near(got, want, extra=0.0):
    """got (float) ~ want (exact or float): |got - want| <= REL * max(|want|, 1) + extra

    `extra` is the propagated position noise of the clause (see `noise` / `P.tol`); it is
    ~1e-14 for the O(1) alphabets and only matters for the large-offset vectors"""
    try:
        g = float(got)
        w = float(want)
    except (TypeError, ValueError, OverflowError):
        return False
    if not math.isfinite(g):
        return False
    return abs(g - w) <= REL * max(abs(w), 1) + extra


def mag(*groups):
    """largest magnitude among numbers / lists of numbers (callers have already rejected non-finite entries)"""
    m = 0.0
    for g in groups:
        if g is None:
            continue
        if isinstance(g, (list, tuple)) or getattr(g, 'ndim', 0):
            v = float(max(map(abs, g))) if len(g) else 0.0
        else:
            v = abs(float(g))
        if v > m:
            m = v
    return m


def noise(*groups):
    """position noise a = KNOISE * 2**-53 * M, M the largest magnitude a correct shift/scale
    implementation has to store (inputs, outputs, targets, scaled intermediates)"""
    return KNOISE * U * mag(*groups)


def changed(y, xs):
    return fl(y) != fl(xs)


class Lazy(object):
    """a message that is only formatted when a check fails"""
    __slots__ = ('fmt', 'args')

    def __init__(self, fmt, *args):
        self.fmt = fmt; self.args = args

    def __str__(self):
        return self.fmt % tuple(_plain(a) for a in self.args)

    def __add__(self, other):
        return str(self) + other

    def __radd__(self, other):
        return other + str(self)


def _plain(a):
    """numpy scalars / arrays -> plain python numbers for readable, pasteable messages"""
    if hasattr(a, 'tolist'):
        return a.tolist()
    if isinstance(a, list):
        return [_plain(b) for b in a]
    if isinstance(a, tuple):
        return tuple(_plain(b) for b in a)
    return a


class LazyCall(object):
    """a message computed by a function only when it is printed (violation texts of a signature already recorded are never built)"""
    __slots__ = ('fn',)

    def __init__(self, fn):
        self.fn = fn

    def __str__(self):
        return self.fn()


class P(object):
    """problem collector of one clause execution"""

    def __init__(self, a=0.0):
        self.items = []
        self.calls = 0
        self.a = a          # position noise (absolute) of this clause

    def add(self, sub, text):
        self.items.append((sub, text))

    def tol(self, k, D):
        """bound on the change of a degree-k statistic of deviations |d| <= D when every
        deviation moves by at most 2a (a for the point, a for the mean): (D+2a)^k - D^k;
        k = 1 gives 2a, k = 2 gives ~ 4 a D, i.e. relative ~ eps * M / D for a variance"""
        D = float(D)
        return (D + 2 * self.a) ** k - D ** k

    def want(self, sub, got, want, what, tag='', extra=0.0):
        if not near(got, want, extra):
            self.add(sub, '%s%s = %r, reference %s (= %.17g), allowed error %.3g' % (
                what, tag, got, want, float(want), REL * max(abs(float(want)), 1) + extra))

    def want_root(self, sub, got, radicand, p, what, tag='', extra=0.0):
        want = float(radicand) ** (1.0 / p)
        if not near(got, want, extra):
            what = what + tag
            self.add(sub, '%s = %r, reference (%s)**(1/%s) = %.17g, allowed error %.3g' % (
                what, got, radicand, p, want, REL * max(abs(want), 1) + extra))


# ------------------------------------------------------------------ definition clauses
def c_defs(xs, ws):
    import mystic.math.measures as mm
    p = P(noise(xs))
    a, D = p.a, float(R.spread(xs))
    m = R.wmean(xs, ws)
    p.calls += 14
    p.want('mean', mm.mean(xs, ws), m, 'mean(%r,%r)' % (xs, ws), extra=a)
    got = mm.mean(xs, ws, tol=0.5)
    if abs(m) <= F(1, 2):
        if got != 0.0:
            p.add('mean_tol', 'mean(%r,%r,tol=0.5) = %r but |mean| = %s <= tol must give 0.0' % (xs, ws, got, abs(m)))
    else:
        p.want('mean_tol', got, m, 'mean(%r,%r,tol=0.5)' % (xs, ws), extra=a)
    var = R.wvariance(xs, ws)
    p.want('variance', mm.variance(xs, ws), var, 'variance(%r,%r)' % (xs, ws), extra=p.tol(2, D))
    p.want_root('std', mm.std(xs, ws), var, 2, 'std(%r,%r)' % (xs, ws), extra=2 * a)
    for order in (0, 1, 2, 3, 4):
        want = F(1) if order == 0 else R.wmoment(xs, ws, order)
        p.want('moment', mm.moment(xs, ws, order), want, 'moment(%r,%r,order=%d)' % (xs, ws, order),
               extra=p.tol(order, D) if order > 1 else 0.0)
    if var > 0:
        m3, m4 = R.wmoment(xs, ws, 3), R.wmoment(xs, ws, 4)
        sd = float(var) ** 0.5
        # dimensionless ratios: relative error <= (4 + 2*2) * 2a / std (kurtosis), (3 + 3|skew|) * 2a / std (skewness)
        p.want('kurtosis', mm.kurtosis(xs, ws), m4 / var ** 2, 'kurtosis(%r,%r)' % (xs, ws),
               extra=16 * a / sd * float(m4 / var ** 2))
        want = float(m3) / float(var) ** 1.5
        got = mm.skewness(xs, ws)
        if not near(got, want, (3 + 3 * abs(want)) * 2 * a / sd):
            p.add('skewness', 'skewness(%r,%r) = %r, reference m3/var^1.5 = %.17g' % (xs, ws, got, want))
    if mm.spread(xs) != float(R.spread(xs)):
        p.add('spread', 'spread(%r) = %r, reference %s' % (xs, mm.spread(xs), R.spread(xs)))
    if ws is not None:
        p.want('norm', mm.norm(ws), R.wmean(ws), 'norm(%r)' % (ws,))
    else:
        got = mm.median(xs)
        if not near(got, R.median(xs), a):
            p.add('median_unweighted', 'median(%r) = %r, textbook %s' % (xs, got, R.median(xs)))
        got = mm.mad(xs)
        if not near(got, R.mad(xs), 2 * a):
            p.add('mad_unweighted', 'mad(%r) = %r, textbook %s' % (xs, got, R.mad(xs)))
    # 0% trimming is the plain weighted mean / variance
    p.want('tmean_k0', mm.tmean(xs, ws, k=0), m, 'tmean(%r,%r,k=0)' % (xs, ws), extra=a)
    p.want('tvariance_k0', mm.tvariance(xs, ws, k=0), var, 'tvariance(%r,%r,k=0)' % (xs, ws), extra=p.tol(2, D))
    return 'ok', p


def c_expect(xs, ws, fname, tol):
    import mystic.math.measures as mm
    f = FUNCS[fname]
    pts = [(x,) for x in xs]
    rpts = [(R.fr(x),) for x in xs]
    fv = [f(q) for q in rpts]
    p = P(noise(xs, [float(v) for v in fv]))
    a, D = p.a, float(max(fv) - min(fv))
    tag = Lazy('(f=%s, %r, %r, tol=%r)', fname, pts, ws, tol)
    e = R.expectation(f, rpts, ws, tol)
    if e is None:
        outcome = 'all_weights_below_tol'
    else:
        outcome = 'ok'
        p.calls += 5
        p.want('expectation', mm.expectation(f, pts, ws, tol), e, 'expectation', tag, extra=a)
        v = R.expected_moment(f, rpts, ws, 2, tol)
        p.want('expected_variance', mm.expected_variance(f, pts, ws, tol), v, 'expected_variance', tag, extra=p.tol(2, D))
        p.want_root('expected_std', mm.expected_std(f, pts, ws, tol), v, 2, 'expected_std', tag, extra=2 * a)
        for order in (2, 3):
            p.want('_expected_moment', mm._expected_moment(f, pts, ws, order, tol),
                   R.expected_moment(f, rpts, ws, order, tol), '_expected_moment(order=%d)' % order, tag,
                   extra=p.tol(order, D))
    vals = R.ess_values(f, rpts, ws, tol)
    if not vals:
        outcome += '+empty_support'
    else:
        p.calls += 3
        checks = [('ess_maximum', mm.ess_maximum, max(vals)), ('ess_minimum', mm.ess_minimum, min(vals)),
                  ('ess_ptp', mm.ess_ptp, max(vals) - min(vals))]
        for name, fn, want in checks:
            got = fn(f, pts, ws, tol)
            if float(got) != float(want):
                p.add(name, '%s%s = %r, reference %s over the support' % (name, tag, got, want))
    if tol == 0.0:
        allv = [R.fr(f(q)) for q in rpts]
        p.calls += 3
        for name, fn, want in [('maximum', mm.maximum, max(allv)), ('minimum', mm.minimum, min(allv)),
                               ('ptp', mm.ptp, max(allv) - min(allv))]:
            got = fn(f, pts)
            if float(got) != float(want):
                p.add(name, '%s(f=%s,%r) = %r, reference %s' % (name, fname, pts, got, want))
    if ws is not None and fname == 'x':
        p.calls += 2
        gi = list(mm.support_index(ws, tol))
        if gi != R.support_index(ws, tol):
            p.add('support_index', 'support_index(%r,tol=%r) = %r, reference {i: w_i > tol} = %r' % (ws, tol, gi, R.support_index(ws, tol)))
        gs = fl(mm.support(xs, ws, tol))
        if gs != fl(R.support(xs, ws, tol)):
            p.add('support', 'support(%r,%r,tol=%r) = %r, reference %r' % (xs, ws, tol, gs, fl(R.support(xs, ws, tol))))
    return outcome, p


# ------------------------------------------------------------------ shift / scale transforms
def _supp_spread(y, ws):
    if ws is None:
        return R.spread(y)
    s = R.support(list(y), ws)
    return R.spread(s) if s else None


def c_mean(xs, ws, m):
    import mystic.math.measures as mm
    p = P(); p.calls = 3
    y = mm.impose_mean(m, xs, ws)
    tag = Lazy('impose_mean(%r,%r,%r) -> %r', m, xs, ws, y)
    if len(y) != len(xs) or isbad(y):
        p.add('shape', tag + ': wrong length or non-finite entries')
        return 'bad', p
    a = p.a = noise(xs, m, y)
    D = float(R.spread(xs))
    vy = R.wvariance(y, ws)
    p.want('target', float(R.wmean(y, ws)), m, 'weighted mean after ', tag, extra=a)
    p.want('keeps_spread', float(R.spread(y)), R.spread(xs), 'spread after ', tag, extra=2 * a)
    p.want('keeps_weighted_range', float(_supp_spread(y, ws)), _supp_spread(xs, ws), 'range of the support after ', tag, extra=2 * a)
    p.want('keeps_variance', float(vy), R.wvariance(xs, ws), 'weighted variance after ', tag, extra=p.tol(2, D))
    # the library's own statistics on the shifted (full-mantissa, possibly far-from-zero) output:
    # "does not alter the weighted variance" must also hold as observed through mystic
    y = fl(y)
    p.want('mean_of_output', mm.mean(y, ws), R.wmean(y, ws), 'mean of the output of ', tag, extra=a)
    p.want('variance_of_output', mm.variance(y, ws), vy, 'variance of the output of ', tag, extra=p.tol(2, D + 2 * a))
    return ('ok:changed' if changed(y, xs) else 'ok:identity'), p


def _scale_clause(name, xs, ws, t, fn_name, stat, stat_name, target, deg, ratio):
    """common body of impose_variance / impose_std / impose_spread; `deg` is the degree of the
    statistic in the deviations, `ratio(t, s0)` the factor a scale-then-shift construction applies"""
    import mystic.math.measures as mm
    p = P()
    if t < 0:
        return 'undefined:negative_target', p
    s0 = stat(xs, ws)
    if s0 == 0:
        if t != 0:
            return 'undefined:degenerate_input', p
    p.calls = 1
    y = getattr(mm, fn_name)(t, xs, ws)
    tag = Lazy('%s(%r,%r,%r) -> %r', fn_name, t, xs, ws, y)
    if len(y) != len(xs) or isbad(y):
        p.add('shape', tag + ': wrong length or non-finite entries for a defined operation')
        return 'bad', p
    a = p.a = noise(xs, y, t, mag(xs) * (ratio(t, float(s0)) if s0 else 0.0))
    p.want('target', float(stat(y, ws)), target, stat_name + ' after ', tag, extra=p.tol(deg, R.spread(y)))
    p.want('keeps_mean', float(R.wmean(y, ws)), R.wmean(xs, ws), 'weighted mean after ', tag, extra=a)
    return ('ok:changed' if changed(y, xs) else 'ok:identity'), p


def c_variance(xs, ws, v):
    return _scale_clause('variance', xs, ws, v, 'impose_variance', R.wvariance, 'weighted variance', v,
                         2, lambda t, s0: math.sqrt(t / s0))


def c_std(xs, ws, s):
    return _scale_clause('std', xs, ws, s, 'impose_std', R.wvariance, 'weighted variance (= std**2)', F(s) * F(s),
                         2, lambda t, s0: t / math.sqrt(s0))


def c_spread(xs, ws, r):
    return _scale_clause('spread', xs, ws, r, 'impose_spread', lambda a, w: R.spread(a), 'spread', r,
                         1, lambda t, s0: t / s0)


def c_moment(xs, ws, order, m):
    import mystic.math.measures as mm
    p = P()
    if order % 2 == 0 and m < 0:
        return 'undefined:negative_even_moment', p
    src = [x * x for x in xs] if order % 2 else xs     # documented: skew allowed for odd orders
    sv = R.wmoment(src, ws, order)
    if sv == 0:
        return 'undefined:zero_source_moment', p
    p.calls = 1
    y = mm.impose_moment(m, xs, ws, order)
    tag = Lazy('impose_moment(%r,%r,%r,order=%d) -> %r', m, xs, ws, order, y)
    if len(y) != len(xs) or isbad(y):
        p.add('shape', tag + ': wrong length or non-finite entries for a defined operation')
        return 'bad', p
    a = p.a = noise(xs, y, m, mag(src) * abs(m / float(sv)) ** (1.0 / order))
    p.want('target', float(R.wmoment(y, ws, order)), m, 'moment of order %d after ' % order, tag,
           extra=p.tol(order, R.spread(y)))
    p.want('keeps_mean', float(R.wmean(y, ws)), R.wmean(xs, ws), 'weighted mean after ', tag, extra=a)
    return ('ok:changed' if changed(y, xs) else 'ok:identity'), p


# ------------------------------------------------------------------ the documented `tol` keyword of mean / moment / standard_moment / impose_moment
# "tol: a tolerance, where any ``mean <= tol`` is zero".  Reading (DESIGN section 5 style, stated in ctx.assumptions):
# tol snaps a RESULT of magnitude <= tol to exactly 0.0; it never changes the definition of the statistic - the centre
# of a central moment is the true weighted mean whatever tol is.  Where the text leaves room (order 0 with tol >= 1;
# whether standard_moment snaps the moment or the ratio; a moment exactly AT tol computed through inexact float
# arithmetic; what impose_moment returns when the source moment is within tol, i.e. "is zero") nothing is judged
# beyond "one of the readings", and the case is labelled in the histogram.
TOLS_M = [0.0, 2.0 ** -6, 0.25, 0.5, 2.0]
TOL_TARGETS = [2.5, -1.0]
_MOM = {}


def _wm(xs, ws, order):
    """exact weighted mean (order 1) / central moment, cached per case"""
    key = (tuple(xs), None if ws is None else tuple(ws), order)
    r = _MOM.get(key)
    if r is None:
        if len(_MOM) > 4096:
            _MOM.clear()
        r = _MOM[key] = R.wmean(xs, ws) if order == 1 else R.wmoment(xs, ws, order)
    return r


def mean_class(mu, tol):
    if mu == 0:
        return 'mean=0'
    return 'mean_within_tol' if abs(mu) <= F(tol) else 'mean_beyond_tol'


def _snap(p, sub, got, exact, tol, what, extra=0.0, exact_boundary=False):
    """got must be exactly 0.0 when |exact| < tol, ~exact when |exact| > tol; AT tol: 0.0 (exact_boundary: the float
    evaluation is exact there, e.g. a mean of dyadics) or either (inexact evaluation).  Returns a label."""
    T_ = F(tol)
    if T_ > 0 and (abs(exact) < T_ or (exact_boundary and abs(exact) == T_)):
        if float(got) != 0.0 or got != got:
            p.add(sub, '%s = %r, but the exact value %s (= %.17g) has magnitude <= tol = %r and must be returned as 0.0'
                  % (what, got, exact, float(exact), tol))
        return 'snapped'
    if T_ > 0 and abs(exact) == T_:
        if float(got) != 0.0 and not near(got, exact, extra):
            p.add(sub, '%s = %r, exact value %s is exactly at tol: 0.0 or the value itself' % (what, got, exact))
        return 'at_tol'
    p.want(sub, got, exact, what, extra=extra)
    return 'kept'


def c_tol_defs(xs, ws, tol):
    """mean(x,w,tol); moment(x,w,k,tol) k=0..4; standard_moment(x,w,k,tol) k=1..4"""
    import mystic.math.measures as mm
    p = P(noise(xs))
    a, D = p.a, float(R.spread(xs))
    T_ = F(tol)
    mu = _wm(xs, ws, 1)
    labels = [mean_class(mu, tol)]
    p.calls = 6
    tag = '(%r,%r,tol=%r)' % (xs, ws, tol)
    _snap(p, 'mean', mm.mean(xs, ws, tol), mu, tol, 'mean' + tag, extra=a, exact_boundary=True)
    got = mm.moment(xs, ws, 0, tol)
    if tol >= 1:
        labels.append('amb_order0')
        if float(got) not in (0.0, 1.0):
            p.add('moment_order0', 'moment(order=0)%s = %r, neither 1.0 nor 0.0' % (tag, got))
    elif float(got) != 1.0:
        p.add('moment_order0', 'moment(order=0)%s = %r, the zeroth moment is 1' % (tag, got))
    got = mm.moment(xs, ws, 1, tol)
    if float(got) != 0.0:
        p.add('moment_order1', 'moment(order=1)%s = %r, the first central moment is 0' % (tag, got))
    snapped = 0
    exact = {}
    for k in (2, 3, 4):
        m = exact[k] = _wm(xs, ws, k)
        lab = _snap(p, 'moment', mm.moment(xs, ws, k, tol), m, tol, 'moment(order=%d)%s' % (k, tag), extra=p.tol(k, D))
        snapped += lab == 'snapped'
        if lab == 'at_tol':
            labels.append('moment_at_tol')
    labels.append('snapped=%d' % snapped)
    var = exact[2]
    if var > 0:
        p.calls += 4
        sd = float(var) ** 0.5
        amb = False
        for k in (1, 2, 3, 4):
            got = mm.standard_moment(xs, ws, k, tol)
            m = F(0) if k == 1 else exact[k]
            r = float(m) / sd ** k
            ex = 16 * a / sd * abs(r) if k % 2 == 0 else (3 + 3 * abs(r)) * 2 * a / sd
            # reading A: the moment is snapped, then divided; reading B: the ratio is snapped
            zero_a = T_ > 0 and abs(m) <= T_
            keep_a = not (T_ > 0 and abs(m) < T_)
            zero_b = tol > 0 and abs(r) <= tol * (1 + REL)
            keep_b = not (tol > 0 and abs(r) < tol * (1 - REL))
            if (zero_a, keep_a) != (zero_b, keep_b):
                amb = True
            if k == 2 and (zero_a or zero_b):
                keep_a = amb = True         # the standardised second moment is 1 by definition: whether tol applies to it is open
            ok = ((zero_a or zero_b) and float(got) == 0.0) or ((keep_a or keep_b) and near(got, r, ex))
            if not ok:
                p.add('standard_moment', 'standard_moment(order=%d)%s = %r; moment/std**order = %.17g (moment %s, variance %s), '
                      'accepted: %s' % (k, tag, got, r, m, var,
                                        ' or '.join((['0.0'] if zero_a or zero_b else []) + (['%.17g' % r] if keep_a or keep_b else []))))
        if amb:
            labels.append('amb_std')
    else:
        labels.append('zero_variance')
    return ':'.join(labels), p


def c_tol_moment(xs, ws, order, m, tol, skew):
    """impose_moment(m, x, w, order, tol, skew): reaches the target and keeps the mean wherever the source moment is
    beyond tol (a source moment within tol "is zero": the operation is degenerate there - recorded, not judged)"""
    import mystic.math.measures as mm
    p = P()
    if order % 2 == 0 and m < 0:
        return 'undefined:negative_even_moment', p
    sk = bool(order % 2) if skew is None else bool(skew)
    src = [x * x for x in xs] if sk else xs
    sv = _wm(src, ws, order)
    cls = mean_class(_wm(xs, ws, 1), tol)
    if sv == 0:
        return 'undefined:zero_source_moment', p
    if abs(sv) < F(tol):
        return 'undefined:source_moment_within_tol:' + cls, p
    if tol > 0 and abs(sv) == F(tol):
        return 'undefined:source_moment_at_tol', p
    p.calls = 1
    y = mm.impose_moment(m, xs, ws, order, tol, skew)
    tag = Lazy('impose_moment(%r,%r,%r,order=%d,tol=%r,skew=%r) -> %r', m, xs, ws, order, tol, skew, y)
    if len(y) != len(xs) or isbad(y):
        p.add('shape', tag + ': wrong length or non-finite entries for a defined operation (source moment %s = %.6g is beyond tol)' % (sv, float(sv)))
        return 'bad:' + cls, p
    a = p.a = noise(xs, y, m, mag(src) * abs(m / float(sv)) ** (1.0 / order))
    p.want('target', float(R.wmoment(y, ws, order)), m, 'moment of order %d after ' % order, tag,
           extra=p.tol(order, R.spread(y)))
    p.want('keeps_mean', float(R.wmean(y, ws)), _wm(xs, ws, 1), 'weighted mean after ', tag, extra=a)
    return ('ok:changed:' if changed(y, xs) else 'ok:identity:') + cls, p


def tol_clause_list(thorough=False):
    out = []
    for tol in TOLS_M:
        out.append(('tol_defs', {'tol': tol}))
        if tol == 0.0 and not thorough:
            continue                      # impose_moment with tol=0 is the default-argument clause `moment` of the main grid
        for order in (2, 3, 4):
            for m in (TOL_TARGETS if order % 2 else [t for t in TOL_TARGETS if t >= 0]):     # an even moment cannot be negative
                for skew in (None, not order % 2):
                    out.append(('tol_moment', {'order': order, 'm': m, 'tol': tol, 'skew': skew}))
    return out


# ------------------------------------------------------------------ median family (mystic's own statistic, DESIGN section 5)
def c_median(xs, ws, m):
    import mystic.math.measures as mm
    p = P(); p.calls = 5
    y = mm.impose_median(m, xs, ws)
    tag = Lazy('impose_median(%r,%r,%r) -> %r', m, xs, ws, y)
    if len(y) != len(xs) or isbad(y):
        p.add('shape', tag + ': wrong length or non-finite entries')
        return 'bad', p
    a = p.a = noise(xs, m, y)
    p.want('target', mm.median(y, ws), m, 'median (mystic) after ', tag, extra=a)
    p.want('keeps_spread', float(R.spread(y)), R.spread(xs), 'spread after ', tag, extra=2 * a)
    p.want('keeps_mad', mm.mad(y, ws), float(mm.mad(xs, ws)), 'mad (mystic) after ', tag, extra=2 * a)
    out = 'ok:changed' if changed(y, xs) else 'ok:identity'
    if ws is not None:
        out += (':wmedian=lower_textbook' if near(mm.median(xs, ws), R.wmedian_lower(xs, ws)) else ':wmedian!=lower_textbook')
    return out, p


def c_mad(xs, ws, s):
    import mystic.math.measures as mm
    p = P()
    if s < 0:
        return 'undefined:negative_target', p
    p.calls = 1
    mad0 = float(mm.mad(xs, ws))
    if mad0 == 0:
        return 'undefined:zero_mad', p
    p.calls = 5
    y = mm.impose_mad(s, xs, ws)
    tag = Lazy('impose_mad(%r,%r,%r) -> %r', s, xs, ws, y)
    if len(y) != len(xs) or isbad(y):
        p.add('shape', tag + ': wrong length or non-finite entries for a defined operation')
        return 'bad', p
    # mystic's weighted median is an order statistic chosen by a stable sort: two deviations that are
    # exactly tied in the input but come out of the rescaling one ulp apart change order, and with it the
    # statistic itself.  Such inputs sit on a discontinuity of the statistic ("reach their targets" is then
    # undefined to rounding): counted, not judged.
    a = p.a = noise(xs, y, s, mag(xs) * s / mad0)
    med_y = float(mm.median(y, ws))
    dev = sorted(abs(float(v) - med_y) for v in y)
    scale = max(dev) or 1.0
    if any(d != e and abs(d - e) <= 1e-9 * scale + 4 * a for d, e in zip(dev, dev[1:])):
        return 'undefined:rounding_split_tie', p
    p.want('target', mm.mad(y, ws), s, 'mad (mystic) after ', tag, extra=2 * a)
    p.want('keeps_median', med_y, float(mm.median(xs, ws)), 'median (mystic) after ', tag, extra=a)
    return ('ok:changed' if changed(y, xs) else 'ok:identity'), p


def _k(k):
    return tuple(k) if isinstance(k, (list, tuple)) else k


_TCACHE = {}


def _trimmed_input(xs, ws, k, clip):
    """(tmean, tvariance) of the input by mystic, and the exact mass-trimmed reference pair; cached per case"""
    import mystic.math.measures as mm
    key = (tuple(xs), None if ws is None else tuple(ws), k, clip)
    r = _TCACHE.get(key)
    if r is None:
        if len(_TCACHE) > 64:
            _TCACHE.clear()
        r = _TCACHE[key] = (mm.tmean(xs, ws, k, clip), mm.tvariance(xs, ws, k, clip),
                            R.tmean(xs, ws, k, clip), R.tvariance(xs, ws, k, clip))
    return r


def c_tmean(xs, ws, m, k, clip):
    import mystic.math.measures as mm
    k = _k(k)
    p = P(); p.calls = 2
    t0, v0, rt, rv = _trimmed_input(xs, ws, k, clip)
    if isbad([t0, v0]):
        return 'undefined:everything_trimmed', p
    p.calls = 5
    y = mm.impose_tmean(m, xs, ws, k, clip)
    tag = Lazy('impose_tmean(%r,%r,%r,k=%r,clip=%r) -> %r', m, xs, ws, k, clip, y)
    if len(y) != len(xs) or isbad(y):
        p.add('shape', tag + ': wrong length or non-finite entries for a defined operation')
        return 'bad', p
    a = p.a = noise(xs, m, y)
    D = float(R.spread(xs))
    p.want('target', mm.tmean(y, ws, k, clip), m, 'tmean (mystic) after ', tag, extra=a)
    p.want('keeps_spread', float(R.spread(y)), R.spread(xs), 'spread after ', tag, extra=2 * a)
    p.want('keeps_tvariance', mm.tvariance(y, ws, k, clip), v0, 'tvariance (mystic) after ', tag, extra=p.tol(2, D))
    out = 'ok:changed' if changed(y, xs) else 'ok:identity'
    # definition: trimming k% of the *mass* from each end (boundary points keep the inside part of their
    # mass; clip moves the cut mass onto the boundary points).  mystic agrees with this form everywhere,
    # so it is judged (separate sub-clause), unlike the weighted median (DESIGN section 5).
    if rt is not None and rv is not None:
        a0 = noise(xs)
        p.want('tmean_definition', t0, rt, 'tmean(%r,%r,k=%r,clip=%r)' % (xs, ws, k, clip), extra=a0)
        p.want('tvariance_definition', v0, rv, 'tvariance(%r,%r,k=%r,clip=%r)' % (xs, ws, k, clip),
               extra=(D + 2 * a0) ** 2 - D ** 2)
    return out, p


def _c_tscale(fn_name, stat_name, xs, ws, t, k, clip, root):
    import mystic.math.measures as mm
    k = _k(k)
    p = P()
    if t < 0:
        return 'undefined:negative_target', p
    p.calls = 2
    t0, v0, rt, rv = _trimmed_input(xs, ws, k, clip)
    if isbad([t0, v0]):
        return 'undefined:everything_trimmed', p
    if v0 == 0:
        return 'undefined:zero_trimmed_variance', p
    if rv == 0 or v0 < max(1e-24, (2 * noise(xs)) ** 2):
        # one distinct value survives the trimming: degenerate, although rounding in mystic's
        # trimmed mean makes its own variance a tiny non-zero number (so it does not answer nan)
        return 'undefined:zero_trimmed_variance_hidden_by_rounding', p
    p.calls = 5
    y = getattr(mm, fn_name)(t, xs, ws, k, clip)
    tag = Lazy('%s(%r,%r,%r,k=%r,clip=%r) -> %r', fn_name, t, xs, ws, k, clip, y)
    if len(y) != len(xs) or isbad(y):
        p.add('shape', tag + ': wrong length or non-finite entries for a defined operation')
        return 'bad', p
    ratio = math.sqrt((t * t if root else t) / float(v0))
    a = p.a = noise(xs, y, t, mag(xs) * ratio)
    p.want('target', getattr(mm, stat_name)(y, ws, k, clip), t, stat_name + ' (mystic) after ', tag,
           extra=2 * a if root else p.tol(2, R.spread(y)))
    p.want('keeps_tmean', mm.tmean(y, ws, k, clip), t0, 'tmean (mystic) after ', tag, extra=a)
    return ('ok:changed' if changed(y, xs) else 'ok:identity'), p


def c_tvariance(xs, ws, v, k, clip):
    return _c_tscale('impose_tvariance', 'tvariance', xs, ws, v, k, clip, False)


def c_tstd(xs, ws, s, k, clip):
    return _c_tscale('impose_tstd', 'tstd', xs, ws, s, k, clip, True)


# ------------------------------------------------------------------ weights: totals
def _proportional(p, sub, y, ws, tag, positive=True):
    """y is a positive multiple of ws (cross products against the largest entry)"""
    j = max(range(len(ws)), key=lambda i: abs(ws[i]))
    for i in range(len(ws)):
        if not near(float(R.fr(y[i]) * R.fr(ws[j])), R.fr(y[j]) * R.fr(ws[i])):
            p.add(sub, '%s is not a multiple of the input weights' % tag)
            return


def c_sum(ws, mass, how):
    """normalize / impose_sum / impose_product on a weight vector with positive sum"""
    import mystic.math.measures as mm
    p = P(); p.calls = 1
    if how in ('normalize', 'impose_sum'):
        y = mm.normalize(ws, mass) if how == 'normalize' else mm.impose_sum(mass, ws)
        tag = Lazy('%s(%r, mass=%r) -> %r', how, ws, mass, y)
        if len(y) != len(ws) or isbad(y):
            p.add('shape', tag + ': wrong length or non-finite entries'); return 'bad', p
        p.want('target', float(R.total(y)), mass, 'sum after ', tag)
        _proportional(p, 'proportional', y, ws, tag)
    elif how in ('l1', 'l2'):
        y = mm.normalize(ws, how)
        pw = int(how[1])
        tag = Lazy('normalize(%r, mass=%r) -> %r', ws, how, y)
        if len(y) != len(ws) or isbad(y):
            p.add('shape', tag + ': wrong length or non-finite entries'); return 'bad', p
        p.want('target', float(R.lnorm_radicand(y, pw)), 1, 'sum |w|^%d after ' % pw, tag)
        _proportional(p, 'proportional', y, ws, tag)
    elif how == 'zsum':
        y = mm.impose_sum(0.0, ws, zsum=True)
        tag = Lazy('impose_sum(0.0, %r, zsum=True) -> %r', ws, y)
        if len(y) != len(ws) or isbad(y):
            p.add('shape', tag + ': wrong length or non-finite entries'); return 'bad', p
        p.want('target', float(R.total(y)), 0, 'sum after ', tag)
    elif how == 'product':
        prod = F(1)
        for w in ws:
            prod *= R.fr(w)
        if prod == 0:
            return 'undefined:zero_product', p
        if mass < 0 and len(ws) % 2 == 0:
            return 'undefined:negative_product_of_even_count', p
        y = mm.impose_product(mass, ws)
        tag = Lazy('impose_product(%r, %r) -> %r', mass, ws, y)
        if len(y) != len(ws) or isbad(y):
            p.add('shape', tag + ': wrong length or non-finite entries'); return 'bad', p
        got = F(1)
        for w in y:
            got *= R.fr(w)
        p.want('target', float(got), mass, 'product after ', tag)
        if mass:
            _proportional(p, 'proportional', y, ws, tag)
    else:
        raise ValueError(how)
    return 'ok', p


def c_weight_norm(xs, ws, mass):
    import mystic.math.measures as mm
    p = P(); p.calls = 1
    y, w2 = mm.impose_weight_norm(xs, ws, mass)
    tag = Lazy('impose_weight_norm(%r,%r,%r) -> (%r, %r)', xs, ws, mass, y, w2)
    if len(w2) != len(ws) or isbad(w2):
        p.add('shape', tag + ': wrong length or non-finite weights'); return 'bad', p
    p.want('target', float(R.total(w2)), mass, 'sum of weights after ', tag)
    if mass == 0:
        return 'ok:zero_mass_mean_undefined', p
    if len(y) != len(xs) or isbad(y):
        p.add('shape', tag + ': wrong length or non-finite positions'); return 'bad', p
    p.want('keeps_mean', float(R.wmean(y, w2)), R.wmean(xs, ws), 'weighted mean (new weights) after ', tag,
           extra=noise(xs, y))
    return 'ok', p


# ------------------------------------------------------------------ weights: support surgery
def _surgery_checks(p, tag, xs, ws, y, w2, expect_w):
    """expect_w: exact expected weights (Fractions); zeros must be exact zeros"""
    if len(y) != len(xs) or len(w2) != len(ws) or isbad(y) or isbad(w2):
        p.add('shape', tag + ': wrong length or non-finite entries for a defined operation')
        return False
    for i, e in enumerate(expect_w):
        if e == 0:
            if float(w2[i]) != 0.0:
                p.add('zeroes_designated', '%s: weight %d must be exactly zero, is %r' % (tag, i, w2[i]))
        else:
            if float(w2[i]) == 0.0:
                p.add('zeroes_only_designated', '%s: weight %d was not designated and was positive, but is now zero' % (tag, i))
            elif not near(w2[i], e):
                p.add('rescales_rest', '%s: weight %d is %r, reference %s' % (tag, i, w2[i], e))
    p.want('keeps_total_weight', float(R.total(w2)), R.total(ws), 'total weight after ', tag)
    p.want('keeps_mean', float(R.wmean(y, w2)), R.wmean(xs, ws), 'weighted mean (new weights) after ', tag,
           extra=noise(xs, y))
    return True


def _norm_index(index, n):
    return set(n + i if i < 0 else i for i in index)


def c_support(xs, ws, index):
    import mystic.math.measures as mm
    p = P()
    n = len(ws)
    keep = set(range(n)) if index is None else _norm_index(index, n)
    base = [R.fr(w) if i in keep else F(0) for i, w in enumerate(ws)]
    if sum(base) == 0:
        return 'undefined:no_weight_left', p
    tot = R.total(ws)
    expect_w = [b * tot / sum(base) for b in base]
    p.calls = 1
    y, w2 = mm.impose_support(index, xs, ws)
    tag = Lazy('impose_support(%r,%r,%r) -> (%r, %r)', index, xs, ws, y, w2)
    if not _surgery_checks(p, tag, xs, ws, y, w2, expect_w):
        return 'bad', p
    return ('ok:changed' if fl(w2) != fl(ws) else 'ok:identity'), p


def c_unweighted(xs, ws, index, nullable):
    import mystic.math.measures as mm
    p = P()
    n = len(ws)
    drop = set() if index is None else _norm_index(index, n)
    base = [F(0) if i in drop else R.fr(w) for i, w in enumerate(ws)]
    revived = False
    if sum(base) == 0:
        if nullable or len(drop) >= n:
            return 'undefined:no_weight_left', p
        base = [F(0) if i in drop else F(1) for i in range(n)]     # documented: reweight the non-index weights
        revived = True
    tot = R.total(ws)
    expect_w = [b * tot / sum(base) for b in base]
    p.calls = 1
    y, w2 = mm.impose_unweighted(index, xs, ws, nullable)
    tag = Lazy('impose_unweighted(%r,%r,%r,nullable=%r) -> (%r, %r)', index, xs, ws, nullable, y, w2)
    if not _surgery_checks(p, tag, xs, ws, y, w2, expect_w):
        return 'bad', p
    return ('ok:revived' if revived else 'ok:changed' if fl(w2) != fl(ws) else 'ok:identity'), p


def pairs_class(pairs, n):
    """'simple': no index is both a first and a second member and no second member has two firsts;
    'cyclic': the undirected pair graph has a cycle (e.g. both (i,j) and (j,i))"""
    pr = _norm_pairs(pairs, n)
    I = set(a for a, b in pr); J = [b for a, b in pr]
    if any(a == b for a, b in pr):
        return 'self_pair'
    comps, members = _components(pr, n)
    if len(pr) > len(members) - len(comps):        # more edges than a forest has
        return 'cyclic'
    if not (I & set(J)) and len(J) == len(set(J)):
        return 'simple'
    if not (I & set(J)):
        return 'shared_second_index'
    return 'chained'


def _norm_pairs(pairs, n):
    """pairs with every index in its non-negative form, the same position pair listed once"""
    out = []
    for q in pairs:
        q = tuple(n + i if i < 0 else i for i in q)
        if q not in out:
            out.append(q)
    return out


def _components(pairs, n):
    parent = list(range(n))
    def find(a):
        while parent[a] != a:
            a = parent[a]
        return a
    for a, b in pairs:
        parent[find(a)] = find(b)
    comps = {}
    members = set(i for q in pairs for i in q)
    for i in members:
        comps.setdefault(find(i), []).append(i)
    return list(comps.values()), members


def c_collapse(xs, ws, pairs):
    import mystic.math.measures as mm
    p = P(); p.calls = 1
    n = len(xs)
    pr = _norm_pairs(pairs, n)
    cls = pairs_class(pairs, n)
    y, w2 = mm.impose_collapse(set(tuple(q) for q in pairs), xs, ws)
    tag = Lazy('impose_collapse(%r,%r,%r) -> (%r, %r)', sorted(tuple(q) for q in pairs), xs, ws, y, w2)
    if len(y) != n or len(w2) != n or isbad(y) or isbad(w2):
        p.add('shape', tag + ': wrong length or non-finite entries')
        return 'bad:' + cls, p
    p.want('keeps_total_weight', float(R.total(w2)), R.total(ws), 'total weight after ', tag)
    p.want('keeps_mean', float(R.wmean(y, w2)), R.wmean(xs, ws), 'weighted mean (new weights) after ', tag,
           extra=noise(xs, y))
    comps, members = _components(pr, n)
    for comp in comps:
        if len(set(float(y[i]) for i in comp)) != 1:
            p.add('same_position', '%s: positions of the collapsed group %r differ' % (tag, sorted(comp)))
        tot = sum((R.fr(ws[i]) for i in comp), F(0))
        nz = [i for i in comp if float(w2[i]) != 0.0]
        if tot == 0:
            if nz:
                p.add('zeroes_designated', '%s: group %r had no weight but %r now carry weight' % (tag, sorted(comp), nz))
        elif len(nz) != 1 or R.fr(w2[nz[0]]) != tot:
            p.add('zeroes_designated', '%s: group %r must end with all of its weight %s on one member and exact zeros elsewhere; weights are %r'
                  % (tag, sorted(comp), tot, [float(w2[i]) for i in sorted(comp)]))
    for i in range(n):
        if i not in members and float(w2[i]) != float(ws[i]):
            p.add('zeroes_only_designated', '%s: weight %d is in no pair but changed from %r to %r' % (tag, i, ws[i], w2[i]))
    if cls == 'simple':
        shifts = set()
        for a in set(a for a, b in pr):
            want = R.fr(ws[a]) + sum((R.fr(ws[b]) for (c, b) in pr if c == a), F(0))
            if R.fr(w2[a]) != want:
                p.add('first_index_receives', '%s: weight %d (first index of its pairs) is %r, documented %s' % (tag, a, w2[a], want))
            shifts.add(R.fr(y[a]) - R.fr(xs[a]))
        for i in range(n):
            if i not in members:
                shifts.add(R.fr(y[i]) - R.fr(xs[i]))
        if shifts and max(shifts) - min(shifts) > F(REL) * 10:
            p.add('position_of_first_index', '%s: the group must sit at the (shifted) position of its first index; shifts of kept points differ: %r'
                  % (tag, sorted(float(s) for s in shifts)))
    return ('ok:%s:%s' % (cls, 'changed' if (fl(w2) != fl(ws) or changed(y, xs)) else 'identity')), p


CLAUSES = {'defs': c_defs, 'expect': c_expect, 'mean': c_mean, 'variance': c_variance, 'std': c_std,
           'spread': c_spread, 'moment': c_moment, 'median': c_median, 'mad': c_mad, 'tmean': c_tmean,
           'tvariance': c_tvariance, 'tstd': c_tstd, 'weight_norm': c_weight_norm, 'support': c_support,
           'unweighted': c_unweighted, 'collapse': c_collapse, 'tol_defs': c_tol_defs, 'tol_moment': c_tol_moment}
NEEDS_WEIGHTS = {'weight_norm', 'support', 'unweighted', 'collapse'}
TRANSFORMS = set(CLAUSES) - {'defs', 'expect', 'tol_defs'}


# ------------------------------------------------------------------ selections
def index_selections(n):
    out = [None]
    for r in range(n + 1):
        out += [list(c) for c in itertools.combinations(range(n), r)]
    # negative indices are accepted ("allow negative indexing"): last, first-and-last, the most negative
    # valid index, one position named twice (by both of its indices), an all-negative list
    out += [[-1], [0, -1]] + NEG_INDEX_EXTRA(n)
    return out


def NEG_INDEX_EXTRA(n):
    return [[-n], [n - 1, -1], [-1, -2]]


def pair_selections(n, max_size, reps_only_above=None):
    """all sets of up to max_size ordered pairs (i != j) over range(n), plus two with negative indices"""
    ordered = [(i, j) for i in range(n) for j in range(n) if i != j]
    out = []
    for r in range(1, max_size + 1):
        out += [[list(q) for q in c] for c in itertools.combinations(ordered, r)]
    out += [[[0, -1]], [[-1, 0]]]
    return out


def render(pairs, n, mode):
    """the same pair set with some positions named by their negative index i - n:
    'neg' every index; 'alias' every occurrence of a position after its first one (so one position is
    named p in one pair and p - n in another); 'alias_inv' the first occurrence only"""
    seen = set(); out = []
    for q in pairs:
        r = []
        for i in q:
            later = i in seen
            seen.add(i)
            neg = later if mode == 'alias' else (not later) if mode == 'alias_inv' else True
            r.append(i - n if neg else i)
        out.append(r)
    return out


def signed_pair_sets(n, max_size):
    """every set of up to max_size ordered pairs in which each index is written either as i or as i - n
    (pairs naming one position twice, such as (n-1, -1), are not collapses and are left out)"""
    signed = [(i, j) for i in range(-n, n) for j in range(-n, n) if i % n != j % n]
    out = []
    for r in range(1, max_size + 1):
        out += [[list(q) for q in c] for c in itertools.combinations(signed, r)]
    return out


def negative_pair_selections(n, mode, base):
    """pair sets with negative indices for vectors of length n (see plans): `base` = the non-negative sets in use"""
    if mode == 'all2':                       # complete up to two pairs
        out = signed_pair_sets(n, 2)
        out += [render(q, n, m) for q in base if len(q) > 2 for m in ('alias', 'alias_inv', 'neg')]
    elif mode == 'singles+alias':            # every signed single pair; every two-pair set in alias form
        out = signed_pair_sets(n, 1) + [render(q, n, 'alias') for q in base if len(q) == 2]
    elif mode == 'multi:alias':              # every multi-pair set in alias form, a few single pairs
        out = [render(q, n, 'alias') for q in base if len(q) > 1] + [[[-1, -2]], [[-n, 1]], [[1, -n]], [[n - 1, -n]]]
    elif mode == 'multi:all':
        out = [render(q, n, m) for q in base if len(q) > 1 for m in ('alias', 'alias_inv', 'neg')]
        out += signed_pair_sets(n, 1)
    else:
        raise ValueError(mode)
    res = []
    for q in out:
        if not any(i < 0 for pr in q for i in pr):     # alias form of a set without a repeated position
            q = render(q, n, 'neg')
        if q not in res and q not in base:
            res.append(q)
    return res


PAIR_REPS_4 = [  # one representative per structure for 4 points (quick tier; thorough enumerates all sets)
    [[0, 1], [0, 2]], [[0, 1], [1, 2]], [[1, 2], [0, 1]], [[0, 1], [2, 3]], [[0, 1], [1, 0]], [[0, 2], [1, 2]],
    [[3, 0], [2, 1]], [[2, 3], [3, 1]], [[0, 1], [2, 3], [1, 2]], [[0, 1], [0, 2], [0, 3]], [[0, 1], [1, 2], [2, 3]],
    [[3, 2], [2, 1], [1, 0]], [[0, 3], [1, 3], [2, 3]], [[0, 1], [2, 3], [3, 0]], [[1, 0], [2, 3], [0, 2]],
    [[0, 1], [1, 3], [2, 3]], [[0, 3], [1, 2], [1, 3]], [[0, 1], [0, 2], [1, 2]], [[0, 1], [0, 3], [1, 3], [2, 3]]]


def clause_list(n, plan):
    """[(clause, params)] for vectors of length n under a plan"""
    if plan.get('only') == 'pair_triples':
        ordered = [(i, j) for i in range(n) for j in range(n) if i != j]
        return [('collapse', {'pairs': [list(q) for q in c]}) for c in itertools.combinations(ordered, 3)]
    if plan.get('only') == 'neg_pairs':
        base = pair_selections(n, 2) + [q for q in PAIR_REPS_4 if n == 4]
        return [('collapse', {'pairs': q}) for q in negative_pair_selections(n, 'multi:all', base)]
    if plan.get('only') == 'offset':
        return offset_clause_list()
    out = [('defs', {})]
    for fname in plan['funcs']:
        for tol in TOLS:
            out.append(('expect', {'fname': fname, 'tol': tol}))
    for t in BIG_TARGETS:
        out.append(('mean', {'m': t}))
    for t in TARGETS:
        out.append(('mean', {'m': t}))
        out.append(('variance', {'v': t}))
        out.append(('std', {'s': t}))
        out.append(('spread', {'r': t}))
        out.append(('median', {'m': t}))
        out.append(('mad', {'s': t}))
        out.append(('weight_norm', {'mass': t}))
        for order in (2, 3, 4):
            out.append(('moment', {'order': order, 'm': t}))
        for k in plan['ks']:
            for clip in (False, True):
                out.append(('tmean', {'m': t, 'k': k, 'clip': clip}))
                out.append(('tvariance', {'v': t, 'k': k, 'clip': clip}))
                out.append(('tstd', {'s': t, 'k': k, 'clip': clip}))
    for idx in index_selections(n):
        out.append(('support', {'index': idx}))
        out.append(('unweighted', {'index': idx, 'nullable': True}))
        if idx not in NEG_INDEX_EXTRA(n) or plan.get('thorough'):
            out.append(('unweighted', {'index': idx, 'nullable': False}))
    sels = pair_selections(n, plan['pair_set_size'][n])
    if plan['pair_reps'] and n == 4:
        sels = sels + [q for q in PAIR_REPS_4 if q not in sels]
    base = [q for q in sels if len(q) == 1 or q in PAIR_REPS_4] if n == 4 else sels    # n=4: the representatives on every case
    sels = sels + [q for q in negative_pair_selections(n, plan['neg_pairs'][n], base) if q not in sels]
    for pairs in sels:
        out.append(('collapse', {'pairs': pairs}))
    return out


def offset_clause_list():
    """clauses run on the large-offset vectors: every definition and every shift / scale transform
    (support surgery is index bookkeeping plus impose_mean and stays on the O(1) alphabet)"""
    out = [('defs', {}), ('expect', {'fname': 'x', 'tol': 0.0}), ('expect', {'fname': 'abs', 'tol': 0.25})]
    for t in TARGETS + BIG_TARGETS:
        out.append(('mean', {'m': t}))
    for t in TARGETS:
        out.append(('variance', {'v': t}))
        out.append(('std', {'s': t}))
        out.append(('spread', {'r': t}))
        out.append(('weight_norm', {'mass': t}))
        for order in (2, 3, 4):
            out.append(('moment', {'order': order, 'm': t}))
    for t in (TARGETS[0], TARGETS[-1]):
        out.append(('median', {'m': t}))
        out.append(('mad', {'s': t}))
    for clip in (False, True):
        out.append(('tmean', {'m': TARGETS[-1], 'k': 20, 'clip': clip}))
        out.append(('tvariance', {'v': TARGETS[-1], 'k': 20, 'clip': clip}))
        out.append(('tstd', {'s': TARGETS[-1], 'k': 20, 'clip': clip}))
    return out


def offset_vectors(base, offsets=None):
    return [[o + x for x in xs] for o in (OFFSETS if offsets is None else offsets) for xs in base]


def weight_vectors(n):
    return [None] + [list(w) for w in itertools.product(WALPHA, repeat=n) if sum(w) > 0]


def sample_vectors(n):
    return [list(x) for x in itertools.product(ALPHA, repeat=n) if len(set(x)) > 1]


def violate(T, name, params, xs, ws, sub, text, extra=None):
    sig = {'clause': name, 'sub': sub, 'weighted': ws is not None,
           'zero_weight_present': bool(ws is not None and 0.0 in ws)}
    if name == 'collapse':
        sig['pairs_class'] = pairs_class(params['pairs'], len(xs))
    if name in ('tmean', 'tvariance', 'tstd'):
        sig['clip'] = params['clip']
    if mag(xs) >= 1024 or mag(params.get('m')) >= 1024:
        sig['scale'] = 'large_offset'
    if name in ('tol_defs', 'tol_moment'):
        sig['tol_positive'] = params['tol'] > 0
        sig['mean_vs_tol'] = mean_class(_wm(xs, ws, 1), params['tol'])
        if name == 'tol_moment':
            sig['order_odd'] = bool(params['order'] % 2)
            sig['skew'] = params['skew']
    if extra:
        sig.update(extra)
    T.violate(sig, {'clause': name, 'xs': xs, 'ws': ws, 'params': params}, text)


def run_case(T, xs, ws, clauses):
    nontrivial = False
    for name, params in clauses:
        if ws is None and name in NEEDS_WEIGHTS:
            continue
        if ws is None and name == 'expect' and params['tol'] != 0.0:
            continue
        try:
            outcome, p = CLAUSES[name](xs, ws, **params)
        except Exception as e:       # an exception on a defined input is an outcome to judge
            outcome, p = 'raised:' + type(e).__name__, P()
            p.add('raised', '%s(%r,%r,%r) raised %s: %s' % (name, xs, ws, params, type(e).__name__, e))
        T.count('traces')
        T.count('transitions', max(p.calls, 1))
        T.hist(name, outcome)
        if name in TRANSFORMS and outcome.startswith('ok') and 'identity' not in outcome:
            nontrivial = True
        for sub, text in p.items:
            violate(T, name, params, xs, ws, sub, text)
    if nontrivial:
        T.nontriv(('case', xs, ws))
    T.state(('case', xs, ws))


def shard_grid(item):
    n, chunk, plan, wsel = item
    T = Tally()
    clauses = clause_list(n, plan)
    wvs = weight_vectors(n)
    if wsel is not None:
        wvs = [w for i, w in enumerate(wvs) if i % wsel[1] == wsel[0]]
    for xs in chunk:
        for ws in wvs:
            run_case(T, xs, ws, clauses)
    if chunk and wvs:
        T.sample({'xs': chunk[0], 'ws': wvs[-1], 'clauses_per_case': len(clauses)})
    return T


def shard_offset(item):
    """large-offset vectors: (n, base sample vectors, weight vectors or None for all)"""
    n, base, wvs = item
    T = Tally()
    clauses = offset_clause_list()
    if wvs is None:
        wvs = weight_vectors(n)
    cases = [(xs, ws) for xs in offset_vectors(base) for ws in wvs]
    for xs, ws in cases:
        run_case(T, xs, ws, clauses)
    if cases:
        T.sample({'xs': cases[-1][0], 'ws': cases[-1][1], 'clauses_per_case': len(clauses), 'family': 'large_offset'})
    return T


def shard_offset_cases(item):
    n, cases = item
    T = Tally()
    clauses = offset_clause_list()
    for xs0, ws in cases:
        for xs in offset_vectors([xs0]):
            run_case(T, xs, ws, clauses)
    return T


def shard_cases(item):
    n, cases, plan = item
    T = Tally()
    clauses = clause_list(n, plan)
    for xs, ws in cases:
        run_case(T, xs, ws, clauses)
    if cases:
        T.sample({'xs': cases[0][0], 'ws': cases[0][1], 'clauses_per_case': len(clauses)})
    return T


def orbit_representatives(n, seed=0):
    """one (samples, weights) case per orbit of the joint permutations of positions; which member of the
    orbit is used is a deterministic function of the orbit (and rotates with the seed), so the
    representatives are not all sorted"""
    import zlib
    perms = list(itertools.permutations(range(n)))
    out = []
    for pairs in itertools.combinations_with_replacement(list(itertools.product(ALPHA, WALPHA)), n):
        xs = [q[0] for q in pairs]; ws = [q[1] for q in pairs]
        if len(set(xs)) < 2 or sum(ws) <= 0:
            continue
        pm = perms[(zlib.crc32(repr(pairs).encode()) + seed) % len(perms)]
        out.append(([xs[i] for i in pm], [ws[i] for i in pm]))
    for xs in itertools.combinations_with_replacement(ALPHA, n):
        if len(set(xs)) < 2:
            continue
        pm = perms[(zlib.crc32(repr(xs).encode()) + seed) % len(perms)]
        out.append(([xs[i] for i in pm], None))
    return out


# ------------------------------------------------------------------ weight-only clauses
def shard_weights(n):
    T = Tally()
    for ws in weight_vectors(n)[1:]:
        for how, masses in (('normalize', TARGETS), ('impose_sum', TARGETS), ('l1', [None]), ('l2', [None]),
                            ('zsum', [None]), ('product', TARGETS)):
            for mass in masses:
                try:
                    outcome, p = c_sum(ws, mass, how)
                except Exception as e:
                    outcome, p = 'raised:' + type(e).__name__, P()
                    p.add('raised', 'c_sum(%r,%r,%r) raised %s: %s' % (ws, mass, how, type(e).__name__, e))
                T.count('traces'); T.count('transitions', max(p.calls, 1))
                T.hist('sum:' + how, outcome)
                if outcome == 'ok':
                    T.nontriv(('sum', how, mass, ws))
                T.state(('sum', how, mass, ws))
                for sub, text in p.items:
                    T.violate({'clause': 'sum', 'how': how, 'sub': sub, 'zero_weight_present': 0.0 in ws},
                              {'clause': 'sum', 'ws': ws, 'params': {'mass': mass, 'how': how}}, text)
    return T


# ------------------------------------------------------------------ norms
PS = [0, 1, 2, 3, INF]


def _lnorm_check(T, arr, p, axis, got_scalar, vec):
    """compare one reduced entry with the textbook value of vector vec"""
    ex = R.lnorm_exact(vec, p)
    if ex is not None:
        return float(got_scalar) == float(ex), str(ex)
    rad = R.lnorm_radicand(vec, p)
    return R.close_root(got_scalar, rad, p, REL, 1), '(%s)**(1/%s)' % (rad, p)


def c_lnorm(arr, p, axis):
    """arr: list (1-D) or list of lists (2-D); returns list of problem texts"""
    import numpy as np
    from mystic.math.distance import Lnorm
    out = []
    pp = INF if p == 'inf' else p
    got = Lnorm(arr, pp, axis)
    a = np.asarray(arr, dtype=float)
    if axis is None:
        if np.ndim(got) != 0:
            return ['Lnorm(%r,p=%r) returned shape %r, a scalar is documented' % (arr, p, np.shape(got))]
        ok, want = _lnorm_check(None, arr, pp, axis, got, list(a.ravel()))
        if not ok:
            out.append('Lnorm(%r,p=%r) = %r, textbook %s' % (arr, p, float(got), want))
        return out
    shape = list(a.shape); shape[axis] = 1
    if tuple(np.shape(got)) != tuple(shape):
        return ['Lnorm(%r,p=%r,axis=%r) returned shape %r, expected %r (reduced axis kept)' % (arr, p, axis, np.shape(got), tuple(shape))]
    g = np.squeeze(np.asarray(got), axis=axis)
    vecs = a.T if axis == 0 else a
    for j, vec in enumerate(vecs):
        ok, want = _lnorm_check(None, arr, pp, axis, g[j], list(vec))
        if not ok:
            out.append('Lnorm(%r,p=%r,axis=%r)[%d] = %r, textbook %s' % (arr, p, axis, j, float(g[j]), want))
    return out


def shard_norms(item):
    kind, chunk = item
    T = Tally()
    for arr in chunk:
        for p in PS:
            pj = 'inf' if p == INF else p
            for axis in ((None,) if kind == 'vec' else (None, 0, 1)):
                try:
                    probs = c_lnorm(arr, pj, axis)
                except Exception as e:
                    probs = ['Lnorm(%r,p=%r,axis=%r) raised %s: %s' % (arr, pj, axis, type(e).__name__, e)]
                T.count('traces'); T.count('transitions')
                T.hist('Lnorm', 'p=%s axis=%s' % (pj, axis))
                T.nontriv(('lnorm', arr, pj, axis))
                for text in probs:
                    T.violate({'clause': 'Lnorm', 'p': pj, 'axis': axis}, {'clause': 'Lnorm', 'arr': arr, 'p': pj, 'axis': axis}, text)
    T.state(('norms', kind, repr(chunk[:1])))
    return T


# ------------------------------------------------------------------ point-to-point metrics
METRICS = ['chebyshev', 'hamming', 'manhattan', 'euclidean', 'minkowski']


def _metric_ok(name, got, a, b):
    if name == 'chebyshev':
        return float(got) == float(R.chebyshev(a, b)), str(R.chebyshev(a, b))
    if name == 'hamming':
        return float(got) == float(R.hamming(a, b)), str(R.hamming(a, b))
    if name == 'manhattan':
        return near(got, R.manhattan(a, b)), str(R.manhattan(a, b))
    pw = 2 if name == 'euclidean' else 3
    rad = R.minkowski_radicand(a, b, pw)
    return R.close_root(got, rad, pw, REL, 1), '(%s)**(1/%d)' % (rad, pw)


def c_metric(name, mode, x, xp):
    """modes (as documented in mystic.math.distance):
       A  2-D x (n,d), x' (m,d), pair=False, axis=0  -> D[i][j] = d(x_i, x'_j)
       B  2-D x (n,d), x' (n,d), pair=True,  axis=1  -> D[i]    = d(x_i, x'_i)
       C  1-D x, x' as two points, pair=True, axis=None -> scalar d(x, x')
       D  1-D x, x' as two points, dmin=2, axis=0     -> [[d(x, x')]]
       E  2-D x with itself (x'=None), pair=False, axis=0 -> symmetric, zero diagonal"""
    import numpy as np
    import mystic.math.distance as md
    fn = getattr(md, name)
    out = []
    call = '%s(%r,%r) [mode %s]' % (name, x, xp, mode)
    if mode in ('A', 'E'):
        got = np.asarray(fn(x, xp, pair=False, axis=0))
        xq = x if xp is None else xp
        if got.shape != (len(x), len(xq)):
            return ['%s returned shape %r, documented (%d,%d)' % (call, got.shape, len(x), len(xq))]
        for i, a in enumerate(x):
            for j, b in enumerate(xq):
                ok, want = _metric_ok(name, got[i][j], a, b)
                if not ok:
                    out.append('%s [%d][%d] = %r, textbook d(%r,%r) = %s' % (call, i, j, float(got[i][j]), a, b, want))
    elif mode == 'B':
        got = np.asarray(fn(x, xp, pair=True, axis=1))
        if got.shape != (len(x),):
            return ['%s returned shape %r, documented (%d,)' % (call, got.shape, len(x))]
        for i, (a, b) in enumerate(zip(x, xp)):
            ok, want = _metric_ok(name, got[i], a, b)
            if not ok:
                out.append('%s [%d] = %r, textbook d(%r,%r) = %s' % (call, i, float(got[i]), a, b, want))
    elif mode == 'C':
        got = fn(x, xp, pair=True)
        if np.ndim(got) != 0:
            return ['%s returned shape %r, a scalar is documented for axis=None' % (call, np.shape(got))]
        ok, want = _metric_ok(name, got, x, xp)
        if not ok:
            out.append('%s = %r, textbook %s' % (call, float(got), want))
    elif mode == 'D':
        got = np.asarray(fn(x, xp, dmin=2, axis=0))
        if got.shape != (1, 1):
            return ['%s returned shape %r, documented (1,1)' % (call, got.shape)]
        ok, want = _metric_ok(name, got[0][0], x, xp)
        if not ok:
            out.append('%s = %r, textbook %s' % (call, float(got[0][0]), want))
    return out


def _arrays(alpha, n, d):
    return [[list(row[i * d:(i + 1) * d]) for i in range(n)] for row in itertools.product(alpha, repeat=n * d)]


def shard_metrics(item):
    d, xchunk, xp_alpha = item
    T = Tally()
    xps = {m: _arrays(xp_alpha, m, d) for m in (1, 2)}
    def judge(name, mode, x, xp):
        try:
            probs = c_metric(name, mode, x, xp)
        except Exception as e:
            probs = ['%s mode %s on %r, %r raised %s: %s' % (name, mode, x, xp, type(e).__name__, e)]
        T.count('traces'); T.count('transitions')
        T.hist('metric', '%s mode %s' % (name, mode))
        for text in probs:
            T.violate({'clause': 'metric', 'metric': name, 'mode': mode},
                      {'clause': 'metric', 'metric': name, 'mode': mode, 'x': x, 'xp': xp}, text)
    for x in xchunk:
        n = len(x)
        T.nontriv(('metric', x))
        for name in METRICS:
            judge(name, 'E', x, None)
            for m in (1, 2):
                for xp in xps[m]:
                    judge(name, 'A', x, xp)
                    if m == n:
                        judge(name, 'B', x, xp)
            if n == 1:      # the single row as a 1-D point
                for xp in xps[1]:
                    judge(name, 'C', x[0], xp[0])
                    judge(name, 'D', x[0], xp[0])
    T.state(('metrics', d, repr(xchunk[:1])))
    return T


# ------------------------------------------------------------------ 'scale' families: entries across the whole binary64 range
# Vectors / coordinate differences that mix ordinary entries with tiny-but-non-zero ones (|v|**p underflows to a
# subnormal or to 0) and with huge ones (|v|**p overflows), judged by ref/c18_exact.py: exact rational radicand,
# exact rational powers of the returned float, rules R1-R3 there.  The max-norm fallback is accepted only for a
# vector (row, pair of points) whose own radicand is not a finite binary64 number.
T6, T52, T35, T26 = 2.0 ** -600, 3 * 2.0 ** -520, 2.0 ** -350, 2.0 ** -260   # p>=2 -> 0 | p=2 subnormal | p=3 subnormal, p=4 -> 0 | p=4 subnormal
H6, H51, H4, H3 = 2.0 ** 600, 3 * 2.0 ** 510, 2.0 ** 400, 2.0 ** 300         # p>=2 over | p=2: each term finite, two of them over | p>=3 over | p=4 over
NORM_ALPHA = [0.0, 1.0, -2.0, 3.0, T6, -T52, T35, T26, H6, H51, -H4, H3]
MAT_ALPHA = [0.0, 3.0, -4.0, T6, T35, T26, H6, H3]
MAT_ALPHA_WIDE = [3.0, -4.0, T6, H6]                # 2x3 and 3x2 (zeros: the 2x2 arrays)
PS_SCALE = [0, 1, 2, 3, 4, INF]
MX = [0.0, 3.0, T6, T35, H6]                        # coordinates of x
MX2 = [0.0, 3.0, T6, H6]                            # coordinates of a two-row x (quick tier; thorough: MX)
MXP = [0.0, -4.0]                                   # coordinates of a two-row x' and of 3-d points
MXP1 = [0.0, -4.0, -T52, T26, -H4]                  # coordinates of a one-row x'
MINK_PS = [3, 4]
WN = [0.0, 1.0, 2.0, T6, T52, T35, T26, H6, H3]     # weights for normalize
INTS = [0, 3, -4, 3000000, 4000000, 2 ** 31]        # integer-typed coordinates: d**p leaves the int64 range


def _pj(p):
    return 'inf' if p == INF else p


def _pv(p):
    return INF if p == 'inf' else p


def row_class(vec, p):
    """'overflow' (radicand not a finite binary64 number), 'underflowing_term' (some |v|**p below 2**-1022), 'plain'"""
    return X.info([X.idx_diff(v) for v in vec], p).cls


def _others(classes, j):
    o = set(classes[:j] + classes[j + 1:])
    return 'overflow' if 'overflow' in o else 'underflowing_term' if 'underflowing_term' in o else 'plain' if o else None


def _dtype(arr):
    flat = arr
    while isinstance(flat, list) and flat and isinstance(flat[0], list):
        flat = flat[0]
    return 'int' if all(isinstance(v, int) for v in flat) else 'float'


def c_lnorm_scale(arr, p, axis):
    """-> [(verdict, this_row class, other rows' class, text)] one entry per reduced vector"""
    import numpy as np
    from mystic.math.distance import Lnorm
    pp = _pv(p)
    before = np.geterr()
    got = Lnorm(arr, pp, axis)
    out = []
    if np.geterr() != before:
        out.append(('BAD:error_state_not_restored', 'plain', None, 'Lnorm(%r,p=%r,axis=%r) left numpy.geterr() = %r (was %r)' % (arr, p, axis, np.geterr(), before)))
        np.seterr(**before)
    if axis is None:
        vecs = [[v for row in arr for v in row] if isinstance(arr[0], list) else list(arr)]
        if np.ndim(got) != 0:
            return out + [('BAD:shape', 'plain', None, 'Lnorm(%r,p=%r) returned shape %r, a scalar is documented' % (arr, p, np.shape(got)))]
        gs = [got]
    else:
        nr, nc = len(arr), len(arr[0])
        shape = (1, nc) if axis == 0 else (nr, 1)
        if tuple(np.shape(got)) != shape:
            return out + [('BAD:shape', 'plain', None, 'Lnorm(%r,p=%r,axis=%r) returned shape %r, expected %r' % (arr, p, axis, np.shape(got), shape))]
        vecs = [[arr[i][j] for i in range(nr)] for j in range(nc)] if axis == 0 else [list(r) for r in arr]
        gs = list(np.asarray(got).ravel())
    res = [X.judge_idx(g, [X.idx_diff(v) for v in vec], pp) for vec, g in zip(vecs, gs)]
    classes = [r.cls for v, r in res]
    for j, (verdict, r) in enumerate(res):
        text = ''
        if verdict.startswith('BAD'):
            text = LazyCall(lambda j=j, r=r: 'Lnorm(%r,p=%r%s)%s = %r, textbook %s' % (
                arr, p, '' if axis is None else ',axis=%r' % axis, '' if axis is None else '[%d]' % j, float(gs[j]), X.reference_text(r, pp)))
        out.append((verdict, classes[j], _others(classes, j) if len(res) > 1 else None, text))
    return out


def _metric_p(name, p):
    return {'chebyshev': INF, 'hamming': 0, 'manhattan': 1, 'euclidean': 2}.get(name, p)


def c_metric_scale(name, mode, x, xp, p=None):
    """as c_metric, every entry judged by the exact oracle; p only for minkowski (None: its default 3)
    -> [(verdict, this pair's class, the other pairs' class, text)]"""
    import numpy as np
    import mystic.math.distance as md
    fn = getattr(md, name)
    kw = {'p': p} if (name == 'minkowski' and p is not None) else {}
    pp = _metric_p(name, 3 if p is None else p)
    call = LazyCall(lambda: '%s(%r,%r%s) [mode %s]' % (name, x, xp, ',p=%r' % p if kw else '', mode))
    before = np.geterr()
    if mode in ('A', 'E'):
        got = np.asarray(fn(x, xp, pair=False, axis=0, **kw))
        xq = x if xp is None else xp
        want_shape = (len(x), len(xq))
        pairs = [(a, b) for a in x for b in xq]
    elif mode == 'B':
        got = np.asarray(fn(x, xp, pair=True, axis=1, **kw))
        want_shape = (len(x),)
        pairs = list(zip(x, xp))
    elif mode == 'C':
        got = np.asarray(fn(x, xp, pair=True, **kw))
        want_shape = ()
        pairs = [(x, xp)]
    elif mode == 'D':
        got = np.asarray(fn(x, xp, dmin=2, axis=0, **kw))
        want_shape = (1, 1)
        pairs = [(x, xp)]
    else:
        raise ValueError(mode)
    out = []
    if np.geterr() != before:
        out.append(('BAD:error_state_not_restored', 'plain', None, '%s left numpy.geterr() = %r (was %r)' % (call, np.geterr(), before)))
        np.seterr(**before)
    if got.shape != want_shape:
        return out + [('BAD:shape', 'plain', None, '%s returned shape %r, documented %r' % (call, got.shape, want_shape))]
    gs = list(got.ravel())
    res = [X.judge_idx(g, [X.idx_diff(u, v) for u, v in zip(a, b)], pp) for (a, b), g in zip(pairs, gs)]
    classes = [r.cls for v, r in res]
    for j, (verdict, r) in enumerate(res):
        text = ''
        if verdict.startswith('BAD'):
            text = LazyCall(lambda j=j, r=r: '%s entry %d = %r, textbook d(%r,%r): %s' % (
                call, j, float(gs[j]), pairs[j][0], pairs[j][1], X.reference_text(r, pp)))
        out.append((verdict, classes[j], _others(classes, j) if len(res) > 1 else None, text))
    return out


def c_normalize_scale(ws, how, mass):
    """normalize(w,'lP') has unit P-norm; normalize(w, mass) / impose_sum(mass, w) have total mass; both are multiples of w.
    -> (outcome, [(sub, text)])"""
    import mystic.math.measures as mm
    probs = []
    rel = X.REL
    if how == 'lp':
        pw = mass
        if X.in_underflow_range(ws, pw):
            return 'undefined:norm_in_underflow_range', probs
        y = mm.normalize(ws, 'l%d' % pw)
        call = 'normalize(%r, mass=%r)' % (ws, 'l%d' % pw)
    elif how == 'impose_sum':
        y = mm.impose_sum(mass, ws)
        call = 'impose_sum(%r, %r)' % (mass, ws)
    else:
        y = mm.normalize(ws, mass)
        call = 'normalize(%r, mass=%r)' % (ws, mass)
    y = [float(v) for v in y]
    tag = '%s -> %r' % (call, y)
    if len(y) != len(ws) or isbad(y):
        return 'bad', [('shape', tag + ': wrong length or non-finite entries')]
    fy = [X.fr(v) for v in y]
    fw = [X.fr(v) for v in ws]
    outcome = 'ok'
    if how == 'lp':
        Sy = sum((abs(v) ** pw for v in fy), F(0))
        if (1 - rel) ** pw <= Sy <= (1 + rel) ** pw:
            outcome = 'ok:unit_pnorm'
        elif X.overflows(ws, pw) and abs(max(abs(v) for v in fy) - 1) <= rel:
            outcome = 'ok:unit_maxnorm_on_overflow'
        else:
            probs.append(('target', '%s: sum |w|^%d of the result is %s, must be 1 (the radicand of the input, %s, is a finite normal binary64 number%s)'
                          % (tag, pw, X.describe(Sy), X.describe(X.radicand(X.absvec(ws), pw)[0]),
                             '' if not X.overflows(ws, pw) else '; overflow: unit max-norm also accepted')))
    else:
        tot = sum(fy, F(0))
        if abs(tot - F(mass)) > rel * abs(F(mass)):
            probs.append(('target', '%s: the result sums to %s, requested %r' % (tag, X.describe(tot), mass)))
    j = max(range(len(fw)), key=lambda i: abs(fw[i]))
    c = fy[j] / fw[j]
    for i in range(len(fw)):
        if abs(fy[i] - c * fw[i]) > rel * abs(c * fw[i]) + X.SUBN:
            probs.append(('proportional', '%s is not a multiple of the input weights (entry %d is %r, %s x w[%d] = %s)'
                          % (tag, i, y[i], X.describe(c), i, X.describe(c * fw[i]))))
            break
    return outcome, probs


def _multisets(alpha, n, seed):
    """one ordering per multiset of size n (which ordering rotates with the seed)"""
    import zlib
    perms = list(itertools.permutations(range(n)))
    out = []
    for c in itertools.combinations_with_replacement(alpha, n):
        pm = perms[(zlib.crc32(repr(c).encode()) + seed) % len(perms)]
        out.append([c[i] for i in pm])
    return out


def _scale_tally(T, clause, results, sig_extra, case):
    for verdict, this_row, other, text in results:
        T.hist(clause + ':verdict', verdict)
        if verdict.startswith('BAD'):
            sig = {'clause': clause, 'family': 'scale', 'why': verdict[4:], 'this_row': this_row, 'other_rows': other}
            sig.update(sig_extra)
            T.violate(sig, case, text)


def shard_snorms(item):
    kind, chunk, ps, axes = item
    T = Tally()
    for arr in chunk:
        for p in ps:
            pj = _pj(p)
            for axis in axes:
                case = {'clause': 'Lnorm_scale', 'arr': arr, 'p': pj, 'axis': axis}
                try:
                    res = c_lnorm_scale(arr, pj, axis)
                except Exception as e:
                    res = [('BAD:raised', 'plain', None, 'Lnorm(%r,p=%r,axis=%r) raised %s: %s' % (arr, pj, axis, type(e).__name__, e))]
                T.count('traces'); T.count('transitions')
                T.hist('Lnorm_scale', 'p=%s axis=%s %s' % (pj, axis, _dtype(arr)))
                for r in res:
                    T.hist('Lnorm_scale:rows', '%s|other=%s' % (r[1], r[2]))
                T.nontriv(('slnorm', arr, pj, axis))
                _scale_tally(T, 'Lnorm', res, {'p': pj, 'axis': axis, 'dtype': _dtype(arr)}, case)
    if chunk:
        T.sample({'family': 'scale', 'Lnorm': chunk[len(chunk) // 2], 'p': [_pj(p) for p in ps]})
    T.state(('snorms', kind, repr(chunk[:1])))
    return T


def _metric_calls(thorough=False):
    calls = [('chebyshev', None), ('hamming', None), ('manhattan', None), ('euclidean', None)]
    return calls + [('minkowski', None)] + [('minkowski', p) for p in (MINK_PS + [1, 2, 'inf'] if thorough else MINK_PS) if p != 3]


def shard_smetrics(item):
    """(form, chunk of x, list of x', thorough) with form in 'rows' (2-D x: modes A, B, E) / 'points' (1-D x: modes C, D)"""
    form, xchunk, xps, thorough = item
    T = Tally()
    calls = _metric_calls(thorough)

    def judge(name, p, mode, x, xp):
        case = {'clause': 'metric_scale', 'metric': name, 'p': p, 'mode': mode, 'x': x, 'xp': xp}
        try:
            res = c_metric_scale(name, mode, x, xp, _pv(p) if p is not None else None)
        except Exception as e:
            res = [('BAD:raised', 'plain', None, '%s(p=%r) mode %s on %r, %r raised %s: %s' % (name, p, mode, x, xp, type(e).__name__, e))]
        T.count('traces'); T.count('transitions')
        T.hist('metric_scale', '%s%s mode %s' % (name, '' if p is None else '(p=%s)' % p, mode))
        for r in res:
            T.hist('metric_scale:pairs', '%s|other=%s' % (r[1], r[2]))
        _scale_tally(T, 'metric', res, {'metric': name, 'p': p, 'mode': mode, 'dtype': _dtype(x)}, case)

    for x in xchunk:
        T.nontriv(('smetric', x))
        for name, p in calls:
            if form == 'rows':
                judge(name, p, 'E', x, None)
                for xp in xps:
                    judge(name, p, 'A', x, xp)
                    if len(xp) == len(x):
                        judge(name, p, 'B', x, xp)
            else:
                for xp in xps:
                    judge(name, p, 'C', x, xp)
                    judge(name, p, 'D', x, xp)
    if xchunk:
        T.sample({'family': 'scale', 'metric_x': xchunk[len(xchunk) // 2], 'xp': xps[len(xps) // 2], 'form': form})
    T.state(('smetrics', form, repr(xchunk[:1])))
    return T


NORMALIZE_HOWS = [('lp', 1), ('lp', 2), ('lp', 3), ('lp', 4), ('normalize', 1.0), ('normalize', 2.5), ('normalize', -1.0), ('impose_sum', 2.5)]


def shard_snormalize(chunk):
    T = Tally()
    for ws in chunk:
        for how, mass in NORMALIZE_HOWS:
            try:
                outcome, probs = c_normalize_scale(ws, how, mass)
            except Exception as e:
                outcome, probs = 'raised:' + type(e).__name__, [('raised', 'normalize(%r) how=%s mass=%r raised %s: %s' % (ws, how, mass, type(e).__name__, e))]
            T.count('traces'); T.count('transitions')
            T.hist('normalize_scale:%s' % (how if how != 'lp' else 'l%d' % mass), outcome)
            if outcome.startswith('ok'):
                T.nontriv(('snormalize', ws, how, mass))
            for sub, text in probs:
                T.violate({'clause': 'normalize', 'family': 'scale', 'how': how if how != 'lp' else 'l%d' % mass, 'sub': sub,
                           'input': row_class(ws, mass if how == 'lp' else 1)},
                          {'clause': 'normalize_scale', 'ws': ws, 'how': how, 'mass': mass}, text)
    if chunk:
        T.sample({'family': 'scale', 'normalize': chunk[len(chunk) // 2]})
    T.state(('snormalize', repr(chunk[:1])))
    return T


def scale_items(thorough, seed):
    items = []
    ps = PS_SCALE + ([6] if thorough else [])
    vecs = [list(v) for k in (1, 2, 3) for v in itertools.product(NORM_ALPHA, repeat=k)]
    vecs += [list(v) for v in itertools.product(NORM_ALPHA, repeat=4)] if thorough else _multisets(NORM_ALPHA, 4, seed)
    for ch in _chunks(vecs, 400):
        items.append(('snorms', ('vec', ch, ps, (None,))))
    # matrices: 2x2 over the wider alphabet with axis None/0/1; 2x3 (axis None and 1: two rows of three) and 3x2 (axis 0: two
    # columns of three) over the narrower one - the reduced vectors of length 3 are the ones where max-norm and p-norm differ
    # although one entry is negligible; the thorough tier runs every axis on every shape
    mps = ps if thorough else [2, 3, 4]
    for ch in _chunks(_arrays(MAT_ALPHA, 2, 2), 800):
        items.append(('snorms', ('mat', ch, ps if thorough else [1, 2, 3, 4], (None, 0, 1))))
    for ch in _chunks(_arrays(MAT_ALPHA_WIDE, 2, 3), 800):
        items.append(('snorms', ('mat', ch, mps, (None, 0, 1) if thorough else (None, 1))))
    for ch in _chunks(_arrays(MAT_ALPHA_WIDE, 3, 2), 800):
        items.append(('snorms', ('mat', ch, mps, (None, 0, 1) if thorough else (0,))))
    # integer-typed input (Lnorm documents floats and converts; the metrics take the arrays as they come)
    ivecs = [list(v) for k in (2, 3) for v in itertools.product(INTS, repeat=k)]
    items.append(('snorms', ('vec', ivecs, ps, (None,))))
    # metrics
    xps = _arrays(MXP1, 1, 2) + _arrays(MXP, 2, 2)
    xs = _arrays(MX, 1, 2) + _arrays(MX if thorough else MX2, 2, 2)
    for ch in _chunks(xs, 24):
        items.append(('smetrics', ('rows', ch, xps, thorough)))
    pts = [list(v) for v in itertools.product(MX, repeat=3)]
    pxs = [list(v) for v in itertools.product(MXP + ([-T52] if thorough else []), repeat=3)]
    for ch in _chunks(pts, 32):
        items.append(('smetrics', ('points', ch, pxs, thorough)))
    ipts = [list(v) for v in itertools.product(INTS, repeat=2)]
    items.append(('smetrics', ('points', ipts, ipts, thorough)))
    irows = [[list(a), list(b)] for a in itertools.product(INTS[:5], repeat=2) for b in itertools.product(INTS[:5], repeat=2)]
    for ch in _chunks(irows, 160):
        items.append(('smetrics', ('rows', ch, [[[0, 0], [0, 0]], [[0, 0]]], thorough)))
    # normalize
    wvs = [list(v) for k in (2, 3) for v in itertools.product(WN, repeat=k) if any(v)]
    wvs += [list(v) for v in itertools.product(WN, repeat=4) if any(v)] if thorough else [v for v in _multisets(WN, 4, seed) if any(v)]
    for ch in _chunks(wvs, 400):
        items.append(('snormalize', ch))
    return items


def shard_tol(item):
    n, cases, thorough = item
    T = Tally()
    clauses = tol_clause_list(thorough)
    for xs, ws in cases:
        run_case(T, xs, ws, clauses)
    if cases:
        T.sample({'family': 'tol', 'xs': cases[0][0], 'ws': cases[0][1], 'clauses_per_case': len(clauses)})
    return T


def tol_items(thorough, seed):
    items = []
    for n in (3, 2):
        cases = [(xs, ws) for xs in sample_vectors(n) for ws in weight_vectors(n)]
        for ch in _chunks(cases, 240):
            items.append(('tol', (n, ch, thorough)))
    cases = orbit_representatives(4, seed) if thorough else [(xs, None) for xs in sample_vectors(4)]
    for ch in _chunks(cases, 240):
        items.append(('tol', (4, ch, thorough)))
    return items


# ------------------------------------------------------------------ approx
def shard_approx(_):
    from mystic.math.approx import almostEqual, approx_equal, tolerance
    T = Tally()
    vals = ALPHA + [0.25, -0.5, 1.5, 2.0]
    for tol in (0.0, 0.25, 1.0):
        for rel in (0.0, 0.5, 1.0):
            for x in vals:
                T.count('traces'); T.count('transitions')
                got = tolerance(x, tol, rel)
                want = F(tol) + abs(F(x)) * F(rel)
                if R.fr(got) != want:
                    T.violate({'clause': 'tolerance'}, {'clause': 'approx', 'fn': 'tolerance', 'x': x, 'y': None, 'tol': tol, 'rel': rel},
                              'tolerance(%r,%r,%r) = %r, documented tol + |x|*rel = %s' % (x, tol, rel, got, want))
                for y in vals:
                    T.count('traces'); T.count('transitions', 2)
                    d = abs(F(x) - F(y))
                    want = d <= F(tol) + F(rel) * abs(F(y))
                    got = bool(almostEqual(x, y, tol=tol, rel=rel))
                    T.hist('almostEqual', '%s%s' % (want, ':boundary' if d == F(tol) + F(rel) * abs(F(y)) else ''))
                    T.nontriv(('ae', x, y, tol, rel))
                    if got != want:
                        T.violate({'clause': 'almostEqual', 'boundary': d == F(tol) + F(rel) * abs(F(y))},
                                  {'clause': 'approx', 'fn': 'almostEqual', 'x': x, 'y': y, 'tol': tol, 'rel': rel},
                                  'almostEqual(%r,%r,tol=%r,rel=%r) = %r, documented |x-y| <= tol + rel*|y| is %r' % (x, y, tol, rel, got, want))
                    want = d <= max(F(tol), F(rel) * abs(F(x)))
                    got = bool(approx_equal(x, y, tol=tol, rel=rel))
                    if got != want:
                        T.violate({'clause': 'approx_equal', 'boundary': d == max(F(tol), F(rel) * abs(F(x)))},
                                  {'clause': 'approx', 'fn': 'approx_equal', 'x': x, 'y': y, 'tol': tol, 'rel': rel},
                                  'approx_equal(%r,%r,tol=%r,rel=%r) = %r, documented |x-y| <= max(tol, rel*|x|) is %r' % (x, y, tol, rel, got, want))
    # vectors: element-wise, all must hold
    for xv, yv in itertools.product(itertools.product([0.0, 1.0, 3.0], repeat=2), repeat=2):
        T.count('traces'); T.count('transitions')
        want = all(abs(F(a) - F(b)) <= F(1, 4) + F(1, 2) * abs(F(b)) for a, b in zip(xv, yv))
        got = bool(almostEqual(list(xv), list(yv), tol=0.25, rel=0.5))
        if got != want:
            T.violate({'clause': 'almostEqual', 'vector': True},
                      {'clause': 'approx', 'fn': 'almostEqual', 'x': list(xv), 'y': list(yv), 'tol': 0.25, 'rel': 0.5},
                      'almostEqual(%r,%r,tol=.25,rel=.5) = %r, element-wise reference %r' % (xv, yv, got, want))
    T.state('approx')
    return T


# ------------------------------------------------------------------ driver
def _dispatch(item):
    kind, payload = item
    return {'grid': shard_grid, 'cases': shard_cases, 'offset': shard_offset, 'offset_cases': shard_offset_cases, 'weights': shard_weights, 'norms': shard_norms,
            'metrics': shard_metrics, 'approx': shard_approx, 'tol': shard_tol, 'snorms': shard_snorms, 'smetrics': shard_smetrics,
            'snormalize': shard_snormalize}[kind](payload)


def _chunks(seq, size):
    return [seq[i:i + size] for i in range(0, len(seq), size)]


def plans(thorough):
    full = {'thorough': thorough, 'funcs': ['x', 'x*x', 'abs'], 'ks': KS_THOROUGH if thorough else KS,
            'pair_set_size': {2: 2, 3: 3, 4: 2 if thorough else 1}, 'pair_reps': True,
            'neg_pairs': ({2: 'all2', 3: 'all2', 4: 'multi:alias'} if thorough else
                          {2: 'all2', 3: 'singles+alias', 4: 'multi:alias'})}
    return full


def run(ctx):
    plan = plans(ctx.thorough)
    items = []
    for n in (4, 3, 2):                      # biggest first: better packing
        svs = sample_vectors(n)
        if n == 4 and not ctx.thorough:
            for ch in _chunks(orbit_representatives(4, ctx.seed), 16):
                items.append(('cases', (4, ch, plan)))
        elif n == 4:
            for ch in _chunks(svs, 5):
                for r in range(4):
                    items.append(('grid', (n, ch, plan, (r, 4))))
            for ch in _chunks(orbit_representatives(4, ctx.seed), 40):     # all 220 three-pair sets, per orbit
                items.append(('cases', (4, ch, {'only': 'pair_triples'})))
            for ch in _chunks(orbit_representatives(4, ctx.seed), 40):     # all negative-index renderings, per orbit
                items.append(('cases', (4, ch, {'only': 'neg_pairs'})))
            for ch in _chunks(orbit_representatives(4, ctx.seed), 60):     # large offsets, per orbit
                items.append(('offset_cases', (4, ch)))
        else:
            for ch in _chunks(svs, 4):
                items.append(('grid', (n, ch, plan, None)))
    # large-offset family: lengths 2 and 3 complete; length 4 unweighted (quick) / per orbit (thorough, above)
    for ch in _chunks(sample_vectors(3), 3):
        items.append(('offset', (3, ch, None)))
    items.append(('offset', (2, sample_vectors(2), None)))
    if not ctx.thorough:
        for ch in _chunks(sample_vectors(4), 160):
            items.append(('offset', (4, ch, [None])))
    for n in (2, 3, 4):
        items.append(('weights', n))
    vecs = [list(v) for k in (1, 2, 3, 4) for v in itertools.product(ALPHA, repeat=k)]
    for ch in _chunks(vecs, 200):
        items.append(('norms', ('vec', ch)))
    for ch in _chunks(_arrays(ALPHA, 2, 2) + _arrays(ALPHA, 1, 3) + _arrays(ALPHA, 3, 1), 200):
        items.append(('norms', ('mat', ch)))
    xp_alpha = ALPHA if ctx.thorough else [-2.0, 0.5, 3.0]
    for d in (1, 2):
        xs = _arrays(ALPHA, 1, d) + _arrays(ALPHA, 2, d)
        for ch in _chunks(xs, 10):
            items.append(('metrics', (d, ch, xp_alpha)))
    items.append(('approx', None))
    new_items = tol_items(ctx.thorough, ctx.seed) + scale_items(ctx.thorough, ctx.seed)
    if os.environ.get('C18_ONLY_NEW'):       # development aid: run the tol / scale families alone (evidence is marked non-exhaustive)
        items = []
        ctx.cap('C18_ONLY_NEW is set: only the tol and scale families were run, the main grid was skipped')
    # one shard of each new family first, so that the (first six) evidence samples show every family
    head, seen = [], set()
    for it in new_items:
        k = (it[0], it[1][0] if isinstance(it[1], tuple) else None)
        if k not in seen and k[1] in (3, 'mat', 'rows', None):
            seen.add(k); head.append(it)
    items = head[:4] + items[:1] + [it for it in new_items if it not in head[:4]] + items[1:]
    ctx.bounds = {
        'sample_alphabet': ALPHA, 'sample_lengths': [2, 3, 4], 'samples': 'all non-constant vectors',
        'length_4_cases': ('complete: 620 sample vectors x (None + 255 weight vectors)' if ctx.thorough else
                           'one representative per orbit of joint position permutations of (sample, weight) pairs '
                           '(8,855 weighted + 65 unweighted orbits minus degenerate ones; every index subset is applied to each, '
                           'the complete 158,720-case grid is the thorough tier); lengths 2 and 3 are complete'),
        'weight_alphabet': WALPHA, 'weights': 'None or every vector of the same length with positive sum',
        'large_offset_family': {
            'offsets': OFFSETS, 'samples': 'offset + every non-constant vector over the sample alphabet (exact in binary64)',
            'cases': ('lengths 2 and 3 complete (all weight vectors); length 4 ' +
                      ('one case per joint-permutation orbit' if ctx.thorough else 'unweighted, all 620 vectors')),
            'clauses_per_case': len(offset_clause_list()),
            'clauses': 'defs, expect (x tol 0, abs tol 0.25), impose_mean (all targets), variance / std / spread / weight_norm / moment 2-4 (all targets), '
                       'median / mad (targets %r), trimmed transforms (k=20, clip both, target %r)' % ([TARGETS[0], TARGETS[-1]], TARGETS[-1])},
        'targets': TARGETS, 'impose_mean_targets': TARGETS + BIG_TARGETS, 'moment_orders': [2, 3, 4], 'trim_percent': plan['ks'], 'clip': [False, True],
        'functions': plan['funcs'], 'expectation_tol': TOLS,
        'index_selections': 'None, every subset of range(n), [-1], [0,-1], [-n], [n-1,-1] (one position named twice), [-1,-2]',
        'pair_selections': {'max_pairs_in_a_set': plan['pair_set_size'],
                            'extra': 'for n=4 additionally %d multi-pair representatives on every case and, in the thorough tier, '
                                     'all 220 three-pair sets on one case per joint-permutation orbit' % len(PAIR_REPS_4),
                            'negative_indices': {
                                'modes': plan['neg_pairs'],
                                'all2': 'every set of one or two ordered pairs with each index written as i or as i-n (complete), larger sets in alias / alias_inv / neg form',
                                'singles+alias': 'every single pair in all four sign forms; every two-pair set in alias form',
                                'multi:alias': 'every multi-pair set in use in alias form, four single pairs',
                                'alias': 'every occurrence of a position after its first is written i-n, so one position is named p in one pair and p-n in another '
                                         '(a set without a repeated position is written all-negative instead); alias_inv: the first occurrence only; neg: all',
                                'thorough_extra': 'n=4: alias, alias_inv and neg forms of every set of <= 2 pairs and of the representatives, and every signed single pair, '
                                                  'on one case per joint-permutation orbit',
                                'pair_sets_with_a_negative_index_per_case': {
                                    n: sum(1 for name, prm in clause_list(n, plan)
                                           if name == 'collapse' and any(i < 0 for q in prm['pairs'] for i in q)) for n in (2, 3, 4)}}},
        'Lnorm': {'p': [0, 1, 2, 3, 'inf'], 'vectors': 'all of length 1..4', 'matrices': '2x2, 1x3, 3x1 with axis None/0/1'},
        'metrics': {'names': METRICS, 'x': 'all (n,d) arrays n,d in {1,2}', 'xp_alphabet': xp_alpha,
                    'modes': 'A (pair=False,axis=0), B (pair=True,axis=1), C (1-D,pair=True), D (1-D,dmin=2,axis=0), E (xp=None)'},
        'approx': 'almostEqual / approx_equal / tolerance on 9 values x 9 (tol,rel) pairs incl. exact boundaries',
        'tolerance': ('|got - reference| <= %g * max(|reference|, 1) + noise term.  Position noise a = %d * 2**-53 * M, M = the largest magnitude a '
                      'shift/scale construction has to store (inputs, outputs, target, input magnitude x the scale factor).  Noise term: a for a mean / median / '
                      'trimmed mean, 2a for a range, std or mad, (D+2a)**k - D**k for a central moment of order k (D = range of the data; ~ 4aD for a variance, '
                      'i.e. relative ~ eps*M/D), 16a/std relative for kurtosis and (3+3|skew|)*2a/std for skewness.  For the O(1) alphabets a ~ 1e-14 and the rule '
                      'is the former relative 1e-12; for offsets 2**20 / 2**26 the allowed variance error is ~4aD = 6e-8 / 4e-6: two-pass evaluation and '
                      'scale-then-shift in binary64 stay below 0.08 of the allowance on the unchanged tree (measured), while a raw-moment '
                      '(E[x^2]-E[x]^2) evaluation errs by ~eps*M**2 = 1e-4 / 0.5 absolute, 1e3..1e5 times the allowance' % (REL, KNOISE)),
    }
    tcl = tol_clause_list(ctx.thorough)
    ctx.bounds['tol_family'] = {
        'functions': 'mean(x,w,tol); moment(x,w,order,tol) order 0..4; standard_moment(x,w,order,tol) order 1..4; '
                     'impose_moment(m,x,w,order,tol,skew) order 2,3,4',
        'tol': TOLS_M, 'impose_moment_targets': TOL_TARGETS, 'skew': '[None, the opposite of the default for that order]',
        'cases': ('all non-constant sample vectors of length 2 and 3 over the sample alphabet x (None + every weight vector with positive sum); length 4: ' +
                  ('one case per joint-permutation orbit' if ctx.thorough else 'unweighted, all 620 vectors')),
        'clauses_per_case': len(tcl),
        'mean_classes': 'every case is labelled mean=0 / mean_within_tol (0 < |weighted mean| <= tol) / mean_beyond_tol; histograms tol_defs, tol_moment',
        'judged': 'a result whose exact magnitude is < tol must be exactly 0.0 (<= tol for mean, whose float evaluation is exact at a dyadic boundary); '
                  'beyond tol it must equal the exact central moment about the TRUE weighted mean (same tolerance rule as the main grid); impose_moment must '
                  'reach the target moment and keep the mean whenever the exact source moment is beyond tol',
        'recorded_not_judged': 'order 0 with tol >= 1; standard_moment where "snap the moment" and "snap the ratio" disagree (either accepted), order 2 of it; '
                               'a moment exactly at tol (0.0 or the value); impose_moment when the source moment is within / at tol (it "is zero": degenerate)'}
    ctx.bounds['scale_families'] = {
        'tiny': {'2**-600': 'p>=2: |v|**p underflows to 0', '3*2**-520': 'p=2: subnormal', '2**-350': 'p=3: subnormal, p=4: 0', '2**-260': 'p=4: subnormal'},
        'huge': {'2**600': 'p>=2 overflows', '3*2**510': 'p=2: each term finite, the sum of two overflows', '2**400': 'p>=3 overflows', '2**300': 'p=4 overflows'},
        'Lnorm': {'p': [_pj(q) for q in PS_SCALE] + ([6] if ctx.thorough else []), 'vector_alphabet': NORM_ALPHA,
                  'vectors': 'all of length 1..3; length 4: ' + ('all' if ctx.thorough else 'one ordering per multiset (rotates with the seed)'),
                  'matrices': {'2x2': {'alphabet': MAT_ALPHA, 'axis': [None, 0, 1]},
                               '2x3 and 3x2': {'alphabet': MAT_ALPHA_WIDE, 'axis': 'all' if ctx.thorough else '2x3: None, 1; 3x2: 0', 'p': 'as vectors' if ctx.thorough else [2, 3, 4]}},
                  'integer_typed': {'alphabet': INTS, 'lengths': [2, 3]}},
        'metrics': {'calls': ['%s%s' % (n, '' if q is None else '(p=%s)' % q) for n, q in _metric_calls(ctx.thorough)],
                    'x': {'alphabet_one_row': MX, 'alphabet_two_rows': MX if ctx.thorough else MX2, 'shapes': '(1,2), (2,2); 1-D points of dimension 3 over the one-row alphabet'},
                    'xp': {'one_row_alphabet': MXP1, 'two_row_and_3d_alphabet': MXP + ([-T52] if ctx.thorough else [])},
                    'modes': 'rows: A (pair=False,axis=0), B (pair=True,axis=1), E (xp=None); points: C (pair=True), D (dmin=2,axis=0)',
                    'integer_typed': {'alphabet': INTS, 'forms': 'points of dimension 2 (all pairs); two-row x over the first five values against zero x\''}},
        'normalize': {'weights_alphabet': WN, 'lengths': '2, 3 all; 4: ' + ('all' if ctx.thorough else 'one ordering per multiset'),
                      'calls': [('normalize(w, "l%d")' % m) if h == 'lp' else '%s(mass=%r)' % (h, m) for h, m in NORMALIZE_HOWS]},
        'oracle': 'ref/c18_exact.py: exact rational radicand, exact rational powers of the returned float; rules R1 (p-norm within 1e-12 relative; terms of the radicand '
                  'below 2**-1022 may be evaluated anywhere between 0 and themselves), R2 (max-norm accepted only when the radicand of THAT vector / row / pair is >= '
                  '2**1024*(1-2**-40), i.e. not a finite binary64 number), R3 (p in 0, 1, inf).  Also: numpy.geterr() is unchanged by the call',
        'recorded_not_judged': 'normalize(w, "lP") when the radicand of w is in the underflow range (the allowance of R1 exceeds 1e-12 of it); verdict '
                               '"pnorm_within_underflow_allowance" (e.g. Lnorm([2**-600]*2, 2) = 0.0) is accepted and histogrammed'}
    ctx.rule = ("one case = (sample vector, weight vector); every clause (entry point x parameter tuple) is run on every case. "
                "distinct_nontrivial counts (sample, weight) cases on which at least one transform changed at least one entry, plus "
                "every distinct Lnorm / metric / approx input (both the O(1) and the 'scale' families) and every normalize call that was judged; states counts distinct cases; traces counts clause executions; "
                "histograms give per-clause outcomes including 'undefined:*' (operation not defined there, not judged) and 'identity'")
    ctx.assumptions = [
        "floating-point tolerance rule (see bounds.tolerance): every stored position may be off by 32 ulps of the largest magnitude handled; "
        "statistics are allowed the first-order propagation of that noise and nothing more, so an implementation whose error grows like "
        "eps*M**2/D**2 (cancellation of raw moments) is rejected on the large-offset vectors while scale-then-shift in binary64 is accepted",
        "a pair such as (n-1,-1) that names one position twice is not a collapse and is not enumerated; pair sets that name one position by "
        "both of its indices in different pairs are judged on the positions they denote",
        "operations are judged only where defined: non-negative targets for variance/std/spread/mad/tvariance/tstd, "
        "non-zero source statistic for scale-type transforms, some weight left after support surgery, non-empty support for ess_*",
        "median / mad / trimmed transforms are judged under mystic's own statistic (DESIGN section 5); agreement of the weighted "
        "median and mass-trimmed mean with a textbook form is only histogrammed",
        "impose_collapse: the group of a connected set of pairs must end with its whole weight on one member; for 'simple' pair sets "
        "(no index both first and second, no shared second index) that member must be the first index, as the examples document",
        "optimizer-based impose_expectation / impose_expected_* / impose_reweighted_* are not shift/scale constructions and are outside this check",
        "tol of mean / moment / standard_moment / impose_moment ('any mean <= tol is zero') is read as: a RESULT of magnitude <= tol is returned as 0.0; it never "
        "changes the definition (the centre of a central moment is the true weighted mean for every tol).  Points the text leaves open are accepted either way and "
        "labelled in the histograms (bounds.tol_family.recorded_not_judged)",
        "norms and metrics on entries of any binary64 magnitude: rules R1-R3 of ref/c18_exact.py.  The library's fallback to the max norm is accepted for a vector "
        "whose own radicand overflows and for nothing else; in particular not for the other rows / pairs of the same call, and not for integer-typed input whose "
        "p-th powers leave the int64 range (the p-norm of such input is an ordinary float)",
    ]
    ctx.pmap(_dispatch, items)


def replay(case):
    name = case['clause']
    if name == 'Lnorm':
        return c_lnorm(case['arr'], case['p'], case['axis'])
    if name == 'metric':
        return c_metric(case['metric'], case['mode'], case['x'], case['xp'])
    if name == 'Lnorm_scale':
        return [str(r[3]) for r in c_lnorm_scale(case['arr'], case['p'], case['axis']) if r[0].startswith('BAD')]
    if name == 'metric_scale':
        p = case['p']
        return [str(r[3]) for r in c_metric_scale(case['metric'], case['mode'], case['x'], case['xp'], _pv(p) if p is not None else None)
                if r[0].startswith('BAD')]
    if name == 'normalize_scale':
        return [text for sub, text in c_normalize_scale(case['ws'], case['how'], case['mass'])[1]]
    if name == 'approx':
        T = shard_approx(None)
        return [v['detail'] for v in T.violations.values()
                if all(v['case'].get(k) == case.get(k) for k in ('fn', 'x', 'y', 'tol', 'rel'))]
    try:
        if name == 'sum':
            outcome, p = c_sum(case['ws'], case['params']['mass'], case['params']['how'])
        else:
            outcome, p = CLAUSES[name](case['xs'], case['ws'], **case['params'])
    except Exception as e:
        return ['%s raised %s: %s' % (name, type(e).__name__, e)]
    return [text for sub, text in p.items]
