"""C19 - discrete measures: parameter-vector round trips and product structure.

Engine E3.  Every product measure of a bounded shape with weights / positions /
values over small dyadic alphabets is built with the real classes of
mystic.math.discrete and compared *observationally* (wts, pos, values, flatten():
measures have no __eq__) with what the documentation says: the parameter layout
[w.., x.., w.., x.., values..], the first-factor-fastest Cartesian order, explicit
weighted sums in exact rationals (ref/stats.py).
"""
import itertools, math
from fractions import Fraction as F
from mc.runner import Tally
from ref import stats as R

WAL = [0.0, 0.25, 0.5, 1.0]
PAL = [-1.0, 0.0, 2.0]
VAL = [0.0, 1.0, 5.0]
TARGETS = [-1.0, 0.0, 2.5]
POSITIVE = [0.5, 2.5]
REL = 1e-12
SHAPES = [s for k in (1, 2, 3) for s in itertools.product((1, 2, 3), repeat=k)]


def _first(x): return x[0]
def _sum(x):
    t = x[0]
    for v in x[1:]:
        t = t + v
    return t
def _prod(x):
    t = x[0]
    for v in x[1:]:
        t = t * v
    return t
FUNCS = {'first': _first, 'sum': _sum, 'product': _prod}


def near(got, want):
    return R.close(got, want, REL, 1)


def plain(a):
    """numpy scalars / arrays / measures -> plain python lists and numbers (fast path: list of python floats)"""
    t = type(a)
    if t is float or t is int or t is str:
        return a
    if t is list or t is tuple:
        return [b if type(b) is float else plain(b) for b in a]
    if hasattr(a, 'tolist'):
        return a.tolist()
    if isinstance(a, (list, tuple)):
        return [plain(b) for b in a]
    if isinstance(a, float):
        return float(a)
    return a


def nest(flat, pts):
    out, i = [], 0
    for n in pts:
        out.append(list(flat[i:i + n])); i += n
    return out


def flat_params(wts, pos):
    """documented layout: [wx1..wxM, x1..xM, wy1..wyN, y1..yN, ...]"""
    out = []
    for w, x in zip(wts, pos):
        out += list(w) + list(x)
    return out


def obs(c, scen=False):
    """the observable content of a product measure / scenario as plain python"""
    o = {'wts': plain(c.wts), 'pos': plain(c.pos), 'flat': plain(c.flatten())}
    if scen:
        o['values'] = plain(list(c.values))
    return o


def expected_obs(wts, pos, values=None):
    o = {'wts': [list(w) for w in wts], 'pos': [list(x) for x in pos], 'flat': flat_params(wts, pos)}
    if values is not None:
        o['values'] = list(values)
        o['flat'] = o['flat'] + list(values)
    return o


class Probs(object):
    def __init__(self):
        self.items = []
        self.calls = 0

    def add(self, clause, text):
        self.items.append((clause, text))

    def same(self, clause, got, want, what):
        self.calls += 1
        if got != want:
            diff = [k for k in want if got.get(k) != want[k]]
            self.add(clause, '%s: observable %s differ: got %r, documented %r' % (what, diff, {k: got.get(k) for k in diff}, {k: want[k] for k in diff}))


# ------------------------------------------------------------------ one product measure
def other_fill(wts, pos):
    """a second parameter set of the same shape with every slot different from the first"""
    w2 = [[WAL[(WAL.index(w) + 1) % 4] for w in ws] for ws in wts]
    x2 = [[PAL[(PAL.index(x) + 1) % 3] for x in xs] for xs in pos]
    return w2, x2


def check_product(wts, pos, values, level):
    """all C19 clauses on one (shape, weights, positions, values) instance -> Probs"""
    import mystic.math.discrete as md
    from mystic.math.measures import _pack, _unpack, _flat, _nested, _nested_split, split_param
    p = Probs()
    pts = [len(w) for w in wts]
    N = sum(pts)
    desc = 'compose(%r, %r)' % (pos, wts)
    want = expected_obs(wts, pos)
    c = md.compose(pos, wts)
    p.same('compose', obs(c), want, desc)
    if plain(c.pts) != pts:
        p.add('pts', '%s.pts = %r, expected %r' % (desc, plain(c.pts), pts))
    flat = c.flatten()
    # ---- round trips
    p.same('load(flatten)', obs(md.product_measure().load(flat, c.pts)), want, 'product_measure().load(c.flatten(), c.pts) for c = ' + desc)
    p.same('load(flatten+extra)', obs(md.product_measure().load(list(flat) + [7.0, 7.0], c.pts)), want,
           'product_measure().load(c.flatten()+[7,7], c.pts) (extra values are documented to be ignored) for c = ' + desc)
    p.same('unflatten(flatten)', obs(md.unflatten(flat, c.pts)), want, 'unflatten(flatten(c), c.pts) for c = ' + desc)
    x, w = md.decompose(c)
    p.calls += 1
    if plain(x) != want['pos'] or plain(w) != want['wts']:
        p.add('decompose', 'decompose(%s) = %r, documented (positions, weights) = %r' % (desc, (plain(x), plain(w)), (want['pos'], want['wts'])))
    p.same('compose(decompose)', obs(md.compose(*md.decompose(c))), want, 'compose(*decompose(c)) for c = ' + desc)
    # ---- pack / unpack / nested / flat on the same data
    packed = _pack(pos)
    ref_pack = R.pack(pos)
    p.calls += 6
    if [tuple(q) for q in packed] != ref_pack:
        p.add('_pack', '_pack(%r) = %r, documented order (first factor fastest) %r' % (pos, plain(packed), ref_pack))
    if plain(_unpack(ref_pack, pts)) != want['pos']:
        p.add('_unpack(_pack)', '_unpack(<pack of %r>, %r) = %r' % (pos, pts, plain(_unpack(ref_pack, pts))))
    fl = [v for xs in pos for v in xs]
    if plain(_flat(pos)) != fl:
        p.add('_flat', '_flat(%r) = %r' % (pos, plain(_flat(pos))))
    if plain(_nested(fl, pts)) != want['pos']:
        p.add('_nested(_flat)', '_nested(%r, %r) = %r' % (fl, pts, plain(_nested(fl, pts))))
    ws_, xs_ = _nested_split(want['flat'], pts)
    if plain(ws_) != want['wts'] or plain(xs_) != want['pos']:
        p.add('_nested_split', '_nested_split(%r, %r) = %r' % (want['flat'], pts, (plain(ws_), plain(xs_))))
    ws_, xs_ = split_param(want['flat'], pts)
    if plain(ws_) != [v for q in wts for v in q] or plain(xs_) != fl:
        p.add('split_param', 'split_param(%r, %r) = %r' % (want['flat'], pts, (plain(ws_), plain(xs_))))
    # ---- product structure
    W = R.product_weights(wts)
    got_w = c.weights
    p.calls += 5
    if len(got_w) != len(W) or any(R.fr(g) != e for g, e in zip(got_w, W)):
        p.add('weights', '%s.weights = %r, products of the factor weights in pack order = %r' % (desc, plain(got_w), [float(e) for e in W]))
    if [tuple(q) for q in c.positions] != ref_pack:
        p.add('positions', '%s.positions = %r, Cartesian product (first factor fastest) = %r' % (desc, plain(c.positions), ref_pack))
    if int(c.npts) != len(ref_pack):
        p.add('npts', '%s.npts = %r, expected %d' % (desc, c.npts, len(ref_pack)))
    masses = [R.total(q) for q in wts]
    if [R.fr(m) for m in c.mass] != masses:
        p.add('mass', '%s.mass = %r, sums of the factor weights = %r' % (desc, plain(c.mass), [float(m) for m in masses]))
    tot = sum(W, F(0))
    pm = F(1)
    for m in masses:
        pm *= m
    if tot != pm or R.fr(sum(got_w)) != pm:
        p.add('total=product_of_masses', '%s: sum(weights) = %r, product of masses = %s' % (desc, float(sum(got_w)), pm))
    # ---- explicit sums
    rpos = [tuple(R.fr(v) for v in q) for q in ref_pack]
    for tol in (0, 0.25):
        p.calls += 2
        wi = [i for i, e in enumerate(W) if e > R.fr(tol)]
        if plain(c.support_index(tol)) != wi:
            p.add('support_index', '%s.support_index(%r) = %r, explicit {i: w_i > tol} = %r' % (desc, tol, plain(c.support_index(tol)), wi))
        if [tuple(q) for q in c.support(tol)] != [ref_pack[i] for i in wi]:
            p.add('support', '%s.support(%r) = %r, explicit %r' % (desc, tol, plain(c.support(tol)), [ref_pack[i] for i in wi]))
    outcome = 'mass>0' if tot > 0 else 'mass=0'
    for fname, f in FUNCS.items():
        ys = [f(q) for q in rpos]
        for t in (0.0, 0.5):
            p.calls += 1
            g = (lambda x, f=f, t=t: f(x) - t)
            want_pof = sum((e for e, y in zip(W, ys) if y - R.fr(t) <= 0), F(0))
            got = c.pof(g)
            if not near(got, want_pof):
                p.add('pof', '%s.pof(%s - %r) = %r, explicit sum of weights where f <= 0 = %s' % (desc, fname, t, got, want_pof))
        if tot > 0:
            p.calls += 2
            e = R.wmean(ys, W)
            got = c.expect(f)
            if not near(got, e):
                p.add('expect', '%s.expect(%s) = %r, explicit sum(w f)/sum(w) = %s' % (desc, fname, got, e))
            v = R.wmoment(ys, W, 2)
            got = c.expect_var(f)
            if not near(got, v):
                p.add('expect_var', '%s.expect_var(%s) = %r, explicit weighted variance = %s' % (desc, fname, got, v))
    # ---- update
    w2, x2 = other_fill(wts, pos)
    P2 = flat_params(w2, x2)
    c2 = md.compose(pos, wts)
    r = c2.update(P2)
    p.calls += 1
    if r is not c2:
        p.add('update_returns_self', '%s.update(params) did not return the measure itself' % desc)
    p.same('update(full)', obs(c2), expected_obs(w2, x2), '%s.update(%r)' % (desc, P2))
    # a measure built from another one, or from one factor object used several times, shares its factor objects:
    # update() must still change exactly the addressed slots of the measure it is called on, and nothing else
    c0 = md.compose(pos, wts)
    c2 = md.product_measure(c0)
    c2.update(P2)
    p.calls += 1
    p.same('update(copy-constructed)', obs(c2), expected_obs(w2, x2), 'product_measure(c).update(%r) for c = %s' % (P2, desc))
    p.same('update(copy-constructed) leaves the source alone', obs(c0), want, 'c after product_measure(c).update(%r) for c = %s' % (P2, desc))
    if len(pts) >= 2 and all(k == pts[0] for k in pts):
        m = md.compose([pos[0]], [wts[0]])[0]
        c2 = md.product_measure([m] * len(pts))
        c2.update(P2)
        p.calls += 1
        p.same('update(shared factor object)', obs(c2), expected_obs(w2, x2),
               'product_measure([m]*%d).update(%r) with m the single factor (%r, %r)' % (len(pts), P2, pos[0], wts[0]))
    c2 = md.compose(pos, wts); c2.update(list(P2) + [9.0])
    p.same('update(full+extra)', obs(c2), expected_obs(w2, x2), '%s.update(%r) (trailing values are documented to be ignored)' % (desc, P2 + [9.0]))
    for k in range(len(pts)):                      # whole-factor prefixes
        cut = 2 * sum(pts[:k])
        c2 = md.compose(pos, wts); c2.update(P2[:cut])
        p.same('update(prefix)', obs(c2), expected_obs(w2[:k] + list(wts[k:]), x2[:k] + list(pos[k:])),
               '%s.update(%r) (parameters of the first %d factor(s) only)' % (desc, P2[:cut], k))
    if level >= 2:
        for j in range(2 * N):                     # one addressed slot at a time
            P3 = list(want['flat']); P3[j] = P2[j]
            c2 = md.compose(pos, wts); c2.update(P3)
            p.calls += 1
            if plain(c2.flatten()) != P3:
                p.add('update(one_slot)', '%s.update(<flatten with slot %d set to %r>) gives flatten() = %r, expected %r' % (desc, j, P2[j], plain(c2.flatten()), P3))
    # ---- center_mass of the product
    if all(m > 0 for m in masses):
        for t in TARGETS:
            c2 = md.compose(pos, wts)
            c2.center_mass = [t] * len(pts)
            p.calls += 1
            for k in range(len(pts)):
                if not R.finite(c2.pos[k]):
                    p.add('set_center_mass', '%s.center_mass = %r gives non-finite positions %r' % (desc, [t] * len(pts), plain(c2.pos[k]))); continue
                got = R.wmean(c2.pos[k], c2.wts[k])
                if not near(float(got), t):
                    p.add('set_center_mass', '%s.center_mass = %r leaves factor %d with mean %s' % (desc, [t] * len(pts), k, float(got)))
            if plain(c2.wts) != want['wts']:
                p.add('set_center_mass', '%s.center_mass = ... changed the weights to %r' % (desc, plain(c2.wts)))
    # ---- scenario
    if values is not None and level >= 1:
        sw = expected_obs(wts, pos, values)
        s = md.scenario(md.compose(pos, wts), list(values))
        sdesc = 'scenario(%s, %r)' % (desc, values)
        p.same('scenario', obs(s, True), sw, sdesc)
        p.calls += 1
        if plain(s.flatten(all=False)) != want['flat']:
            p.add('scenario.flatten(all=False)', '%s.flatten(all=False) = %r, expected %r' % (sdesc, plain(s.flatten(all=False)), want['flat']))
        p.same('scenario.load(flatten)', obs(md.scenario().load(s.flatten(), s.pts), True), sw, 'scenario().load(s.flatten(), s.pts) for s = ' + sdesc)
        v2 = [VAL[(VAL.index(v) + 1) % 3] for v in values]
        s2 = md.scenario(md.compose(pos, wts), list(values)); s2.update(P2 + v2)
        p.same('scenario.update(full)', obs(s2, True), expected_obs(w2, x2, v2), '%s.update(%r)' % (sdesc, P2 + v2))
        s2 = md.scenario(md.compose(pos, wts), list(values)); s2.update(list(P2))
        p.same('scenario.update(no values)', obs(s2, True), expected_obs(w2, x2, values), '%s.update(%r)' % (sdesc, P2))
        for k in range(1, len(values)):
            s2 = md.scenario(md.compose(pos, wts), list(values)); s2.update(P2 + v2[:k])
            p.same('scenario.update(some values)', obs(s2, True), expected_obs(w2, x2, v2[:k] + list(values[k:])),
                   '%s.update(%r) (only the first %d value(s) addressed)' % (sdesc, P2 + v2[:k], k))
        p.calls += 3
        for t in (0.0, 1.0):
            want_pof = sum((e for e, y in zip(W, values) if R.fr(y) - R.fr(t) <= 0), F(0))
            got = s.pof_value(lambda y, t=t: y - t)
            if not near(got, want_pof):
                p.add('pof_value', '%s.pof_value(y - %r) = %r, explicit %s' % (sdesc, t, got, want_pof))
        if tot > 0:
            e = R.wmean(values, W)
            if not near(s.mean_value(), e):
                p.add('mean_value', '%s.mean_value() = %r, explicit %s' % (sdesc, s.mean_value(), e))
            for t in TARGETS:
                s2 = md.scenario(md.compose(pos, wts), list(values)); s2.set_mean_value(t)
                p.calls += 1
                if not R.finite(list(s2.values)):
                    p.add('set_mean_value', '%s.set_mean_value(%r) gives non-finite values %r' % (sdesc, t, plain(list(s2.values)))); continue
                got = R.wmean(list(s2.values), W)
                if not near(float(got), t):
                    p.add('set_mean_value', '%s.set_mean_value(%r) leaves mean value %s' % (sdesc, t, float(got)))
                if plain(s2.flatten(all=False)) != want['flat']:
                    p.add('set_mean_value', '%s.set_mean_value(%r) changed weights/positions' % (sdesc, t))
    return outcome, p


# ------------------------------------------------------------------ one 1-D measure
def check_measure(ws, xs):
    import mystic.math.discrete as md
    p = Probs()
    desc = 'measure(w=%r, x=%r)' % (ws, xs)
    def build():
        return md.compose([xs], [ws])[0]
    m = build()
    tot = R.total(ws)
    p.calls += 6
    if plain(m.weights) != ws or plain(m.positions) != xs or m.npts != len(ws):
        p.add('measure.accessors', '%s: weights %r positions %r npts %r' % (desc, plain(m.weights), plain(m.positions), m.npts))
    if R.fr(m.mass) != tot:
        p.add('measure.mass', '%s.mass = %r, sum of weights %s' % (desc, m.mass, tot))
    if R.fr(m.range) != R.spread(xs):
        p.add('measure.range', '%s.range = %r, max-min = %s' % (desc, m.range, R.spread(xs)))
    for tol in (0, 0.25):
        if plain(m.support_index(tol)) != R.support_index(ws, tol) or plain(m.support(tol)) != R.support(xs, ws, tol):
            p.add('measure.support', '%s.support(%r)/support_index = %r / %r' % (desc, tol, plain(m.support(tol)), plain(m.support_index(tol))))
    if tot == 0:
        return 'mass=0', p
    mean, var = R.wmean(xs, ws), R.wvariance(xs, ws)
    if not near(m.center_mass, mean):
        p.add('measure.center_mass', '%s.center_mass = %r, weighted mean %s' % (desc, m.center_mass, mean))
    if not near(m.var, var):
        p.add('measure.var', '%s.var = %r, weighted variance %s' % (desc, m.var, var))
    rp = [(R.fr(x),) for x in xs]
    for fname, f in (('x', lambda q: q[0]), ('x*x', lambda q: q[0] * q[0])):
        ys = [f(q) for q in rp]
        p.calls += 5
        if not near(m.expect(f), R.wmean(ys, ws)):
            p.add('measure.expect', '%s.expect(%s) = %r, explicit %s' % (desc, fname, m.expect(f), R.wmean(ys, ws)))
        if not near(m.expect_var(f), R.wmoment(ys, ws, 2)):
            p.add('measure.expect_var', '%s.expect_var(%s) = %r, explicit %s' % (desc, fname, m.expect_var(f), R.wmoment(ys, ws, 2)))
        sup = [ys[i] for i in R.support_index(ws, 0)]
        if float(m.ess_maximum(f)) != float(max(sup)) or float(m.ess_minimum(f)) != float(min(sup)) or float(m.ess_ptp(f)) != float(max(sup) - min(sup)):
            p.add('measure.ess', '%s.ess_maximum/minimum/ptp(%s) = %r/%r/%r, over the support: %s/%s/%s'
                  % (desc, fname, m.ess_maximum(f), m.ess_minimum(f), m.ess_ptp(f), max(sup), min(sup), max(sup) - min(sup)))
        if float(m.maximum(f)) != float(max(ys)) or float(m.minimum(f)) != float(min(ys)) or float(m.ptp(f)) != float(max(ys) - min(ys)):
            p.add('measure.extrema', '%s.maximum/minimum/ptp(%s) wrong' % (desc, fname))
    # setters
    for t in TARGETS:
        m = build(); m.center_mass = t
        p.calls += 1
        got = plain(m.positions)
        if not R.finite(got):
            p.add('measure.set_center_mass', '%s.center_mass = %r gives non-finite positions %r' % (desc, t, got)); continue
        if not near(float(R.wmean(got, ws)), t):
            p.add('measure.set_center_mass', '%s.center_mass = %r gives positions %r with mean %s' % (desc, t, got, float(R.wmean(got, ws))))
        if not near(float(R.spread(got)), R.spread(xs)) or not near(float(R.wvariance(got, ws)), var) or plain(m.weights) != ws:
            p.add('measure.set_center_mass_keeps', '%s.center_mass = %r changed range / variance / weights: positions %r' % (desc, t, got))
    out = 'mass>0'
    if R.spread(xs) > 0:
        out += ',range>0'
        for r in POSITIVE:
            m = build(); m.range = r
            p.calls += 1
            got = plain(m.positions)
            if not R.finite(got):
                p.add('measure.set_range', '%s.range = %r gives non-finite positions %r' % (desc, r, got)); continue
            if not near(float(R.spread(got)), r):
                p.add('measure.set_range', '%s.range = %r gives positions %r with range %s' % (desc, r, got, float(R.spread(got))))
            if not near(float(R.wmean(got, ws)), mean) or plain(m.weights) != ws:
                p.add('measure.set_range_keeps', '%s.range = %r changed the mean / weights: positions %r' % (desc, r, got))
    if var > 0:
        out += ',var>0'
        for v in POSITIVE:
            m = build(); m.var = v
            p.calls += 1
            got = plain(m.positions)
            if not R.finite(got):
                p.add('measure.set_var', '%s.var = %r gives non-finite positions %r' % (desc, v, got)); continue
            if not near(float(R.wvariance(got, ws)), v):
                p.add('measure.set_var', '%s.var = %r gives positions %r with variance %s' % (desc, v, got, float(R.wvariance(got, ws))))
            if not near(float(R.wmean(got, ws)), mean) or plain(m.weights) != ws:
                p.add('measure.set_var_keeps', '%s.var = %r changed the mean / weights: positions %r' % (desc, v, got))
    m = build(); m.normalize()
    p.calls += 1
    gw, gx = plain(m.weights), plain(m.positions)
    if not (R.finite(gw) and R.finite(gx)):
        p.add('measure.normalize', '%s.normalize() gives non-finite weights %r / positions %r' % (desc, gw, gx))
    elif not near(float(R.total(gw)), 1) or not near(float(R.wmean(gx, gw)), mean):
        p.add('measure.normalize', '%s.normalize() gives weights %r positions %r (sum must be 1, mean %s kept)' % (desc, gw, gx, mean))
    return out, p


# ------------------------------------------------------------------ impose_measure
def ref_collapse(w, x, pairs):
    """documented: weight of the second index moves to the first, positions coincide, mean kept"""
    w, x = R.frs(w), R.frs(x)
    if sum(w) == 0:
        return None
    m0 = R.wmean(x, w)
    for i, j in pairs:
        w[i] += w[j]; w[j] = F(0); x[j] = x[i]
    d = m0 - R.wmean(x, w)
    return w, [v + d for v in x]


def ref_unweighted(w, x, index):
    """documented (nullable=False): designated weights zero, the rest rescaled to the old total
    (or revived to equal weights when nothing is left), mean kept"""
    w, x = R.frs(w), R.frs(x)
    tot = sum(w)
    if tot == 0:
        return None
    m0 = R.wmean(x, w)
    base = [F(0) if i in index else v for i, v in enumerate(w)]
    if sum(base) == 0:
        base = [F(0) if i in index else F(1) for i in range(len(w))]
        if sum(base) == 0:
            return None
    w2 = [b * tot / sum(base) for b in base]
    d = m0 - R.wmean(x, w2)
    return w2, [v + d for v in x]


def check_impose_measure(wts, pos, tracking, noweight):
    """tracking / noweight: {factor: pairs} / {factor: indices} as lists (JSON-able)"""
    from mystic.constraints import impose_measure
    p = Probs()
    pts = tuple(len(w) for w in wts)
    tr = {int(k): set(tuple(q) for q in v) for k, v in tracking.items()}
    nw = {int(k): set(v) for k, v in noweight.items()}
    W = [list(w) for w in wts]; X = [list(x) for x in pos]
    for k, pairs in tr.items():
        r = ref_collapse(W[k], X[k], sorted(pairs))
        if r is None:
            return 'undefined:zero_mass', p
        W[k], X[k] = r
    for k, idx in nw.items():
        r = ref_unweighted(W[k], X[k], idx)
        if r is None:
            return 'undefined:no_weight_left', p
        W[k], X[k] = r
    want = flat_params(W, X)
    params = flat_params(wts, pos)
    c = impose_measure(pts, tr, nw)(lambda v: v)
    p.calls += 1
    got = plain(c(list(params)))
    desc = 'impose_measure(%r, %r, %r)(identity)(%r)' % (pts, tr, nw, params)
    if len(got) != len(want) or any(isinstance(g, float) and math.isnan(g) for g in got):
        p.add('impose_measure', '%s = %r: wrong length or nan (documented result %r)' % (desc, got, [float(v) for v in want]))
        return 'bad', p
    for j, (g, e) in enumerate(zip(got, want)):
        if e == 0 and j % 1 == 0 and _is_weight_slot(j, pts) and float(g) != 0.0:
            p.add('impose_measure_zero', '%s = %r: slot %d must be an exact zero weight' % (desc, got, j))
        elif not near(g, e):
            p.add('impose_measure', '%s = %r, documented %r (slot %d differs)' % (desc, got, [float(v) for v in want], j))
            break
    return ('ok:changed' if got != params else 'ok:identity'), p


def _is_weight_slot(j, pts):
    i = 0
    for n in pts:
        if i <= j < i + n:
            return True
        i += 2 * n
    return False


# ------------------------------------------------------------------ enumeration
def point_fills(n):
    """all (weights, positions) of one factor with n points"""
    return [(list(w), list(x)) for w in itertools.product(WAL, repeat=n) for x in itertools.product(PAL, repeat=n)]


def strata_fills(n, k, rich=False):
    """representative (weights, positions) of one factor of n points (k = factor number, rotates the symbols):
    all-distinct, all-equal (every position symbol), one-zero-weight (every slot), all-zero weights;
    rich adds the reversed all-distinct fill and a second weight for all-equal"""
    out = []
    dw = [[0.25, 0.5, 1.0][(i + k) % 3] for i in range(n)]
    dx = [PAL[(i + k) % 3] for i in range(n)]
    out.append(('distinct', dw, dx))
    if rich and n > 1:
        out.append(('distinct_reversed', dw[::-1], dx[::-1]))
    for w in ((0.25, 1.0) if rich else (0.5,)):
        for x in PAL:
            out.append(('equal', [w] * n, [x] * n))
    for z in range(n):
        w = list(dw); w[z] = 0.0
        out.append(('one_zero', w, dx))
    if n > 1:
        out.append(('all_zero', [0.0] * n, dx))
    return out


def values_for(npts, seed):
    return [VAL[(seed + i * (1 + seed % 2)) % 3] for i in range(npts)]


def judge(T, kind, sig_extra, case, outcome, p):
    T.count('traces'); T.count('transitions', max(p.calls, 1))
    T.hist(kind, outcome)
    for clause, text in p.items:
        sig = {'clause': clause}
        sig.update(sig_extra)
        T.violate(sig, case, text)


def run_product(T, wts, pos, values, level, stratum):
    case = {'kind': 'product', 'wts': wts, 'pos': pos, 'values': values, 'level': level}
    try:
        outcome, p = check_product(wts, pos, values, level)
    except Exception as e:
        outcome, p = 'raised:' + type(e).__name__, Probs()
        p.add('raised', 'compose(%r,%r) with values %r: %s: %s' % (pos, wts, values, type(e).__name__, e))
    zero = any(w == 0.0 for q in wts for w in q)
    judge(T, 'product', {'factors': len(wts), 'zero_weight_present': zero}, case, outcome, p)
    T.state(('p', wts, pos, values))
    if sum(len(w) for w in wts) >= 2 and outcome == 'mass>0':
        T.nontriv(('p', wts, pos, values))
    T.hist('stratum', stratum)


def shard_complete(item):
    """every fill of one shape; the item fixes the fill of the first factor's first point to shard the work"""
    shape, first_w, level = item
    T = Tally()
    per = [point_fills(n) for n in shape]
    per[0] = [f for f in per[0] if f[0][0] == first_w]
    npts = 1
    for n in shape:
        npts *= n
    i = 0
    for combo in itertools.product(*per):
        wts = [c[0] for c in combo]; pos = [c[1] for c in combo]
        i += 1
        run_product(T, wts, pos, values_for(npts, i), level, 'complete')
    T.sample({'shape': shape, 'wts': wts, 'pos': pos})
    return T


def shard_strata(item):
    shape, level, rich = item
    T = Tally()
    per = [strata_fills(n, k, rich) for k, n in enumerate(shape)]
    npts = 1
    for n in shape:
        npts *= n
    i = 0
    for combo in itertools.product(*per):
        wts = [c[1] for c in combo]; pos = [c[2] for c in combo]
        i += 1
        run_product(T, wts, pos, values_for(npts, i), level, 'strata:' + '+'.join(sorted(set(c[0] for c in combo))))
    T.sample({'shape': shape, 'wts': wts, 'pos': pos})
    return T


def shard_values(shape):
    """all value vectors (npts <= 6) or value strata on the all-distinct fill of a shape"""
    T = Tally()
    fills = [strata_fills(n, k)[0] for k, n in enumerate(shape)]
    wts = [f[1] for f in fills]; pos = [f[2] for f in fills]
    npts = 1
    for n in shape:
        npts *= n
    if npts <= 6:
        vs = [list(v) for v in itertools.product(VAL, repeat=npts)]
    else:
        vs = [[v] * npts for v in VAL] + [values_for(npts, s) for s in range(6)]
        for z in range(npts):
            v = [1.0] * npts; v[z] = 5.0
            vs.append(v)
    for v in vs:
        run_product(T, wts, pos, v, 0, 'values:' + ('complete' if npts <= 6 else 'strata'))
    return T


def shard_measures(n):
    T = Tally()
    for ws, xs in point_fills(n):
        try:
            outcome, p = check_measure(ws, xs)
        except Exception as e:
            outcome, p = 'raised:' + type(e).__name__, Probs()
            p.add('raised', 'measure(w=%r,x=%r): %s: %s' % (ws, xs, type(e).__name__, e))
        judge(T, 'measure', {'zero_weight_present': 0.0 in ws}, {'kind': 'measure', 'ws': ws, 'xs': xs}, outcome, p)
        T.state(('m', ws, xs))
        if 'var>0' in outcome:
            T.nontriv(('m', ws, xs))
    return T


OFFSETS = [2.0 ** 20, -(2.0 ** 26)]
KNOISE = 32


def check_measure_offset(ws, xs):
    """one-factor measure whose positions share a large offset (|mean| >> spread; all values exact in binary64).
    Tolerance (the rule of C18, DESIGN section 5): every stored position may be off by a = 32 * 2**-53 * M, M the largest
    magnitude handled; a mean may err by a, a variance by (D+2a)**2 - D**2 ~ 4aD (D the range) - first-order propagation and
    nothing more, so two-pass evaluation passes and cancellation of raw moments (error ~ eps*M**2) does not."""
    import mystic.math.discrete as md
    p = Probs()
    desc = 'measure(w=%r, x=%r)' % (ws, xs)
    def build():
        return md.compose([xs], [ws])[0]
    if R.total(ws) == 0:
        return 'mass=0', p
    mean, var, D = R.wmean(xs, ws), R.wvariance(xs, ws), float(R.spread(xs))
    def allow(M, D):
        a = KNOISE * 2.0 ** -53 * M
        return a, (D + 2 * a) ** 2 - D ** 2
    M = max(abs(x) for x in xs)
    a, av = allow(M, D)
    def ok(got, want, extra):
        try:
            g = float(got)
        except (TypeError, ValueError):
            return False
        return g == g and abs(g - float(want)) <= REL * max(abs(float(want)), 1) + extra
    m = build()
    p.calls += 2
    if not ok(m.center_mass, mean, a):
        p.add('measure.center_mass', '%s.center_mass = %r, weighted mean %s' % (desc, m.center_mass, float(mean)))
    if not ok(m.var, var, av):
        p.add('measure.var', '%s.var = %r, weighted variance %s (allowed error %.3g)' % (desc, m.var, float(var), av))
    out = 'mass>0'
    if var > 0:
        out += ',var>0'
        for v in POSITIVE:
            m = build(); m.var = v
            p.calls += 1
            got = plain(m.positions)
            if not R.finite(got):
                p.add('measure.set_var', '%s.var = %r gives non-finite positions %r' % (desc, v, got)); continue
            D2 = float(R.spread(got))
            a2, av2 = allow(max(M, max(abs(x) for x in got)), D2)
            if not ok(float(R.wvariance(got, ws)), v, av2):
                p.add('measure.set_var', '%s.var = %r gives positions %r with variance %r (allowed error %.3g)' % (desc, v, got, float(R.wvariance(got, ws)), av2))
            if not ok(float(R.wmean(got, ws)), mean, a2) or plain(m.weights) != ws:
                p.add('measure.set_var_keeps', '%s.var = %r changed the mean / weights: positions %r' % (desc, v, got))
        for t in TARGETS:
            m = build(); m.center_mass = t
            p.calls += 1
            got = plain(m.positions)
            if not R.finite(got):
                p.add('measure.set_center_mass', '%s.center_mass = %r gives non-finite positions %r' % (desc, t, got)); continue
            if not ok(float(R.wmean(got, ws)), t, a):
                p.add('measure.set_center_mass', '%s.center_mass = %r gives positions %r with mean %r' % (desc, t, got, float(R.wmean(got, ws))))
            if not ok(float(R.wvariance(got, ws)), var, av):
                p.add('measure.set_center_mass_keeps', '%s.center_mass = %r changed the variance: positions %r' % (desc, t, got))
    return out, p


def shard_measures_offset(n):
    T = Tally()
    for ws, xs0 in point_fills(n):
        for off in OFFSETS:
            xs = type(xs0)(off + x for x in xs0)
            try:
                outcome, p = check_measure_offset(ws, xs)
            except Exception as e:
                outcome, p = 'raised:' + type(e).__name__, Probs()
                p.add('raised', 'measure(w=%r,x=%r): %s: %s' % (ws, xs, type(e).__name__, e))
            judge(T, 'measure', {'zero_weight_present': 0.0 in ws, 'scale': 'large_offset'}, {'kind': 'measure_offset', 'ws': ws, 'xs': xs}, outcome, p)
            T.state(('mo', ws, xs))
            if 'var>0' in outcome:
                T.nontriv(('mo', ws, xs))
    return T


def impose_selections(shape):
    """[(tracking, noweight)]: every single ordered pair on one factor, every star on one factor, every index subset
    on one factor, and the documented combination (a pair on factor 0, indices on the last factor)"""
    out = []
    for k, n in enumerate(shape):
        pairs = [(i, j) for i in range(n) for j in range(n) if i != j]
        for q in pairs:
            out.append(({k: [list(q)]}, {}))
        for i in range(n):                       # stars: first index i collects two others
            others = [j for j in range(n) if j != i]
            if len(others) >= 2:
                out.append(({k: [[i, others[0]], [i, others[1]]]}, {}))
        for r in range(1, n + 1):
            for idx in itertools.combinations(range(n), r):
                out.append(({}, {k: list(idx)}))
    if len(shape) >= 2 and shape[0] >= 2:
        out.append(({0: [[0, 1]], len(shape) - 1: [[0, shape[-1] - 1]]} if shape[-1] >= 2 else {0: [[0, 1]]}, {}))
        out.append(({0: [[0, 1]]}, {len(shape) - 1: [shape[-1] - 1]}))
        out.append(({0: [[0, 1]]}, {0: [1]}))
        out.append(({0: [[0, 1]]}, {0: [0]}))
    return out


def shard_impose(item):
    shape, first_w, complete = item
    T = Tally()
    if complete:
        per = [point_fills(n) for n in shape]
        per[0] = [f for f in per[0] if f[0][0] == first_w]
    else:
        per = [[(f[1], f[2]) for f in strata_fills(n, k, True)] for k, n in enumerate(shape)]
    sels = impose_selections(shape)
    for combo in itertools.product(*per):
        wts = [c[0] for c in combo]; pos = [c[1] for c in combo]
        for tracking, noweight in sels:
            case = {'kind': 'impose_measure', 'wts': wts, 'pos': pos,
                    'tracking': {str(k): v for k, v in tracking.items()}, 'noweight': {str(k): v for k, v in noweight.items()}}
            try:
                outcome, p = check_impose_measure(wts, pos, case['tracking'], case['noweight'])
            except Exception as e:
                outcome, p = 'raised:' + type(e).__name__, Probs()
                p.add('raised', 'impose_measure(%r,%r,%r) on %r/%r: %s: %s' % (shape, tracking, noweight, wts, pos, type(e).__name__, e))
            judge(T, 'impose_measure', {'tracking': bool(tracking), 'noweight': bool(noweight)}, case, outcome, p)
            if outcome == 'ok:changed':
                T.nontriv(('i', wts, pos, repr(tracking), repr(noweight)))
        T.state(('i', wts, pos))
    return T


def shard_pack(_):
    """_pack/_unpack/_nested/_flat as mutual inverses on symbolic data for all 39 shapes (labels, not numbers)"""
    from mystic.math.measures import _pack, _unpack, _flat, _nested
    T = Tally()
    for shape in SHAPES:
        nested = [['%s%d' % ('abc'[k], i) for i in range(n)] for k, n in enumerate(shape)]
        T.count('traces'); T.count('transitions', 4)
        T.nontriv(('pack', shape))
        packed = _pack(nested)
        case = {'kind': 'pack', 'shape': list(shape)}
        if [tuple(q) for q in packed] != R.pack(nested):
            T.violate({'clause': '_pack'}, case, '_pack(%r) = %r, documented (first factor fastest) %r' % (nested, packed, R.pack(nested)))
        if plain(_unpack(R.pack(nested), shape)) != nested:
            T.violate({'clause': '_unpack(_pack)'}, case, '_unpack(pack(%r), %r) = %r' % (nested, shape, _unpack(R.pack(nested), shape)))
        fl = [v for q in nested for v in q]
        if plain(_flat(nested)) != fl or plain(_nested(fl, shape)) != nested:
            T.violate({'clause': '_nested/_flat'}, case, '_flat/_nested wrong on %r' % (nested,))
        if [tuple(q) for q in _pack(_unpack(R.pack(nested), shape))] != R.pack(nested):
            T.violate({'clause': '_pack(_unpack)'}, case, '_pack(_unpack(x)) != x for x = pack(%r)' % (nested,))
    T.state('pack')
    return T


# ------------------------------------------------------------------ driver
def _dispatch(item):
    kind, payload = item
    return {'complete': shard_complete, 'strata': shard_strata, 'values': shard_values, 'measures': shard_measures, 'measures_offset': shard_measures_offset,
            'impose': shard_impose, 'pack': shard_pack}[kind](payload)


def run(ctx):
    limit = 5 if ctx.thorough else 4
    items = []
    complete = [s for s in SHAPES if sum(s) <= limit]
    strata = [s for s in SHAPES if sum(s) > limit]
    for s in sorted(complete, key=lambda q: -sum(q)):
        for fw in WAL:
            # level 2: + single-slot updates; level >= 1: + scenario clauses with a rotating value vector
            items.append(('complete', (s, fw, 2 if (ctx.thorough or sum(s) <= 3) else 0)))
    for s in sorted(strata, key=lambda q: -sum(q)):
        items.append(('strata', (s, 2, ctx.thorough)))
    for s in SHAPES:
        items.append(('values', s))
    for n in (1, 2, 3):
        items.append(('measures', n))
        items.append(('measures_offset', n))
    imp_complete = [(2,), (3,), (1, 2), (2, 1)] + ([(2, 2), (1, 3), (3, 1)] if ctx.thorough else [])
    imp_strata = [(2, 2), (1, 3), (3, 1), (3, 2), (2, 3), (3, 3), (2, 1, 3), (3, 3, 3)]
    for s in imp_complete:
        for fw in WAL:
            items.append(('impose', (s, fw, True)))
    for s in imp_strata:
        items.append(('impose', (s, None, False)))
    items.append(('pack', None))
    ctx.bounds = {
        'shapes': '1-3 factor measures of 1-3 points each (%d shapes)' % len(SHAPES),
        'weights': WAL, 'positions': PAL, 'values': VAL, 'test_functions': sorted(FUNCS), 'pof_thresholds': [0.0, 0.5],
        'complete_for_shapes_with_at_most_n_points': limit, 'complete_shapes': complete,
        'strata_for_larger_shapes': 'per factor: all-distinct, all-equal (each position symbol), one-zero-weight (each slot), all-zero (thorough adds the reversed '
                                    'all-distinct fill and a second all-equal weight); full product over the factors',
        'clauses_on_complete_shapes': 'all clauses for <= 3 points; for 4-point shapes the quick tier omits single-slot updates and scenario clauses '
                                      '(both run on every stratum fill, on the all-values shards and, for 4 points, in the thorough tier)',
        'values': 'one rotating value vector per measure instance; all value vectors (npts<=6) or value strata on the all-distinct fill of each shape',
        'measures_1d': 'all 12 + 144 + 1728 one-factor measures for getters / setters (center_mass, range, var targets %r / %r)' % (TARGETS, POSITIVE),
        'impose_measure': {'complete_shapes': imp_complete, 'strata_shapes': imp_strata,
                           'selections': 'every ordered pair, every 2-pair star and every index subset on each factor, plus 4 two-factor / same-factor combinations'},
        'measures_1d_large_offset': 'the same one-factor measures with positions shifted by %r: center_mass / var getters and setters, judged with the noise allowance of C18 (position noise a = %d*2**-53*M; mean +-a, variance +-((D+2a)**2 - D**2))' % (OFFSETS, KNOISE),
        'tolerance': 'structure compared exactly; statistics relative %g with absolute floor 1' % REL,
    }
    ctx.rule = ("one case = one product measure (shape, weights, positions, values); every clause (round trips, product structure, explicit sums, "
                "full / prefix / single-slot updates, setters, scenario values) is run on it. distinct_nontrivial counts measures with >= 2 points and "
                "positive total mass (1-D: positive variance), plus impose_measure calls that changed the parameters")
    ctx.assumptions = ["equality of measures is observational: (wts, pos, values, flatten())",
                       "expect / expect_var / mean_value and mean-preserving setters are judged only when the total weight is positive",
                       "update() with fewer parameters is judged at whole-factor boundaries (the form the code and its demo support)",
                       "impose_measure is judged for 'simple' pair sets (single pairs and stars); chained pair sets are C18's impose_collapse clause"]
    ctx.pmap(_dispatch, items)


def replay(case):
    kind = case['kind']
    if kind == 'product':
        outcome, p = check_product(case['wts'], case['pos'], case['values'], case.get('level', 1))
    elif kind == 'measure':
        outcome, p = check_measure(case['ws'], case['xs'])
    elif kind == 'measure_offset':
        outcome, p = check_measure_offset(case['ws'], case['xs'])
    elif kind == 'impose_measure':
        outcome, p = check_impose_measure(case['wts'], case['pos'], case['tracking'], case['noweight'])
    else:
        T = shard_pack(None)
        return [v['detail'] for v in T.violations.values()]
    return [text for clause, text in p.items]
