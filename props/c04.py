"""C04 - best-so-far never worsens; counters, monitors and callbacks are faithful.

Engine E1: every op sequence up to a depth over a 10-op alphabet, on every base
solver x cost x monitor kind, with a list-based reference model kept by the
harness.  Oracles are judged after every operation of every history.
"""
import itertools, tempfile, shutil
from mc import graph, solverlab
from mc.runner import Tally

RECONF = ('SetPenalty', 'SetConstraints', 'SetStrictRanges', 'SetReducer', 'SetObjective')

ALPHABET = [
    ['Step'],
    ['Solve'],
    ['SetEvaluationLimits', 2, None, True],
    ['SetPenalty', 'ramp'],
    ['SetConstraints', 'clamp/pure'],
    ['SetStrictRanges', 'unit'],
    ['SetEvaluationMonitor', 'Monitor', False],
    ['SetEvaluationMonitor', 'Monitor', True],
    ['SetGenerationMonitor', 'Monitor', False],
    ['Finalize'],
]


# settings given as keywords of Step / Solve instead of through the Set* methods
KW_ALPHABET = [
    ['Step'],
    ['StepKw', {'EvaluationMonitor': 'Monitor'}],
    ['StepKw', {'StepMonitor': 'Monitor'}],
    ['StepKw', {'penalty': 'ramp'}],
    ['SolveKw', {'EvaluationMonitor': 'Monitor'}],
    ['SetEvaluationLimits', 2, None, True],
    ['Finalize'],
]


class Oracle(graph.Oracle):
    prop = 'C04'

    def __init__(self, lab):
        graph.Oracle.__init__(self, lab)
        self.seg_start = 0              # index into energy_history where the current objective segment begins
        self.has_evalmon = lab.cfg.get('evalmon') not in (None, 'default')
        self.mon_base = 0               # call-log index at which the current evaluation monitor's own records begin
        self.mon_prefix = []            # records the current evaluation monitor inherited (prepended)
        self.stopped = False

    def after(self, op, outcome, b, a):
        lab = self.lab
        out = []
        name = op[0]
        if isinstance(outcome, tuple) and outcome and outcome[0] in ('RAISED', 'HORIZON'):
            out.append(({'clause': 'raised', 'op': name, 'error': outcome[1]},
                        'operation %s raised/ran away: %r' % (name, outcome[:3])))
            return out
        log = lab.cost.log
        # ---- reference bookkeeping for the evaluation monitor
        if name == 'SetEvaluationMonitor':
            new = bool(op[2]) if len(op) > 2 else False
            if new or not self.has_evalmon:
                self.mon_prefix = []
            else:
                self.mon_prefix = self.mon_prefix + [(x, v) for x, v in log[self.mon_base:len(log)]]
            self.mon_base = len(log)
            self.has_evalmon = True
        if name in ('StepKw', 'SolveKw') and 'EvaluationMonitor' in op[1]:
            # the monitor is installed (new=False: it inherits the old records) before the iteration(s) of this call
            n0 = b['ncalls']
            if not self.has_evalmon:
                self.mon_prefix = []
            else:
                self.mon_prefix = self.mon_prefix + [(x, v) for x, v in log[self.mon_base:n0]]
            self.mon_base = n0
            self.has_evalmon = True
        # ---- (b) evaluation counter = number of real calls, over the whole life
        if a['evals'] != a['ncalls']:
            out.append(({'clause': 'evaluations', 'after_reconf': self._reconf_seen(op)},
                        'solver.evaluations=%d but the cost was really called %d times' % (a['evals'], a['ncalls'])))
        # ---- (c) evaluation monitor holds exactly those pairs in call order
        if self.has_evalmon and not out:
            want = self.mon_prefix + [(x, v) for x, v in log[self.mon_base:]]
            got = list(zip(a['evalx'], a['evaly']))
            if got != want:
                out.append(({'clause': 'evalmon'},
                            'evaluation monitor holds %d records, expected %d (first difference at %s)'
                            % (len(got), len(want), _firstdiff(got, want))))
        # ---- (d) generation counter = completed iterations (the first _Step is the initial evaluation)
        want_g = max(0, a['inner'] - 1)
        if a['gens'] != want_g:
            out.append(({'clause': 'generations'},
                        'solver.generations=%d after %d executed iterations (incl. the initial evaluation)' % (a['gens'], a['inner'])))
        # ---- (f) callback exactly once per iteration, with the current best
        if a['ncb'] != a['inner']:
            out.append(({'clause': 'callback_count'}, 'callback fired %d times for %d iterations' % (a['ncb'], a['inner'])))
        for k in range(b['ncb'], a['ncb']):
            x, best, it = lab.cb_log[k]
            if x != best:
                out.append(({'clause': 'callback_arg'}, 'callback %d received %r while the best was %r' % (k, x, best)))
                break
        # ---- (a) best-energy history non-increasing per objective segment; last entry is bestEnergy
        if name in RECONF:
            self.seg_start = len(a['ehist'])
        if name in ('StepKw', 'SolveKw') and ('penalty' in op[1] or 'constraints' in op[1]):
            self.seg_start = len(b['ehist'])      # the objective changed before the iteration(s) of this call
        eh = a['ehist']
        # (a collapse pins parameters, i.e. changes the constraints: each one applied starts a new segment)
        cuts = sorted(set([self.seg_start] + [m for m in getattr(lab, 'collapse_marks', ()) if m > self.seg_start])) + [len(eh)]
        for s0, s1 in zip(cuts, cuts[1:]):
            seg = eh[s0:s1]
            bad = next((i for i in range(1, len(seg)) if _scal(seg[i]) > _scal(seg[i - 1])), None)
            if bad is not None:
                out.append(({'clause': 'monotone'},
                            'energy_history rises from %r to %r at index %d (segment starts at %d)'
                            % (seg[bad - 1], seg[bad], s0 + bad, s0)))
                break
        if eh and a['inner'] and not _same(eh[-1], a['bestE']):
            out.append(({'clause': 'history_last'}, 'energy_history[-1]=%r but bestEnergy=%r' % (eh[-1], a['bestE'])))
        # ---- (e) a stopped run: one (best x, best energy) record per generation, ending in the reported result
        stopped = name in ('Solve', 'SolveKw') or (name in ('Step', 'StepKw') and outcome)
        if stopped and a['inner']:
            if a['nstep'] != a['gens'] + 1:
                out.append(({'clause': 'stepmon_len'},
                            'stopped run: step monitor has %d records for %d generations' % (a['nstep'], a['gens'])))
            elif a['stepx'] and (a['stepx'][-1] != a['best'] or not _same(a['stepy'][-1], a['bestE'])):
                out.append(({'clause': 'stepmon_last'},
                            'stopped run: last step-monitor record (%r,%r) is not the reported result (%r,%r)'
                            % (a['stepx'][-1], a['stepy'][-1], a['best'], a['bestE'])))
            elif tuple(a['stepy']) != tuple(a['ehist']):
                out.append(({'clause': 'stepmon_vs_history'}, 'stopped run: step monitor energies differ from energy_history'))
        return out

    def _reconf_seen(self, op):
        return True


def _scal(v):
    return v if not isinstance(v, tuple) else v[0]


def _same(u, v):
    return _scal(u) == _scal(v) or (_scal(u) != _scal(u) and _scal(v) != _scal(v))


def _firstdiff(got, want):
    for i, (g, w) in enumerate(zip(got, want)):
        if g != w:
            return 'index %d: %r vs %r' % (i, g, w)
    return 'length'


def shard(item):
    cfg, depth, prefix = item[:3]
    alphabet = KW_ALPHABET if (len(item) > 3 and item[3] == 'kw') else ALPHABET
    T = Tally()
    tmp = tempfile.mkdtemp(prefix='c04_')
    try:
        graph.explore_ops(cfg, alphabet, depth, Oracle, T, prefix, tmp)
    finally:
        shutil.rmtree(tmp, ignore_errors=True)
    T.sample({'cfg': cfg, 'ops': [alphabet[i] for i in (list(prefix) + [0] * depth)[:depth]]})
    T.nontriv(('cfg', sorted(cfg.items()), prefix))
    return T


# (C) runs whose termination collapses parameters and continues inside one Solve (the second loop of _Solve)
COLLAPSE_HISTORIES = [
    [['Solve']],
    [['Step'], ['Step'], ['Solve']],
    [['Solve'], ['Solve']],
    [['SolveKw', {'EvaluationMonitor': 'Monitor'}]],
    [['Step']] * 12 + [['Solve']],
]


def shard_collapse(item):
    cfg = item[0]
    T = Tally()
    for ops in COLLAPSE_HISTORIES:
        lab, _ = graph.run_history(cfg, ops, Oracle, T, keep_lab=True)
        marks = len(lab.collapse_marks)
        T.hist('C_collapses_applied_in_history', min(marks, 3))
        if marks > 0:
            T.nontriv(('collapse', cfg['solver'], cfg['term'], cfg['cost'], repr(ops)))
    T.sample({'cfg': cfg, 'ops': COLLAPSE_HISTORIES[0]})
    return T


def shard_any(item):
    return shard_collapse(item) if item[-1] == 'collapse' else shard(item)


def configs(ctx):
    out = []
    costs = ['sphere', 'steps', 'infwall']
    mons = [('default', 'default'), ('Monitor', 'Monitor'), ('Monitor', 'Verbose'), ('Monitor', 'Logging')]
    seeds = [ctx.seed, ctx.seed + 1] if ctx.thorough else [ctx.seed]
    for solver in solverlab.SOLVERS:
        for cost in costs:
            for em, sm in mons:
                for seed in (seeds if solver.startswith('DE') else seeds[:1]):
                    out.append({'solver': solver, 'dim': 2, 'cost': cost, 'seed': seed, 'term': 'never',
                                'limits': [4, 200], 'evalmon': em, 'stepmon': sm, 'horizon': 3000})
    return out


def run(ctx):
    depth = 5 if ctx.thorough else 4
    cfgs = configs(ctx)
    if not ctx.thorough:
        # quick: all monitor kinds on one cost, all costs with the plain monitor
        cfgs = [c for c in cfgs if c['cost'] == 'sphere' or (c['evalmon'], c['stepmon']) == ('Monitor', 'Monitor')]
    # the callback given as a callable OBJECT that is false in a boolean context (an empty recorder with __call__)
    cfgs += [dict(c, callback_kind='falsy') for c in cfgs if c['cost'] == 'sphere' and (c['evalmon'], c['stepmon']) == ('Monitor', 'Monitor') and c['seed'] == ctx.seed]
    # thorough: depth 5 on the sphere cost (every solver, monitor kind, seed and the falsy-callback configurations), depth 4 on the other costs
    items = [(cfg, depth if (cfg['cost'] == 'sphere' or not ctx.thorough) else depth - 1, (i,)) for cfg in cfgs for i in range(len(ALPHABET))]
    kwcfgs = [c for c in cfgs if not c.get('callback_kind') and c['cost'] == 'sphere' and (c['evalmon'], c['stepmon']) in (('default', 'default'), ('Monitor', 'Monitor'))]
    items += [(cfg, depth, (i,), 'kw') for cfg in kwcfgs for i in range(len(KW_ALPHABET))]
    ctx.bounds = {'depth_on_other_costs_in_thorough': depth - 1 if ctx.thorough else depth, 'depth': depth, 'alphabet': ALPHABET, 'keyword_alphabet': KW_ALPHABET, 'keyword_alphabet_configs': len(kwcfgs),
                  'configs': len(cfgs), 'solvers': list(solverlab.SOLVERS),
                  'histories_per_config': sum(len(ALPHABET) ** d for d in range(1, depth + 1))}
    ctx.rule = ("all operation sequences of length <= depth over the 10-op alphabet for every configuration; a state is the "
                "canonical snapshot (best, population, energies, counters, monitor contents, call count) after an operation; "
                "distinct_nontrivial counts (configuration, first operation) shards, each of which runs 10^(depth-1) histories")
    ctx.assumptions = ['iterations are counted by wrapping the bound _Step on the instance', 'in-process map only']
    for solver in solverlab.SOLVERS:
        for term in ('collapse_at', 'collapse_as'):
            for cost, dim in (('sphere', 3), ('illq', 3)) + ((('rosen', 3),) if ctx.thorough else ()):
                for em, sm in (('Monitor', 'Monitor'), ('default', 'default')):
                    items.append(({'solver': solver, 'dim': dim, 'cost': cost, 'seed': ctx.seed, 'term': term, 'limits': [150, 6000],
                                   'evalmon': em, 'stepmon': sm, 'horizon': 20000}, 'collapse'))
    ctx.bounds['collapse_histories'] = COLLAPSE_HISTORIES
    ctx.pmap(shard_any, items)


def replay(case):
    T = Tally()
    graph.run_history(case['cfg'], case['ops'], Oracle, T)
    return [v['detail'] for v in T.violations.values()]
