"""C12 - symbolic rewriting preserves the solution set.

Engines E3 (programs) + E2 (simplify's own random test points).

* simplify: every program of the families below is run with ``all=True`` and
  with ``rand=`` answered from UNIT at every draw through mc.tree.explore
  (deviation bound 2; the rational templates completely), so the flip decision
  is explored.  Input and every returned case are evaluated by the exact
  rational interpreter ref/ratexpr12.py at all grid points plus points
  constructed to lie exactly on every boundary (of the input lines and of the
  returned lines).  Oracle: a point satisfies the input iff it satisfies every
  line of at least one returned case; points where the *input* divides by zero
  are excluded.
* solve: consistent linear systems; the solved form must have rank-many
  equations, one distinct variable per left side, free variables only on the
  right, and must satisfy the original at every grid value of the free
  variables.
* linear_symbolic / symbolic_bounds: text against direct matrix / interval
  evaluation.
"""
import io, itertools, contextlib
from fractions import Fraction as F
from mc import tree, env
from mc.runner import Tally
from ref import ratexpr12 as rx

GRID = (F(-3), F(-1), F(-1, 2), F(0), F(1, 2), F(1), F(5, 2))
COEF = ('-2', '-1', '-0.5', '0', '0.5', '1', '4')
SMALL = ('-1', '0', '0.5')
DS = ('-1', '0', '2.5')
CMPS = ('<', '<=', '=', '>=', '>', '!=')
UNIT = (0.25, 0.75, 0.0, env.ONE_MINUS)     # answer 0 (the default) is 0.25
NEAR = F(1, 10 ** 12)   # a test point this close to a boundary cannot be resolved in floating point
TOL = F(1, 10 ** 9)
_MISSING = object()


class HarnessFault(Exception):
    pass


# ===================================================================== programs
def _line(coefs, names, cmp, d):
    return ' + '.join('%s*%s' % (c, v) for c, v in zip(coefs, names)) + ' %s %s' % (cmp, d)


def _rows(alphabet, n):
    return [r for r in itertools.product(alphabet, repeat=n) if any(F(c) != 0 for c in r)]


def _lines(rows, names, ds):
    return [(_line(r, names, c, d), r, c, d) for r in rows for d in ds for c in CMPS]


def _prog(family, lines, names, variables=None, bound=2):
    """lines: list of (text, row, cmp, d)"""
    return {'kind': 'simplify', 'family': family, 'text': '\n'.join(l[0] for l in lines),
            'cmps': ','.join(l[2] for l in lines), 'vars': list(names), 'variables': variables,
            'bound': bound, 'rows': [[l[1], l[3]] for l in lines],
            'shape': _shape(lines), 'class_by_outcome': False}


def _shape(lines):
    if len(lines) < 2:
        return 'single'
    sides = [(l[1], l[3]) for l in lines]
    return 'same_sides' if any(sides[i] == sides[j] for i in range(len(sides)) for j in range(i)) else 'distinct'


# (-1,0.5) and (1,-0.5) are proportional: distinct texts that simplify to the same sides, which is what reaches merge()
PAIRS_Q = (('-1', '0.5'), ('1', '-0.5'), ('0', '-1'))
TRIPLES_T = (('-1', '0.5', '0'), ('0.5', '-1', '4'), ('0', '-1', '0.5'), ('0.5', '0', '-2'),
             ('-2', '4', '-0.5'), ('1', '1', '1'))


def simplify_programs(thorough):
    P = []
    x2, x3 = ('x0', 'x1'), ('x0', 'x1', 'x2')
    # one line, two variables: everything
    for l in _lines(_rows(COEF, 2), x2, DS):
        P.append(_prog('lin1', [l], x2))
    # one line, three variables
    for l in _lines(_rows(COEF if thorough else SMALL, 3), x3, DS):
        P.append(_prog('lin1x3', [l], x3))
    # two lines, two variables (ordered pairs, identical and contradictory pairs included)
    two = _lines(_rows(SMALL, 2), x2, DS) if thorough else _lines(PAIRS_Q, x2, ('0', '2.5'))
    for a in two:
        for b in two:
            P.append(_prog('lin2', [a, b], x2))
    if thorough:
        two3 = _lines(TRIPLES_T, x3, ('0', '2.5'))
        for a in two3:
            for b in two3:
                P.append(_prog('lin2x3', [a, b], x3))
    # three lines: a pair with identical sides plus an independent line (the pair alone is in lin2)
    third = ('0*x0 + 1*x1 < 2.5', ('0', '1'), '<', '2.5')
    for c1 in CMPS:
        for c2 in CMPS:
            a = (_line(('1', '-1'), x2, c1, '0'), ('1', '-1'), c1, '0')
            b = (_line(('1', '-1'), x2, c2, '0'), ('1', '-1'), c2, '0')
            P.append(_prog('lin3:pair+1', [a, b, third], x2))
    # decimals whose integer part ends in 0 and whose first decimal is 0 (text rewriting of ' 0.0...' literals
    # inside solve must not reach into them), as right-hand side and as coefficient
    for l in _lines(_rows(SMALL, 2), x2, ('10.05', '20.01') if not thorough else ('10.05', '20.01', '100.03', '0.05')):
        P.append(_prog('lin1:decimal_rhs', [l], x2))
    for c in CMPS:
        for text, row, d in (('1*x0 + 1*x1 %s 10.05*x1 + 0.5' % c, None, None), ('10.05*x0 + -1*x1 %s 20.01' % c, ('10.05', '-1'), '20.01')):
            P.append({'kind': 'simplify', 'family': 'lin1:decimal_rhs', 'text': text, 'cmps': c, 'vars': list(x2), 'variables': None,
                      'bound': 2, 'rows': None, 'shape': 'single', 'class_by_outcome': False})
    # naming schemes
    abc = ('a', 'b', 'c')
    for l in _lines(_rows(COEF if thorough else SMALL, 2), abc[:2], DS):
        P.append(_prog('abc1', [l], abc[:2], variables=list(abc)))
    for l in _lines(_rows(SMALL, 3), abc, ('2.5',)):
        P.append(_prog('abc1x3', [l], abc, variables=list(abc)))
    nm = _lines(PAIRS_Q if thorough else PAIRS_Q[:2], abc[:2], ('2.5',))
    for a in nm:
        for b in nm:
            P.append(_prog('abc2', [a, b], abc[:2], variables=list(abc)))
    xx = ('x1', 'x10')
    for l in _lines(_rows(COEF if thorough else SMALL, 2), xx, DS):
        P.append(_prog('x1x10:1', [l], xx))
    nm = _lines(PAIRS_Q if thorough else PAIRS_Q[:2], xx, ('0', '2.5') if thorough else ('2.5',))
    for a in nm:
        for b in nm:
            P.append(_prog('x1x10:2', [a, b], xx))
    # rational templates (class membership decided by outcome, DESIGN section 5)
    nz = [c for c in COEF if F(c) != 0]
    shifts = ('x1-0.5', 'x1-1', 'x1+1') if not thorough else ('x1-0.5', 'x1-1', 'x1-4', 'x1+0.5', 'x1+1', 'x1+2')
    T = []
    for c in CMPS:
        for d in DS:
            T.append(('rat:x0/x1 CMP d', 'x0/x1 %s %s' % (c, d), x2, c, d))
            T.append(('rat:x0*x1 CMP d', 'x0*x1 %s %s' % (c, d), x2, c, d))
            T.append(('rat:d/x1 CMP x0', '%s/x1 %s x0' % (d, c), x2, c, d))
            for s in shifts:
                T.append(('rat:d/(x1-b) CMP x0', '%s/(%s) %s x0' % (d, s, c), x2, c, d))
        for a in nz:
            T.append(('rat:x0/(a*x1) CMP x2', 'x0/(%s*x1) %s x2' % (a, c), x3, c, a))
    for fam, text, names, c, d in T:
        P.append({'kind': 'simplify', 'family': fam, 'text': text, 'cmps': c, 'vars': list(names),
                  'variables': None, 'bound': None, 'rows': None, 'shape': 'single', 'param': d,
                  'class_by_outcome': True})
    # the same relations written with blanks around the division sign (how the divisor is FOUND is text matching)
    for fam, text, names, c, d in T:
        if '/' not in text:
            continue
        for sp, when in ((' / ', thorough or d == DS[0]), ('/ ', thorough or d == DS[1]), (' /', thorough)):
            if when:
                P.append({'kind': 'simplify', 'family': fam, 'text': text.replace('/', sp), 'cmps': c, 'vars': list(names),
                          'variables': None, 'bound': None, 'rows': None, 'shape': 'single', 'param': d,
                          'class_by_outcome': True, 'spacing': repr(sp)})
    return P


# ============================================================ instrumentation
class Instr(object):
    """observe (never alter) mystic.symbolic while one program is explored:
    * ``equals`` is wrapped to record the test points of every flip decision;
    * ``solve`` is memoised on its arguments (it is a pure function of them; the
      first call with any argument tuple runs the real code, and each program is
      finally re-run once without the memo and must reproduce its outcome);
    * stdlib / numpy randomness is routed to a private generator that must end
      the program untouched (simplify(all=True, rand=...) may draw from nothing else)."""

    def __init__(self):
        self.memo = {}
        self.eqlog = []
        self.use_memo = True
        self.hits = self.misses = 0

    def __enter__(self):
        import mystic.symbolic as ms
        self.ms = ms
        self.real_solve, self.real_equals = ms.solve, ms.equals
        real_solve, real_equals = self.real_solve, self.real_equals

        def solve(constraints, variables='x', target=None, **kwds):
            if not self.use_memo:
                return real_solve(constraints, variables=variables, target=target, **kwds)
            key = (constraints, repr(variables), repr(target),
                   tuple(sorted((k, repr(v)) for k, v in kwds.items() if k != 'locals')))
            r = self.memo.get(key, _MISSING)
            if r is _MISSING:
                self.misses += 1
                r = real_solve(constraints, variables=variables, target=target, **kwds)
                self.memo[key] = r
            else:
                self.hits += 1
            return r

        def equals(before, after, vals=None, **kwds):
            self.eqlog.append((before, dict(vals or {})))
            return real_equals(before, after, vals, **kwds)

        ms.solve, ms.equals = solve, equals
        self.rng = env.SeededRandom(12)
        self._cm = env.owned_random(self.rng)
        self._cm.__enter__()
        try:
            import sympy.core.random as scr
            scr.seed(0)
        except Exception:
            pass
        return self

    def __exit__(self, *exc):
        self._cm.__exit__(*exc)
        self.ms.solve, self.ms.equals = self.real_solve, self.real_equals
        if exc[0] is None:
            ref = env.SeededRandom(12)
            if self.rng.r.random() != ref.r.random() or self.rng.n.rand() != ref.n.rand():
                raise HarnessFault('simplify drew from random / numpy.random behind the rand= hook')
        return False


def run_simplify(prog, chooser, instr):
    """one execution on the real code -> (outcome, draws, degenerate)"""
    draws = []

    def rand():
        v = UNIT[chooser.choose(len(UNIT), 'rand')]
        draws.append(v)
        return v
    kw = {'all': True, 'rand': rand}
    if prog.get('variables') is not None:
        kw['variables'] = list(prog['variables'])
    del instr.eqlog[:]
    try:
        with contextlib.redirect_stdout(io.StringIO()):
            out = instr.ms.simplify(prog['text'], **kw)
    except (tree.Diverged, HarnessFault, env.UnownedRandomness):
        raise
    except Exception as e:
        return ('raised', type(e).__name__), draws, False
    if out is None:
        outcome = ('none',)
    elif isinstance(out, str):
        outcome = ('cases', (out,))
    elif isinstance(out, tuple) and all(isinstance(o, str) for o in out):
        outcome = ('cases', tuple(out))
    else:
        outcome = ('other', repr(out))
    return outcome, draws, _degenerate(instr.eqlog)


_DEGEN = {}


def _degenerate(eqlog):
    """True when some flip decision was taken at a test point lying on (or
    within NEAR of, or at a pole of) the boundary of the relation being rewritten"""
    for before, vals in eqlog:
        key = (before, tuple(sorted((k, v) for k, v in vals.items() if isinstance(v, (int, float)))))
        hit = _DEGEN.get(key)
        if hit is None:
            if len(_DEGEN) > 200000:
                _DEGEN.clear()
            hit = _DEGEN[key] = _on_boundary(before, vals)
        if hit:
            return True
    return False


def _on_boundary(before, vals):
    try:
        ln = rx.parse_line(before)
        q = {}
        for k, v in vals.items():
            if isinstance(v, (int, float)) and v == v and abs(v) != float('inf'):
                q[k] = F(v)
        g = ln.gap(q)
    except (rx.ParseError, KeyError, TypeError, ValueError):
        return False
    return g is None or abs(g) <= NEAR


# ================================================================== evaluation
class Points(object):
    """exact evaluation of lines at points of one variable tuple, with caches"""

    def __init__(self, names):
        self.names = tuple(names)
        self.cache = {}
        self.bcache = {}

    def env(self, p):
        return dict(zip(self.names, p))

    def holds(self, line, p):
        d = self.cache.get(line.text)
        if d is None:
            d = self.cache[line.text] = {}
        r = d.get(p, _MISSING)
        if r is _MISSING:
            r = d[p] = line.holds(self.env(p))
        return r

    def grid(self):
        return list(itertools.product(GRID, repeat=len(self.names)))

    def boundary(self, line):
        """points with lhs == rhs exactly: each variable the line is affine in is
        solved for, the other variables ranging over the grid"""
        got = self.bcache.get(line.text)
        if got is not None:
            return got
        out = []
        names = self.names
        for i, v in enumerate(names):
            if v not in line.variables:
                continue
            others = [GRID] * (len(names) - 1)
            for rest in itertools.product(*others):
                p = list(rest[:i]) + [None] + list(rest[i:])

                def g(t):
                    p[i] = t
                    return line.gap(dict(zip(names, p)))
                ts = [t for t in (F(0), F(1), F(2), F(3), F(5), F(7)) if g(t) is not None][:3]
                if len(ts) < 3:
                    continue
                g0, g1, g2 = g(ts[0]), g(ts[1]), g(ts[2])
                slope = (g1 - g0) / (ts[1] - ts[0])
                if slope == 0 or g0 + slope * (ts[2] - ts[0]) != g2:
                    continue
                root = ts[0] - g0 / slope
                if g(root) == 0:
                    p[i] = root
                    out.append(tuple(p))
        self.bcache[line.text] = out
        return out


def _intersection(prog):
    """exact common boundary point of a two-line two-variable linear program"""
    rows = prog.get('rows')
    if not rows or len(rows) != 2 or len(rows[0][0]) != 2:
        return []
    (a, b), e = [F(c) for c in rows[0][0]], F(rows[0][1])
    (c, d), f = [F(c) for c in rows[1][0]], F(rows[1][1])
    det = a * d - b * c
    if det == 0:
        return []
    return [((e * d - b * f) / det, (a * f - e * c) / det)]


def judge_cases(prog, in_lines, P, base_points, cases):
    """compare the input with the union of the returned cases.
    -> dict(mism=[(point, direction, point_kind)], sat=, unsat=, skipped=, problem=None|text)"""
    try:
        parsed = [rx.parse_program(c) for c in cases]
    except rx.ParseError as e:
        return {'problem': 'returned text is outside the rational grammar: %s' % e, 'mism': [], 'sat': 0, 'unsat': 0, 'skipped': 0}
    names = set(P.names)
    for case in parsed:
        for ln in case:
            if not ln.variables <= names:
                return {'problem': 'returned line %r mentions variables %s that are not in the program'
                        % (ln.text, sorted(ln.variables - names)), 'mism': [], 'sat': 0, 'unsat': 0, 'skipped': 0}
    pts = list(base_points)
    seen = set(pts)
    for case in parsed:
        for ln in case:
            for p in P.boundary(ln):
                if p not in seen:
                    seen.add(p)
                    pts.append(p)
    dyadic = rx.is_dyadic_text(prog['text']) and all(rx.is_dyadic_text(c) for c in cases)
    all_lines = list(in_lines) + [ln for case in parsed for ln in case]
    mism, sat, unsat, skipped = [], 0, 0, 0
    for p in pts:
        hin = [P.holds(ln, p) for ln in in_lines]
        if None in hin:
            skipped += 1
            continue
        if not dyadic:
            e = P.env(p)
            gaps = [ln.gap(e) for ln in all_lines]
            if any(g is not None and abs(g) <= TOL for g in gaps):
                skipped += 1
                continue
        want = all(hin)
        got = False
        undefined = False
        for case in parsed:
            hs = [P.holds(ln, p) for ln in case]
            if None in hs:
                undefined = True
            if all(h is True for h in hs):
                got = True
        if want:
            sat += 1
        else:
            unsat += 1
        if want != got:
            if undefined:
                kind = 'divisor_zero_in_returned_case'
            elif any(ln.gap(P.env(p)) == 0 for ln in in_lines):
                kind = 'on_input_boundary'
            else:
                kind = 'off_boundary'
            mism.append((p, 'loses' if want else 'admits', kind))
    return {'problem': None, 'mism': mism, 'sat': sat, 'unsat': unsat, 'skipped': skipped, 'dyadic': dyadic}


def _fmt_point(names, p):
    return ', '.join('%s=%s' % (n, v) for n, v in zip(names, p))


def in_stated_class(prog, cases):
    """DESIGN section 5: for the rational templates membership is decided by
    outcome - every returned case of a one-line program carries at most one
    condition line besides the rewritten relation"""
    if not prog.get('class_by_outcome'):
        return True
    return all(len([l for l in c.split('\n') if l.strip()]) <= 2 for c in cases)


def check_program(T, prog, validate_memo=True):
    names = tuple(prog['vars'])
    in_lines = rx.parse_program(prog['text'])
    P = Points(names)
    base = P.grid()
    seen = set(base)
    for p in [q for ln in in_lines for q in P.boundary(ln)] + _intersection(prog):
        if p not in seen:
            seen.add(p)
            base.append(p)
    outcomes = {}    # outcome -> dict(n=, generic=choices of first non-degenerate execution, any=choices)
    last = None
    with Instr() as I:
        def run(ch):
            return run_simplify(prog, ch, I)
        explorer = tree.explore(run, bound=prog['bound'])
        while True:
            try:
                ch, (outcome, draws, degenerate) = next(explorer)
            except StopIteration:
                break
            except tree.Diverged as e:
                # every random draw of simplify is owned (rand=): the same call meeting other choice points on a
                # replay means the library kept something from an earlier call (a memo, a cache, a module-level list)
                T.violate({'clause': 'simplify', 'family': prog['family'], 'problem': 'repeated_call_takes_another_path'},
                          dict(prog, choices=[]),
                          'simplify(%r, all=True) made other random draws when called again with the same arguments: %s' % (prog['text'], e))
                break
            T.count('traces')
            T.count('transitions', len(ch.trace) + 1)
            T.hist('draws_per_execution', len(draws))
            rec = outcomes.get(outcome)
            if rec is None:
                rec = outcomes[outcome] = {'n': 0, 'generic': None, 'any': list(ch.choices), 'ngeneric': 0}
            rec['n'] += 1
            if degenerate:
                T.count('executions_with_test_point_on_boundary')
            else:
                rec['ngeneric'] += 1
                if rec['generic'] is None:
                    rec['generic'] = list(ch.choices)
            last = (list(ch.choices), outcome)
        if validate_memo and last is not None:
            I.use_memo = False
            again = run_simplify(prog, tree.ReplayChooser(last[0]), I)[0]
            I.use_memo = True
            T.count('memo_validations')
            if again != last[1]:
                raise HarnessFault('memoised solve changed the outcome of %r: %r vs %r' % (prog['text'], last[1], again))
        T.count('solve_calls_real', I.misses)
        T.count('solve_calls_memoised', I.hits)
    T.count('programs')
    T.hist('family', prog['family'])
    results = [r for o, r in outcomes.items() if o[0] != 'raised']
    if results and not any(r['ngeneric'] for r in results):
        T.hist('programs_whose_every_execution_had_a_test_point_on_the_boundary', prog['family'])
    T.hist('distinct_outcomes_per_program', len(outcomes))
    nontrivial = False
    for outcome, rec in outcomes.items():
        T.state((prog['text'], prog.get('variables'), outcome))
        kind = outcome[0]
        if kind == 'raised':
            T.hist('outcome', 'raised:' + outcome[1], rec['n'])
            continue
        if kind == 'other':
            T.hist('outcome', 'other', rec['n'])
            T.violate({'clause': 'simplify', 'family': prog['family'], 'problem': 'unexpected_return_type'},
                      dict(prog, choices=rec['any']), 'simplify(%r, all=True) returned %s' % (prog['text'], outcome[1]))
            continue
        cases = () if kind == 'none' else outcome[1]
        T.hist('outcome', 'no_solution(None)' if kind == 'none' else '%d_case(s)' % len(cases), rec['n'])
        J = judge_cases(prog, in_lines, P, base, cases)
        T.count('evaluations', J['sat'] + J['unsat'])
        T.hist('exact_arithmetic', 'dyadic program and result (boundary points judged)' if J.get('dyadic', True)
               else 'non-dyadic literal (1e-9 margin around boundaries skipped)')
        T.count('points_excluded(input_divides_by_zero_or_nondyadic_margin)', J['skipped'])
        if J['sat'] and J['unsat'] and cases != (prog['text'],):
            nontrivial = True
        if len(in_lines) == 1 and len(cases) == 1 and not J['problem']:
            first = rx.parse_program(cases[0])
            if first:
                T.hist('comparator_in->out', '%s -> %s' % (in_lines[0].cmp, first[0].cmp))
        inclass = in_stated_class(prog, cases)
        if prog.get('class_by_outcome'):
            T.hist('rational_template_class', '%s | %s' % (prog['family'], 'in' if inclass else 'outside'))
        if J['problem']:
            T.violate({'clause': 'simplify', 'family': prog['family'], 'problem': 'uninterpretable_result'},
                      dict(prog, choices=rec['any']),
                      'simplify(%r, all=True) -> %r: %s' % (prog['text'], cases, J['problem']))
            continue
        if not J['mism']:
            T.hist('verdict', 'agrees')
            continue
        p, direction, pkind = J['mism'][0]
        dirs = sorted(set(m[1] for m in J['mism']))
        kinds = sorted(set(m[2] for m in J['mism']))
        what = ('simplify(%r%s, all=True) with rand answers %s returned %r; the point (%s) %s '
                '[%d of %d judged points disagree: %s at %s]'
                % (prog['text'], '' if not prog.get('variables') else ', variables=%r' % prog['variables'],
                   [UNIT[c] for c in (rec['generic'] or rec['any'])], cases if kind != 'none' else None,
                   _fmt_point(names, p),
                   'satisfies the input but no returned case' if direction == 'loses'
                   else 'violates the input but satisfies a returned case',
                   len(J['mism']), J['sat'] + J['unsat'], '/'.join(dirs), '/'.join(kinds)))
        if not inclass:
            T.hist('verdict', 'mismatch_outside_the_stated_class(not raised)')
            T.hist('outside_the_stated_class', '%s %s' % (prog['family'], prog['cmps']))
            T.sample({'outside_the_stated_class': what}, limit=2)
            continue
        if rec['generic'] is None:
            T.hist('verdict', 'mismatch_only_when_a_test_point_lies_on_the_boundary(not raised)')
            T.hist('boundary_test_point_mismatch', '%s %s' % (prog['family'], prog['cmps']))
            T.sample({'test_point_on_boundary': what}, limit=3)
            continue
        T.hist('verdict', 'MISMATCH')
        sig = {'clause': 'simplify', 'family': prog['family'], 'cmps': prog['cmps'], 'shape': prog['shape'],
               'direction': '/'.join(dirs), 'where': '/'.join(kinds)}
        if prog.get('class_by_outcome'):
            sig['param'] = prog.get('param')
        T.violate(sig, dict(prog, choices=rec['generic']), what)
    if nontrivial:
        T.nontriv((prog['text'], prog.get('variables')))


def shard_simplify(progs):
    T = Tally()
    for prog in progs:
        check_program(T, prog, validate_memo=prog.get('validate', True))
    if progs:
        T.sample({'simplify_program': progs[0]['text'], 'variables': progs[0]['variables'], 'family': progs[0]['family']}, limit=1)
    return T


# ======================================================================= solve
def _rank(rows):
    """rank by exact Gaussian elimination over Fractions"""
    M = [list(r) for r in rows]
    rank, ncol = 0, len(M[0]) if M else 0
    for c in range(ncol):
        piv = next((r for r in range(rank, len(M)) if M[r][c] != 0), None)
        if piv is None:
            continue
        M[rank], M[piv] = M[piv], M[rank]
        for r in range(len(M)):
            if r != rank and M[r][c] != 0:
                f = M[r][c] / M[rank][c]
                M[r] = [a - f * b for a, b in zip(M[r], M[rank])]
        rank += 1
    return rank


def _terminating(q, digits=12):
    """q is a dyadic rational with a decimal expansion of at most `digits` significant digits: only those are
    computed exactly by the floating-point elimination inside solve (0.6 = 3/5 terminates in decimal but not in
    binary; solve printing 0.600000000000001 for it is rounding, judged with the 1e-9 allowance)"""
    d = q.denominator
    while d % 2 == 0:
        d //= 2
    if d != 1:
        return False
    s = abs(q.numerator) * 10 ** 40 // q.denominator if q else 0
    return len(str(s).rstrip('0')) <= digits


def _exact_solution_terminates(A, d, deps, names):
    """solve the system exactly for `deps`; True when every coefficient of the
    exact solved form is a short terminating decimal (so correct text is exact)"""
    idx = [names.index(v) for v in deps]
    free = [j for j in range(len(names)) if j not in idx]
    # reduced row echelon form with pivots forced into the dep columns
    M = [[row[j] for j in idx] + [row[j] for j in free] + [rhs] for row, rhs in zip(A, d)]
    r = 0
    for c in range(len(idx)):
        piv = next((k for k in range(r, len(M)) if M[k][c] != 0), None)
        if piv is None:
            return None
        M[r], M[piv] = M[piv], M[r]
        M[r] = [a / M[r][c] for a in M[r]]
        for k in range(len(M)):
            if k != r and M[k][c] != 0:
                f = M[k][c]
                M[k] = [a - f * b for a, b in zip(M[k], M[r])]
        r += 1
    return all(_terminating(q) for row in M[:r] for q in row)


def judge_solve(case, out):
    """-> list of (problem key, message)"""
    names = list(case['names'])
    A = [[F(c) for c in row] for row in case['rows']]
    d = [F(v) for v in case['d']]
    rank = _rank(A)
    head = 'solve(%r%s%s) -> %r: ' % (case['text'], '' if not case.get('variables') else ', variables=%r' % case['variables'],
                                        '' if not case.get('target') else ', target=%r' % case['target'], out)
    if not isinstance(out, str):
        return [('not_text', head + 'not a string although the system is consistent with rank %d' % rank)]
    try:
        lines = rx.parse_program(out)
    except rx.ParseError as e:
        return [('uninterpretable_result', head + str(e))]
    deps = []
    for ln in lines:
        if ln.cmp not in ('=', '==') or ln.lhs[0] != 'var':
            return [('not_solved_form', head + 'line %r is not `variable = expression`' % ln.text)]
        deps.append(ln.lhs[1])
    bad = []
    if len(lines) != rank:
        bad.append(('equation_count', head + '%d solved equation(s) for a system of rank %d' % (len(lines), rank)))
    if len(set(deps)) != len(deps):
        bad.append(('repeated_lhs', head + 'a variable is solved for twice'))
    for ln in lines:
        extra = (_vars_of(ln.rhs) & set(deps)) | (_vars_of(ln.rhs) - set(names))
        if extra:
            bad.append(('rhs_not_free', head + 'right side of %r mentions %s' % (ln.text, sorted(extra))))
    if bad:
        return bad
    free = [v for v in names if v not in deps]
    exact = _exact_solution_terminates(A, d, deps, names)
    worst = None
    for vals in itertools.product(GRID, repeat=len(free)):
        e = dict(zip(free, vals))
        try:
            full = dict(e)
            for ln in lines:
                full[ln.lhs[1]] = rx._ev(ln.rhs, e)
        except rx.Undefined:
            return [('undefined_solved_form', head + 'solved form divides by zero at %s' % e)]
        for row, rhs in zip(A, d):
            res = sum(a * full[v] for a, v in zip(row, names)) - rhs
            if res != 0 and (exact or abs(res) > TOL):
                if worst is None or abs(res) > abs(worst[0]):
                    worst = (res, dict(full))
    if worst is not None:
        return [('residual', head + 'substituting the solved form at {%s} leaves residual %s (%.3g) in the original%s'
                 % (', '.join('%s=%s' % kv for kv in sorted(worst[1].items())), worst[0], float(worst[0]),
                    '' if exact else ' (beyond the 1e-9 allowance for non-terminating decimals)'))]
    return []


def _vars_of(node):
    return rx._vars(node, set())


def run_solve(case):
    import mystic.symbolic as ms
    kw = {}
    if case.get('variables'):
        kw['variables'] = list(case['variables'])
    if case.get('target'):
        kw['target'] = list(case['target'])
    try:
        with contextlib.redirect_stdout(io.StringIO()):
            return ('ok', ms.solve(case['text'], **kw))
    except Exception as e:
        return ('raised', '%s: %s' % (type(e).__name__, e))


def check_solve(T, case):
    A = [[F(c) for c in row] for row in case['rows']]
    d = [F(v) for v in case['d']]
    rank = _rank(A)
    if _rank([r + [x] for r, x in zip(A, d)]) != rank:
        T.hist('solve_system', 'inconsistent(skipped)')
        return
    T.count('traces')
    T.count('transitions', 1)
    full = rank == len(A)
    T.hist('solve_system', '%dx%d rank %d%s' % (len(A), len(case['names']), rank, '' if full else ' (consistent, rank deficient)'))
    status, out = run_solve(case)
    T.state(('solve', case['text'], repr(case.get('target')), status, out))
    if status == 'raised':
        problems = [('raised', 'solve(%r) raised %s for a consistent system' % (case['text'], out))]
    else:
        problems = judge_solve(case, out)
    if not problems:
        T.count('evaluations', len(GRID) ** (len(case['names']) - rank) * len(A))
        if rank < len(case['names']):
            T.nontriv(('solve', case['text'], repr(case.get('target'))))
        T.hist('solve_verdict', 'agrees')
        return
    for key, msg in problems:
        T.hist('solve_verdict', key)
        T.violate({'clause': 'solve', 'problem': key, 'shape': '%dx%d' % (len(A), len(case['names'])),
                   'full_row_rank': full, 'naming': 'x' if not case.get('variables') else 'list',
                   'target': bool(case.get('target'))}, case, msg)


def solve_cases(thorough):
    out = []

    def add(rows_alphabet, n, nrows, dsets, names, variables=None, targets=(None,)):
        rows = _rows(rows_alphabet, n)
        for combo in itertools.product(rows, repeat=nrows):
            for ds in dsets:
                for tg in targets:
                    text = '\n'.join(_line(r, names, '=', dd) for r, dd in zip(combo, ds))
                    out.append({'kind': 'solve', 'text': text, 'rows': [list(r) for r in combo], 'd': list(ds),
                                'names': list(names), 'variables': variables, 'target': tg})
    x2, x3 = ('x0', 'x1'), ('x0', 'x1', 'x2')
    d1 = [(d,) for d in DS]
    d2all = list(itertools.product(DS, repeat=2))
    d2q = [('0', '0'), ('-1', '2.5'), ('2.5', '0')]
    add(COEF, 2, 1, d1, x2)
    add(COEF if thorough else SMALL, 3, 1, d1, x3)
    add(COEF, 2, 2, d2all if thorough else d2q[:2], x2)
    add(('-2', '-0.5', '0', '1', '4') if thorough else SMALL, 3, 2, d2q[:2] if thorough else d2q[1:2], x3)
    # target order and naming schemes
    add(SMALL, 2, 2, d2q[1:2], x2, targets=(['x1', 'x0'], ['x1']))
    add(SMALL, 3, 2, d2q[1:2], x3, targets=(['x2', 'x1'],) if not thorough else (['x2', 'x1'], ['x1', 'x2', 'x0'], ['x2']))
    add(SMALL, 2, 2, d2q[1:2], ('a', 'b'), variables=['a', 'b', 'c'])
    add(SMALL, 2, 2, d2q[1:2], ('x1', 'x10'))
    # decimals whose integer part ends in 0 and whose first decimal is 0
    add(SMALL, 2, 1, [('10.05',), ('20.01',)], x2)
    add(SMALL, 2, 2, [('10.05', '20.01'), ('100.03', '0')], x2)
    return out


def shard_solve(cases):
    T = Tally()
    for case in cases:
        check_solve(T, case)
    if cases:
        T.sample({'solve_system': cases[0]['text'], 'target': cases[0]['target']}, limit=1)
    return T


# ================================================ linear_symbolic, symbolic_bounds
def _num(tok):
    """alphabet symbol -> the python number handed to mystic"""
    if tok == 'inf':
        return float('inf')
    if tok == '-inf':
        return -float('inf')
    if tok.lstrip('-').isdigit():
        return int(tok)
    return float(tok)


def _q(tok):
    """alphabet symbol -> its exact value (the decimal the caller wrote)"""
    if tok in ('inf', '-inf'):
        return _num(tok)
    return F(tok)


def run_linsym(case):
    import numpy
    import mystic.symbolic as ms

    def mat(M, flat):
        if M is None:
            return None
        M = [[_num(c) for c in row] for row in M]
        if flat:
            M = M[0]
        return numpy.array(M, dtype=float) if case.get('ndarray') else M

    def vec(v, nested):
        if v is None:
            return None
        v = [_num(c) for c in v]
        if case.get('ndarray'):
            return numpy.array([v] if nested else v, dtype=float)
        return [v] if nested else v
    kw = {}
    if case.get('variables') is not None:
        kw['variables'] = case['variables']
    try:
        with contextlib.redirect_stdout(io.StringIO()):
            return ('ok', ms.linear_symbolic(mat(case['A'], case.get('flatA')), vec(case['b'], case.get('nestb')),
                                             mat(case['G'], case.get('flatG')), vec(case['h'], case.get('nesth')), **kw))
    except Exception as e:
        return ('raised', '%s: %s' % (type(e).__name__, e))


def judge_linsym(case, out):
    names = case['names']
    head = 'linear_symbolic(A=%r, b=%r, G=%r, h=%r%s) -> %r: ' % (
        case['A'], case['b'], case['G'], case['h'],
        '' if case.get('variables') is None else ', variables=%r' % (case['variables'],), out)
    if not isinstance(out, str):
        return [('not_text', head + 'not a string')], 0
    try:
        lines = rx.parse_program(out)
    except rx.ParseError as e:
        return [('uninterpretable_result', head + str(e))], 0
    A = [[_q(c) for c in r] for r in (case['A'] or [])]
    b = [_q(c) for c in (case['b'] or [])] if case['A'] else []
    G = [[_q(c) for c in r] for r in (case['G'] or [])]
    h = [_q(c) for c in (case['h'] or [])] if case['G'] else []
    P = Points(names)
    pts = P.grid()
    seen = set(pts)
    for row, rhs in list(zip(A, b)) + list(zip(G, h)):     # points exactly on every row's boundary
        if isinstance(rhs, float):
            continue
        for i, a in enumerate(row):
            if a == 0:
                continue
            for rest in itertools.product(GRID, repeat=len(names) - 1):
                p = list(rest[:i]) + [None] + list(rest[i:])
                p[i] = (rhs - sum(c * x for j, (c, x) in enumerate(zip(row, p)) if j != i)) / a
                if tuple(p) not in seen:
                    seen.add(tuple(p))
                    pts.append(tuple(p))
    if any(not ln.variables <= set(names) for ln in lines):
        return [('wrong_variables', head + 'text mentions variables other than %r' % (names,))], 0
    for p in pts:
        want = all(sum(c * x for c, x in zip(row, p)) == rhs for row, rhs in zip(A, b)) and \
            all(sum(c * x for c, x in zip(row, p)) <= rhs for row, rhs in zip(G, h))
        got = all(P.holds(ln, p) is True for ln in lines)
        if want != got:
            return [('text_vs_matrices', head + 'at (%s) the matrices say %s, the text says %s'
                     % (_fmt_point(names, p), want, got))], len(pts)
    return [], len(pts)


def check_linsym(T, case):
    T.count('traces')
    T.count('transitions', 1)
    status, out = run_linsym(case)
    T.state(('linsym', repr(sorted(case.items())), status, out))
    if status == 'raised':
        T.hist('linear_symbolic_verdict', 'raised')
        T.violate({'clause': 'linear_symbolic', 'problem': 'raised', 'form': case['form']}, case,
                  'linear_symbolic(A=%r, b=%r, G=%r, h=%r) raised %s' % (case['A'], case['b'], case['G'], case['h'], out))
        return
    problems, n = judge_linsym(case, out)
    T.count('evaluations', n)
    if not problems:
        T.hist('linear_symbolic_verdict', 'agrees')
        T.nontriv(('linsym', out))
    for key, msg in problems:
        T.hist('linear_symbolic_verdict', key)
        T.violate({'clause': 'linear_symbolic', 'problem': key, 'form': case['form']}, case, msg)


ENTRIES = ('0', '0.5', '-2', '10.0', '1')
RHS = ('0', '0.5', '-2.0', '10.0')


def linsym_cases(thorough):
    out = []

    def add(form, A, b, G, h, names, **kw):
        c = {'kind': 'linsym', 'form': form, 'A': A, 'b': b, 'G': G, 'h': h, 'names': list(names), 'variables': None}
        c.update(kw)
        out.append(c)
    x2, x3 = ('x0', 'x1'), ('x0', 'x1', 'x2')
    rows2 = [list(r) for r in itertools.product(ENTRIES, repeat=2)]
    rows3 = [list(r) for r in itertools.product(('0', '0.5', '-2'), repeat=3)]
    for r in rows2:
        for v in RHS:
            add('A 1x2', [r], [v], None, None, x2)
            add('A flat row', [r], [v], None, None, x2, flatA=True)
            add('G 1x2', None, None, [r], [v], x2)
            add('G flat row', None, None, [r], [v], x2, flatG=True)
            add('A 1x2 ndarray', [r], [v], None, None, x2, ndarray=True)
            add('G 1x2 ndarray', None, None, [r], [v], x2, ndarray=True)
            add('G 1x2 variables=y', None, None, [r], [v], ('y0', 'y1'), variables='y')
            add('A 1x2 variables=list', [r], [v], None, None, ('a', 'b'), variables=['a', 'b'])
        for v in ('inf', '-inf'):
            add('G 1x2 infinite h', None, None, [r], [v], x2)
    for r in rows3:
        for v in RHS[:3]:
            add('A 1x3', [r], [v], None, None, x3)
            add('G 1x3', None, None, [r], [v], x3)
    small = [list(r) for r in itertools.product(('0', '0.5', '-2'), repeat=2)]
    rows = rows2 if thorough else small
    for r1 in rows:
        for r2 in rows:
            for vs in (('0', '10.0'), ('-2.0', '0.5')):
                add('A 2x2', [r1, r2], list(vs), None, None, x2)
                add('G 2x2', None, None, [r1, r2], list(vs), x2)
                add('A 2x2 nested b', [r1, r2], list(vs), None, None, x2, nestb=True)
                add('G 2x2 nested h', None, None, [r1, r2], list(vs), x2, nesth=True)
    for ra in small:
        for rg in small:
            for vb in ('0', '-2.0'):
                for vh in ('0.5', '10.0'):
                    add('A 1x2 + G 1x2', [ra], [vb], [rg], [vh], x2)
    for ra in small[1:4]:
        for rg1 in small:
            for rg2 in small:
                add('A 1x2 + G 2x2', [ra], ['0.5'], [rg1, rg2], ['0', '10.0'], x2)
    return out


def run_bounds(case):
    import mystic.symbolic as ms
    lo = [None if t is None else _num(t) for t in case['min']]
    hi = [None if t is None else _num(t) for t in case['max']]
    kw = {}
    if case.get('variables') is not None:
        kw['variables'] = case['variables']
    try:
        with contextlib.redirect_stdout(io.StringIO()):
            return ('ok', ms.symbolic_bounds(lo, hi, **kw))
    except ValueError as e:
        return ('ValueError', str(e))
    except Exception as e:
        return ('raised', '%s: %s' % (type(e).__name__, e))


BGRID = (F(-3), F(-2), F(-1, 2), F(0), F(1, 4), F(1, 2), F(1), F(10), F(11))


def judge_bounds(case, out):
    names = case['names']
    head = 'symbolic_bounds(min=%r, max=%r%s) -> %r: ' % (
        case['min'], case['max'], '' if case.get('variables') is None else ', variables=%r' % (case['variables'],), out)
    if not isinstance(out, str):
        return [('not_text', head + 'not a string')], 0
    try:
        lines = rx.parse_program(out)
    except rx.ParseError as e:
        return [('uninterpretable_result', head + str(e))], 0
    if any(not ln.variables <= set(names) for ln in lines):
        return [('wrong_variables', head + 'text mentions variables other than %r' % (names,))], 0
    lo = [-float('inf') if t is None else _q(t) for t in case['min']]
    hi = [float('inf') if t is None else _q(t) for t in case['max']]
    axis = []
    for l, u in zip(lo, hi):
        extra = [x for x in (l, u) if not isinstance(x, float)]
        extra += [x + s for x in extra for s in (F(-1, 1024), F(1, 1024))]
        axis.append(sorted(set(BGRID) | set(extra)))
    n = 0
    for p in itertools.product(*axis):
        n += 1
        want = all(l <= x <= u for l, x, u in zip(lo, p, hi))
        e = dict(zip(names, p))
        got = all(ln.holds(e) is True for ln in lines)
        if want != got:
            return [('text_vs_bounds', head + 'at (%s) the bounds say %s, the text says %s'
                     % (_fmt_point(names, p), want, got))], n
    return [], n


def check_bounds(T, case):
    T.count('traces')
    T.count('transitions', 1)
    lo = [-float('inf') if t is None else _num(t) for t in case['min']]
    hi = [float('inf') if t is None else _num(t) for t in case['max']]
    valid = all(l <= u for l, u in zip(lo, hi))
    status, out = run_bounds(case)
    T.state(('bounds', repr(sorted(case.items())), status, out))
    if status == 'ValueError' and not valid:
        T.hist('symbolic_bounds_verdict', 'rejected min > max')
        return
    if status != 'ok':
        T.hist('symbolic_bounds_verdict', 'raised')
        T.violate({'clause': 'symbolic_bounds', 'problem': 'raised', 'naming': case['naming']}, case,
                  'symbolic_bounds(min=%r, max=%r) raised %s although every min <= max' % (case['min'], case['max'], out))
        return
    if not valid:
        T.hist('symbolic_bounds_verdict', 'accepted min > max (text judged)')
    problems, n = judge_bounds(case, out)
    T.count('evaluations', n)
    if not problems:
        T.hist('symbolic_bounds_verdict', 'agrees')
        if out.strip():
            T.nontriv(('bounds', out))
    for key, msg in problems:
        T.hist('symbolic_bounds_verdict', key)
        T.violate({'clause': 'symbolic_bounds', 'problem': key, 'naming': case['naming']}, case, msg)


BOUND = (None, '-inf', 'inf', '0', '0.5', '-2', '10.0')
BOUND_EXTRA = ('100', '0.05', '-0.0', '1e-05', '1e+16', '-0.25', '1000000.0')


def bounds_cases(thorough):
    out = []

    def add(lo, hi, names, naming, variables):
        out.append({'kind': 'bounds', 'min': list(lo), 'max': list(hi), 'names': list(names),
                    'naming': naming, 'variables': variables})
    schemes = [(('x0', 'x1', 'x2'), 'default', None), (('y0', 'y1', 'y2'), 'base', 'y'),
               (('a', 'b', 'c'), 'list', ['a', 'b', 'c'])]
    pairs = list(itertools.product(BOUND, repeat=2))
    for names, naming, variables in schemes:
        v = (lambda k: variables if not isinstance(variables, list) else variables[:k])
        for lo, hi in pairs:
            add([lo], [hi], names[:1], naming, v(1))
        for (l0, h0), (l1, h1) in itertools.product(pairs, repeat=2):
            add([l0, l1], [h0, h1], names[:2], naming, v(2))
    extra = BOUND_EXTRA
    for names, naming, variables in schemes[:1 if not thorough else 3]:
        v = (lambda k: variables if not isinstance(variables, list) else variables[:k])
        for t in extra:
            add([t], [None], names[:1], naming, v(1))
            add([None], [t], names[:1], naming, v(1))
            add([t], [t], names[:1], naming, v(1))
            add(['-2', t], ['1e+16', t], names[:2], naming, v(2))
    small = (None, '0', '0.5', '-2')
    for names, naming, variables in schemes[:1 if not thorough else 3]:
        v = (lambda k: variables if not isinstance(variables, list) else variables[:k])
        for lo in itertools.product(small, repeat=3):
            for hi in itertools.product((None, '0.5', '10.0'), repeat=3):
                add(lo, hi, names, naming, v(3))
    return out


def shard_text(cases):
    T = Tally()
    for case in cases:
        if case['kind'] == 'linsym':
            check_linsym(T, case)
        else:
            check_bounds(T, case)
    if cases:
        T.sample({k: cases[0][k] for k in cases[0] if k in ('kind', 'A', 'b', 'G', 'h', 'min', 'max', 'variables')}, limit=1)
    return T


# ===================================================================== driver
def _dispatch(item):
    kind, payload = item
    if kind == 'simplify':
        return shard_simplify(payload)
    if kind == 'solve':
        return shard_solve(payload)
    return shard_text(payload)


def _weight(prog):
    lines = prog['text'].count('\n') + 1
    nv = len(prog['vars'])
    ineq = sum(1 for c in prog['cmps'].split(',') if c in ('<', '<=', '>=', '>'))
    if prog['bound'] is None:
        return 40 if ineq else 1
    w = {0: 1, 1: 6, 2: 25, 3: 60}.get(ineq, 60)
    return w * (1 if nv == 2 else 3) + lines


def _chunks(seq, weight, target):
    out, cur, acc = [], [], 0
    for x in seq:
        cur.append(x)
        acc += weight(x)
        if acc >= target:
            out.append(cur)
            cur, acc = [], 0
    if cur:
        out.append(cur)
    return out


def run(ctx):
    thorough = ctx.thorough
    progs = simplify_programs(thorough)
    for i, p in enumerate(progs):      # harness self-check of the solve memo: every program (thorough), every 4th (quick)
        p['validate'] = thorough or i % 4 == 0
    solves = solve_cases(thorough)
    texts = linsym_cases(thorough) + bounds_cases(thorough)
    # make sympy (imported lazily by mystic) resident before the workers fork
    import mystic.symbolic as ms
    with contextlib.redirect_stdout(io.StringIO()):
        ms.simplify('x0 + x1 < 1', all=True)
    items = [('simplify', c) for c in _chunks(progs, _weight, 400)]
    items.sort(key=lambda it: -sum(_weight(p) for p in it[1]))
    items += [('solve', c) for c in _chunks(solves, lambda c: 1, 150)]
    items += [('text', c) for c in _chunks(texts, lambda c: 1, 600)]
    fam = {}
    for p in progs:
        fam[p['family']] = fam.get(p['family'], 0) + 1
    ctx.bounds = {
        'simplify_programs': len(progs), 'simplify_families': fam,
        'coefficients': list(COEF), 'reduced_coefficients': list(SMALL), 'rhs': list(DS), 'comparators': list(CMPS),
        'two_line_rows(quick)': [list(p) for p in PAIRS_Q], 'two_line_three_variable_rows(thorough)': [list(t) for t in TRIPLES_T],
        'rand_answers': list(UNIT), 'rand_deviation_bound': 2, 'rand_rational_templates': 'complete tree',
        'evaluation_grid': [str(g) for g in GRID],
        'boundary_points': 'every variable a line is affine in solved exactly, others on the grid; for input lines and for returned lines; 2x2 intersections',
        'solve_systems': len(solves), 'linear_symbolic_cases': sum(1 for c in texts if c['kind'] == 'linsym'),
        'symbolic_bounds_cases': sum(1 for c in texts if c['kind'] == 'bounds'),
        'linear_symbolic_entries': list(ENTRIES), 'linear_symbolic_rhs': list(RHS) + ['inf', '-inf'],
        'bounds_alphabet': [str(b) for b in BOUND], 'bounds_extra': list(BOUND_EXTRA), 'bounds_grid': [str(g) for g in BGRID],
    }
    ctx.rule = ("simplify: every program is executed under every answer sequence of its rand() draws within the deviation bound "
                "(rational templates: all sequences); one trace per execution, one state per distinct (program, outcome); a program is "
                "non-trivial when a returned result differs from the input text and both satisfied and violated points exist among the "
                "judged points (so a wrong direction, a lost strictness or a lost case is visible).  solve: one trace per consistent system, "
                "non-trivial when free variables remain.  linear_symbolic / symbolic_bounds: one trace per call, non-trivial per distinct non-empty text.")
    ctx.assumptions = [
        "numeric literals are read as exact decimals by the reference interpreter; all simplify programs are dyadic so float and exact evaluation agree, boundary points are judged",
        "mystic.symbolic.solve is memoised per program while rand answers are explored (pure function of its arguments; first call real; every program (quick: every 4th) is re-run once without the memo and required to reproduce its outcome)",
        "an execution whose flip decision was taken at a test point on (or within 1e-12 of, or at a pole of) the boundary of the relation is a null event of the "
        "continuous generator the rand alphabet stands for: a result produced only by such executions is recorded in evidence (verdict histogram) and not raised",
        "rational templates are classified by outcome (DESIGN section 5): mismatches of programs whose cases carry more than one condition line are recorded as outside the stated class",
        "an exception from simplify is not a returned result (the statement says 'whenever simplify returns a result'); exception types are in the outcome histogram",
        "solve: residual must be exactly zero when the exact solved form has short terminating decimal coefficients, otherwise within 1e-9; inconsistent systems are outside the statement",
    ]
    ctx.explanation = ("E3 over constraint programs / systems / matrices / bound vectors, E2 over the rand= hook of _simplify1; "
                       "oracle = exact rational evaluation (ref/ratexpr12.py) of input and output text at grid and constructed boundary points")
    ctx.pmap(_dispatch, items)


def replay(case):
    kind = case.get('kind')
    if kind == 'simplify':
        T = Tally()
        names = tuple(case['vars'])
        in_lines = rx.parse_program(case['text'])
        P = Points(names)
        base = P.grid()
        for p in [q for ln in in_lines for q in P.boundary(ln)] + _intersection(case):
            if p not in base:
                base.append(p)
        with Instr() as I:
            I.use_memo = False
            outcome, draws, degenerate = run_simplify(case, tree.ReplayChooser(case['choices']), I)
        if outcome[0] == 'raised':
            return []
        if outcome[0] == 'other':
            return ['simplify(%r) returned %s' % (case['text'], outcome[1])]
        cases = () if outcome[0] == 'none' else outcome[1]
        J = judge_cases(case, in_lines, P, base, cases)
        if J['problem']:
            return ['simplify(%r, all=True) -> %r: %s' % (case['text'], cases, J['problem'])]
        out = []
        for p, direction, pkind in J['mism'][:5]:
            out.append('simplify(%r%s, all=True, rand answers %s) -> %r: (%s) %s [%s]%s'
                       % (case['text'], '' if not case.get('variables') else ', variables=%r' % case['variables'],
                          draws, cases if outcome[0] != 'none' else None, _fmt_point(names, p),
                          'satisfies the input but no returned case' if direction == 'loses'
                          else 'violates the input but satisfies a returned case', pkind,
                          ' [test point on the boundary]' if degenerate else ''))
        return out
    if kind == 'solve':
        status, out = run_solve(case)
        if status == 'raised':
            return ['solve(%r) raised %s' % (case['text'], out)]
        return [m for _, m in judge_solve(case, out)]
    if kind == 'linsym':
        status, out = run_linsym(case)
        if status == 'raised':
            return ['linear_symbolic raised %s' % out]
        return [m for _, m in judge_linsym(case, out)[0]]
    if kind == 'bounds':
        status, out = run_bounds(case)
        if status != 'ok':
            return ['symbolic_bounds raised %s' % out]
        return [m for _, m in judge_bounds(case, out)[0]]
    return ['unknown replay case kind %r' % kind]
