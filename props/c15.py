"""C15 - penalty methods are zero on the feasible set and follow their formulas.

Engine E1 over penalty objects + E3 over evaluation points.  For every
configuration (penalty types x conditions x k x h per nesting level, build mode,
store points) every operation sequence up to a depth over
{iter(), iter(2), clear(), store(xa), store(xb,1)} is run on a freshly built *real*
penalty (mystic.penalty / constraints.with_penalty / constraints.as_penalty) in lock
step with the reference model ref/penalty.py, which keeps (n, stored multipliers)
per level and evaluates the documented expression of each type.

After every operation, at every nesting level: iteration(), stored(), stored(i) and
the complete closure state (walked cell by cell) are compared with the model; at
every distinct canonical state penalty(x) and error(x) are compared at every grid
point, the zero-on-feasible / strictly-positive-on-violation / inf-on-
ZeroDivisionError clauses are judged from the implementation's own values, and the
evaluation is required to leave the canonical state untouched.

Second family ("worlds"): several penalty objects that must keep iteration state of
their own.  (a) nests whose levels are OUT OF STEP: inner penalties are iterated /
cleared / stored before being wrapped (build modes `pre`) and operations are
addressed to inner levels as well as to the outermost one - an operation reaches the
addressed penalty and everything it decorates, each level counting from where it
stands; (b) the penalty combinators coupler.and_/or_/not_ over 1, 2, 3 members (with
and without k= / h= / ptype= settings, bare and decorated by a further penalty):
operations are addressed to the combination, to the penalty decorating it and to every
member; after every operation every object of the world is compared with the model
(operating on one object must leave the others' own state alone), and at every
distinct joint state every object is evaluated at every grid point.
"""
import itertools, math
from mc.runner import Tally
from ref import penalty as R

INF = float('inf')

# ------------------------------------------------------------------ alphabets
GRID = [-2.0, -1.0, 0.0, 0.5, 1.0, 2.0, 3.0]
KS = [1, 20, 100]
HS = [1, 5]
TYPES = list(R.TYPES)

OPS = [['iter'], ['iter', 2], ['clear'], ['store', 'xa'], ['store', 'xb', 1], ['store', 'xb', 0]]
OPNAMES = ['iter()', 'iter(2)', 'clear()', 'store(xa)', 'store(xb,1)', 'store(xb,0)']


def at(o, l, *b):
    """an operation addressed to level l of object o of a world (a plain op goes to object 0, level 0)"""
    return ['@', o, l] + list(b)


def op_parse(op):
    """-> (object, level, [name, args...])"""
    if op[0] == '@':
        return op[1], op[2], list(op[3:])
    return 0, 0, list(op)


def op_text(op, roles=None):
    o, l, b = op_parse(op)
    t = '%s(%s)' % (b[0], ','.join(str(a) for a in b[1:]))
    if roles is None:
        return t if (o, l) == (0, 0) else t + '@%d.%d' % (o, l)
    return t + roles[o][l]

# store points.  S0: every condition finite, xa gives positive samples, xb negative ones.
# S1: xb is singular for 1/x0 (the store must record +inf), xa gives mixed signs.
STORESETS = {
    'S0': {'xa': [3.0, -1.0], 'xb': [-2.0, 0.5]},
    'S1': {'xa': [0.5, 1.0], 'xb': [0.0, -1.0]},
}


# conditions: `ref` is the model's own definition; `impl` is what mystic is given (two of them
# receive their constant through the penalty's args / kwds so that routing is exercised).
def _c_x0m1(x, t): return x[0] - t
def _c_sq(x, t=0.0): return x[0] ** 2 - t
def _c_inv(x): return 1.0 / x[0]
def _c_sum(x): return x[0] + x[1]

def _r_x0m1(x): return x[0] - 1.0
def _r_sq(x): return x[0] * x[0] - 4.0
def _r_inv(x): return 1.0 / x[0]          # raises ZeroDivisionError at 0
def _r_sum(x): return x[0] + x[1]

CONDS = {
    'x0-1':    {'dim': 1, 'impl': _c_x0m1, 'args': (1.0,), 'kwds': None, 'ref': _r_x0m1},
    'x0**2-4': {'dim': 1, 'impl': _c_sq, 'args': None, 'kwds': {'t': 4.0}, 'ref': _r_sq},
    '1/x0':    {'dim': 1, 'impl': _c_inv, 'args': None, 'kwds': None, 'ref': _r_inv},
    'x0+x1':   {'dim': 2, 'impl': _c_sum, 'args': None, 'kwds': None, 'ref': _r_sum},
}
CONDNAMES = ['x0-1', 'x0**2-4', '1/x0', 'x0+x1']
# not_ calls the member's condition without the member's args / kwds (outside this statement): its members
# use conditions that take none
CONDS['x0-1 (plain)'] = {'dim': 1, 'impl': _r_x0m1, 'args': None, 'kwds': None, 'ref': _r_x0m1}
CONDS['x0**2-4 (plain)'] = {'dim': 1, 'impl': _r_sq, 'args': None, 'kwds': None, 'ref': _r_sq}
PLAINCONDS = ['x0-1 (plain)', 'x0**2-4 (plain)', '1/x0', 'x0+x1']

# constraints for as_penalty: the condition is the distance the constraint moves x
def _k_clamp(x): x = list(x); x[0] = min(x[0], 1.0); return x
def _k_pin(x): x = list(x); x[0] = 2.0; return x
def _k_tie(x): x = list(x); x[1] = x[0]; return x

def _r_clamp(x): return max(0.0, x[0] - 1.0)
def _r_pin(x): return abs(x[0] - 2.0)
def _r_tie(x): return abs(x[1] - x[0])

CONSTRAINTS = {
    'clamp x0<=1': {'dim': 1, 'impl': _k_clamp, 'ref': _r_clamp},
    'pin x0=2':    {'dim': 1, 'impl': _k_pin, 'ref': _r_pin},
    'tie x1=x0':   {'dim': 2, 'impl': _k_tie, 'ref': _r_tie},
}
CONSNAMES = ['clamp x0<=1', 'pin x0=2', 'tie x1=x0']


def base(x): return 0.5 * x[0] + 0.25
def zero(x): return 0.0


def points(dim):
    return [list(p) for p in itertools.product(GRID, repeat=dim)]


WORLD_X1 = [-2.0, 0.5, 2.0]      # worlds in two dimensions: the whole grid for x0, three values of x1 (x0+x1 takes all three signs)


def world_points(dim):
    return points(1) if dim == 1 else [[a, b] for a in GRID for b in WORLD_X1]


# ------------------------------------------------------------------ building
def cfg_dim(cfg):
    table = CONSTRAINTS if cfg['mode'] == 'as_penalty' else CONDS
    return max(table[l[1]]['dim'] for l in cfg['levels'])


def cfg_base(cfg):
    b = cfg.get('base')
    if b is None:
        b = 'base' if cfg['mode'] == 'decorate' else 'zero'
    return base if b == 'base' else zero


def cfg_pre(cfg):
    """per level: the operations issued on that level right after it is built, before it is wrapped"""
    pre = cfg.get('pre')
    return [list(p) for p in pre] if pre else [[] for l in cfg['levels']]


def build_ref(cfg, sp=None):
    table = CONSTRAINTS if cfg['mode'] == 'as_penalty' else CONDS
    levels = [R.Level(t, table[c]['ref'], k, h) for t, c, k, h in cfg['levels']]
    ref = R.Stack(levels, cfg_base(cfg))
    pre = cfg_pre(cfg)
    for j in reversed(range(len(levels))):      # innermost first, as the real stack is built
        for op in pre[j]:
            ref.apply(op, sp, j)
    return ref


def real_op(p, b, sp):
    """issue the operation b = [name, args...] on the real penalty p"""
    if b[0] == 'iter':
        return p.iter(*b[1:])
    if b[0] == 'clear':
        return p.clear()
    if b[0] == 'store':
        return p.store(list(sp[b[1]]), *b[2:])
    raise ValueError(b)


def build_impl(cfg, sp=None):
    """-> (list of the real penalty functions, outermost first; tags: id -> name for canon)"""
    import mystic.penalty as mp
    mode = cfg['mode']
    tags = {id(base): 'base', id(zero): 'zero'}
    funcs = []
    if mode == 'decorate':
        f = cfg_base(cfg)
        pre = cfg_pre(cfg)
        for j, (t, c, k, h) in reversed(list(enumerate(cfg['levels']))):
            C = CONDS[c]
            kw = {}
            if k is not None: kw['k'] = k
            if h is not None: kw['h'] = h
            if C['args'] is not None: kw['args'] = C['args']
            if C['kwds'] is not None: kw['kwds'] = C['kwds']
            tags[id(C['impl'])] = 'cond:' + c
            f = getattr(mp, t)(C['impl'], **kw)(f)
            funcs.insert(0, f)
            for op in pre[j]:
                real_op(f, op, sp)
    elif mode == 'with_penalty':
        import mystic.constraints as mc
        (t, c, k, h), = cfg['levels']
        C = CONDS[c]
        kw = {}
        if k is not None: kw['k'] = k
        if h is not None: kw['h'] = h
        if C['args'] is not None: kw['args'] = C['args']
        if C['kwds'] is not None: kw['kwds'] = C['kwds']
        tags[id(C['impl'])] = 'cond:' + c
        funcs = [mc.with_penalty(getattr(mp, t), **kw)(C['impl'])]
    elif mode == 'as_penalty':
        import mystic.constraints as mc
        (t, c, k, h), = cfg['levels']
        C = CONSTRAINTS[c]
        kw = {}
        if k is not None: kw['k'] = k
        if h is not None: kw['h'] = h
        tags[id(C['impl'])] = 'constraint:' + c
        funcs = [mc.as_penalty(C['impl'], getattr(mp, t), **kw)]
    else:
        raise ValueError(mode)
    for j, p in enumerate(funcs):
        tags[id(p)] = 'level%d' % j
    return funcs, tags


# ------------------------------------------------------------------ canonical form
_OWN = ('error', 'iter', 'iteration', 'store', 'stored', 'clear')


def _cv(v, tags):
    t = tags.get(id(v))
    if t is not None:
        return t
    tp = type(v)
    if tp is int or tp is str or tp is bool or v is None:
        return v if tp is not bool else repr(v)
    if tp is float:
        return v.hex() if v == v and abs(v) != INF else repr(v)
    if tp is list or tp is tuple:
        return (tp.__name__,) + tuple([_cv(e, tags) for e in v])
    if tp is dict:
        return ('dict',) + tuple(sorted([(repr(k), _cv(e, tags)) for k, e in v.items()]))
    if callable(v):
        return ('fn', getattr(v, '__qualname__', tp.__name__))
    try:
        return ('num', float(v).hex())
    except Exception:
        return ('obj', tp.__name__, repr(v))


def cellmap(p):
    """every closure cell of the whole closure family of one level, by name; nothing is dropped"""
    cells = {}
    fam = [('', p)] + [(a, getattr(p, a, None)) for a in _OWN]
    for a, fn in fam:
        if fn is None or getattr(fn, '__closure__', None) is None:
            continue
        for name, cell in zip(fn.__code__.co_freevars, fn.__closure__):
            prev = cells.get(name)
            if prev is not None and prev is not cell:
                name = a + '.' + name       # same name, different cell: keep both
            cells[name] = cell
    mut = [(n, cells[n]) for n in ('_n', '_y') if n in cells]
    rest = sorted((n, c) for n, c in cells.items() if n not in ('_n', '_y'))
    return mut, rest


def _cell(c):
    try:
        return c.cell_contents
    except ValueError:
        return '<empty cell>'


def canon(p, tags, cm=None):
    """(mutable part = cells _n and _y, rest = every other closure cell and attribute) of one level"""
    mut, rest = cm or cellmap(p)
    mutable = tuple([(n, _cv(_cell(c), tags)) for n, c in mut])
    rest = tuple([(n, _cv(_cell(c), tags)) for n, c in rest])
    attrs = tuple(sorted([(k, _cv(v, tags)) for k, v in p.__dict__.items()]))
    return mutable, (rest, attrs)


def raw_state(p):
    """(_n list, _y list) read straight from the closure of `iteration` / `stored`"""
    out = {}
    for a in ('iteration', 'stored', 'clear'):
        fn = getattr(p, a)
        for name, cell in zip(fn.__code__.co_freevars, fn.__closure__ or ()):
            if name in ('_n', '_y'):
                out[name] = cell.cell_contents
    return out.get('_n'), out.get('_y')


# ------------------------------------------------------------------ comparison
def agree(got, want, scale):
    """True / False, or None when the documented expression is indeterminate (inf-inf)"""
    try:
        got = float(got)
    except Exception:
        return False
    if want != want:
        return None if (got != got or abs(got) == INF) else False
    if abs(want) == INF:
        return got == want
    if got != got or abs(got) == INF:
        return False
    if scale == 0 and want == 0:
        return got == 0
    return abs(got - want) <= 1e-12 * max(scale, abs(want))


def _fl(v):
    try:
        return float(v)
    except Exception:
        return float('nan')


# ------------------------------------------------------------------ one history
class Run(object):
    """a freshly built implementation + model pair for one configuration"""

    def __init__(self, cfg, rest0=None, built=None, role=None):
        self.cfg = cfg
        self.role = role          # None: the single object of a nest; else 'combination' / 'member0' / ...
        self.sp = STORESETS[cfg['store']]
        if built is None:
            self.funcs, self.tags = build_impl(cfg, self.sp)
            self.ref = build_ref(cfg, self.sp)
            self.dim = cfg_dim(cfg)
            self.ptypes = [l[0] for l in cfg['levels']]
            self.f0 = cfg_base(cfg)
        else:
            self.funcs, self.tags, self.ref, self.dim, self.ptypes = built
            self.f0 = zero
        self.mode = cfg['mode']
        self.D = len(self.funcs)
        self.roles = ['' if j == 0 else '@L%d' % j for j in range(self.D)]
        self._cm = None
        self.pts = None           # evaluation points (default: the whole grid in the object's dimension)
        # canonical form of everything but (n, store) right after construction; it does not depend on
        # object identities, so the one taken from the first build of a configuration serves all rebuilds.
        # With build-time operations (`pre`) it is taken from a twin built without them.
        if rest0 is not None:
            self.rest0 = rest0
        elif built is None and any(cfg_pre(cfg)):
            twin = dict(cfg); twin['pre'] = None
            self.rest0 = Run(twin).rest0
        else:
            self.rest0 = [c[1] for c in self.canons()]

    def canons(self):
        if self._cm is None:
            self._cm = [cellmap(p) for p in self.funcs]
        return [canon(p, self.tags, cm) for p, cm in zip(self.funcs, self._cm)]

    STATE_CLAUSES = ('iteration', 'stored', 'stored(i)', 'rest_touched', 'clear_resets', 'op_raised', 'accessor_raised')

    def sig(self, clause, j, op=None):
        """categorical: clause, type of the level at fault, build mode, inner/outer level; the operation
        only for the clauses about iteration state (value clauses do not depend on the last op)"""
        sig = {'clause': clause, 'ptype': self.ptypes[j], 'inner_level': j > 0,
               'mode': self.mode, 'op': op if clause in self.STATE_CLAUSES else None}
        if self.role is not None:
            sig['object'] = self.role.rstrip('0123456789')
        return sig

    def apply(self, op, level=0):
        """issue op = [name, args...] on the real penalty of the given level (it reaches that level and what it
        decorates) and on the model; returns exception text or None"""
        try:
            real_op(self.funcs[level], op, self.sp)
        except Exception as e:   # an exception is an outcome to judge
            return '%s: %s' % (type(e).__name__, e)
        self.ref.apply(op, self.sp, level)
        return None

    def key(self, canons=None):
        return tuple(c[0] for c in (canons or self.canons()))

    # -- cheap checks after an operation ----------------------------------
    def check_state(self, ops, out, opname=None, cleared=None):
        """out: list collecting (sig, detail, extra-case); returns the canonical forms of the levels.
        cleared: the levels the last operation, a clear(), reached (default: all when the last op is a plain clear)"""
        if opname is None:
            opname = op_text(ops[-1]) if ops else None
        if cleared is None:
            cleared = range(self.D) if ops and ops[-1][0] == 'clear' else ()
        who = '' if self.role is None else self.role + ' '
        cans = self.canons()
        for j, p in enumerate(self.funcs):
            L = self.ref.levels[j]
            try:
                n = p.iteration()
                y = p.stored()
                yi = [p.stored(i) for i in range(L.ylen + 2)] + [p.stored(slice(0, 2))]
            except Exception as e:
                out.append((self.sig('accessor_raised', j, opname), '%slevel %d iteration()/stored() raised %r' % (who, j, e), {}))
                continue
            if n != L.n:
                out.append((self.sig('iteration', j, opname),
                            '%slevel %d (%s): iteration() = %r, model %r' % (who, j, self.ptypes[j], n, L.n), {'level': j}))
            if list(y) != L.stored():
                out.append((self.sig('stored', j, opname),
                            '%slevel %d (%s): stored() = %r, model %r' % (who, j, self.ptypes[j], y, L.stored()), {'level': j}))
            want = [L.stored(i) for i in range(L.ylen + 2)] + [L.stored()[0:2]]
            if yi != want:
                out.append((self.sig('stored(i)', j, opname),
                            '%slevel %d (%s): [stored(i) for i<%d] + [stored(slice(0,2))] = %r, model %r' % (who, j, self.ptypes[j], L.ylen + 2, yi, want), {'level': j}))
            mut, rest = cans[j]
            if rest != self.rest0[j]:
                diff = [a for a, b in zip(rest[0] + rest[1], self.rest0[j][0] + self.rest0[j][1]) if a != b]
                out.append((self.sig('rest_touched', j, opname),
                            '%slevel %d (%s): %s changed something other than (n, store): %r' % (who, j, self.ptypes[j], opname, diff[:3]), {'level': j}))
            if j in cleared:
                _n, _y = raw_state(p)
                if _n != [0] or _y != []:
                    out.append((self.sig('clear_resets', j, opname),
                                '%slevel %d (%s): after clear() closure holds n=%r store=%r (expected [0], [])' % (who, j, self.ptypes[j], _n, _y), {'level': j}))
        return cans

    # -- evaluation at every grid point ------------------------------------
    def check_points(self, ops, out, H, opname=None, purity=True):
        cfg = self.cfg
        if opname is None:
            opname = op_text(ops[-1]) if ops else None
        pts = self.pts if self.pts is not None else points(self.dim)
        f0 = self.f0
        who = '' if self.role is None else self.role + ': '
        before = self.canons() if purity else None
        nz = 0
        mult = [L.multiplier() for L in self.ref.levels]
        for x in pts:
            got = []
            wants = self.ref.values_all(x)
            werrs = self.ref.errors_all(x)
            wescs = self.ref.error_scales_all(x)
            badv = bade = None      # a wrong inner level makes every level around it wrong: blame the innermost
            for j, p in enumerate(self.funcs):
                try:
                    g = p(list(x))
                except Exception as e:
                    out.append((self.sig('eval_raised', j, opname), 'level %d penalty(%r) raised %r' % (j, x, e), {'level': j, 'x': x}))
                    g = float('nan')
                got.append(g)
                want, scale = wants[j]
                ok = agree(g, want, scale)
                if ok is None:
                    H['value:indeterminate(inf-inf) not judged'] = H.get('value:indeterminate(inf-inf) not judged', 0) + 1
                elif not ok:
                    badv = (j, g, want)
                try:
                    e = p.error(list(x))
                except Exception as ex:
                    out.append((self.sig('error_raised', j, opname), 'level %d error(%r) raised %r' % (j, x, ex), {'level': j, 'x': x}))
                    e = float('nan')
                if not agree(e, werrs[j], wescs[j]):
                    bade = (j, e, werrs[j])
            if badv is not None:
                j, g, want = badv
                out.append((self.sig('value', j, opname),
                            '%spenalty(%r) of level %d.. = %r, documented expression gives %r  [levels %r, model state (n, stored) %r]'
                            % (who, x, j, _fl(g), want, cfg['levels'][j:], [l.state() for l in self.ref.levels[j:]]),
                            {'level': j, 'x': x}))
            if bade is not None:
                j, e, we = bade
                out.append((self.sig('error', j, opname),
                            '%serror(%r) of level %d.. = %r, violation magnitude is %r  [levels %r]'
                            % (who, x, j, _fl(e), we, cfg['levels'][j:]), {'level': j, 'x': x}))
            got.append(f0(x))
            # clauses judged from the implementation's own values, level by level
            for j in range(self.D):
                L = self.ref.levels[j]
                a, b = _fl(got[j]), _fl(got[j + 1])
                t = L.ptype
                if L.combo:
                    # zero exactly where all / any members are zero is C17's clause; here the value is compared
                    # with the model (above), whose condition is made of the members' current values
                    hk = self.ptypes[j] + '|combination: value and error compared with the model'
                    H[hk] = H.get(hk, 0) + 1
                    if a != b: nz += 1
                    continue
                sat = L.satisfied(x)
                if sat is None:
                    hk = 'zde->inf'
                    if a != INF:
                        out.append((self.sig('zerodivision_inf', j, opname),
                                    '%s condition divides by zero at %r but penalty = %r (expected inf)' % (t, x, a), {'level': j, 'x': x}))
                elif t == 'barrier_inequality':
                    hk = 'barrier:' + ('outside' if not sat else ('boundary' if L.c(x) == 0 else 'interior(documented log term)'))
                    if a != b: nz += 1
                elif t in R.LAGRANGE and mult[j] != 0:
                    d = a - b
                    hk = 'lagrange,multiplier!=0:%s:%s' % ('feasible' if sat else 'violated',
                                                          'nan' if d != d else ('+' if d > 0 else ('-' if d < 0 else '0')))
                    if a != b: nz += 1
                elif sat:
                    hk = 'feasible->exactly f'
                    if not (a == b or (a != a and b != b)):
                        out.append((self.sig('zero_on_feasible', j, opname),
                                    '%s: condition satisfied at %r but penalty = %r differs from the decorated value %r' % (t, x, a, b),
                                    {'level': j, 'x': x}))
                else:
                    if b != b or b == -INF:
                        hk = 'violated:inner not finite, not judged'
                    elif b == INF:
                        hk = 'violated:inner inf'
                        if a != INF:
                            out.append((self.sig('positive_on_violation', j, opname),
                                        '%s: violated at %r, inner value inf but penalty = %r' % (t, x, a), {'level': j, 'x': x}))
                    else:
                        hk = 'violated->strictly above f'
                        nz += 1
                        if not a > b:
                            out.append((self.sig('positive_on_violation', j, opname),
                                        '%s: condition violated at %r but penalty = %r is not above the decorated value %r' % (t, x, a, b),
                                        {'level': j, 'x': x}))
                hk = t + '|' + hk
                H[hk] = H.get(hk, 0) + 1
        after = self.canons() if purity else None
        if after != before:
            j = [i for i in range(self.D) if after[i] != before[i]][0]
            out.append((self.sig('evaluation_not_pure', j, opname),
                        'evaluating penalty/error changed the closure state of level %d: %r -> %r' % (j, before[j][0], after[j][0]), {'level': j}))
        return nz, len(pts) * self.D


def check_attributes(run, out):
    """func / ptype attributes of every level (with_penalty and as_penalty re-label them)"""
    cfg = run.cfg
    for j, p in enumerate(run.funcs):
        t, c = cfg['levels'][j][:2]
        if getattr(p, 'ptype', None) != t:
            out.append((run.sig('attr_ptype', j), 'level %d: .ptype = %r, expected %r' % (j, getattr(p, 'ptype', None), t), {'level': j}))
        if cfg['mode'] != 'as_penalty' and getattr(p, 'func', None) is not CONDS[c]['impl']:
            out.append((run.sig('attr_func', j), 'level %d: .func is not the condition it was built from' % j, {'level': j}))


def explore_config(cfg, depth, T, H):
    """every op sequence of length 0..depth, shortest first, each on a freshly built object (the model
    in lock step); the comparison after the last op of each sequence (its prefixes are sequences of
    their own); point evaluation once per distinct canonical state of the configuration"""
    seen = set()       # canonical states already evaluated at every point
    dead = set()       # sequences that ended in an exception: their extensions are not run
    rest0 = None
    for n in range(depth + 1):
        for seq in itertools.product(range(len(OPS)), repeat=n):
            if n and seq[:-1] in dead:
                continue
            run = Run(cfg, rest0)
            ops = [OPS[k] for k in seq]
            out = []
            T.count('traces')
            T.count('transitions', n)
            if n == 0:
                rest0 = run.rest0
                check_attributes(run, out)
            exc = None
            for op in ops:
                exc = run.apply(op)
                if exc is not None:
                    break
            if exc is not None:
                dead.add(seq)
                out.append((run.sig('op_raised', 0, OPNAMES[seq[-1]]), '%s raised %s' % (OPNAMES[seq[-1]], exc), {}))
                _flush(T, cfg, ops, out)
                continue
            key = run.key(run.check_state(ops, out))
            if key not in seen:
                seen.add(key)
                nz, ne = run.check_points(ops, out, H)
                T.count('evaluations', 2 * ne)
                T.count('states')
                fresh = all(s == (0, ()) for s in run.ref.state())
                if nz and not fresh:
                    T.count('nontrivial_states')
                    T.nontriv((_cfgkey(cfg), key))
            _flush(T, cfg, ops, out)
    H['states/config:%d' % min(len(seen), 99)] = H.get('states/config:%d' % min(len(seen), 99), 0) + 1


def _cfgkey(cfg):
    return (cfg['mode'], cfg['store'], tuple(tuple(l) for l in cfg['levels']))


def _flush(T, cfg, ops, out):
    for sig, detail, extra in out:
        case = {'cfg': cfg, 'ops': ops}
        case.update(extra)
        T.violate(sig, case, detail + '  [after ops %s; cfg %s]' % ([OPNAMES[OPS.index(o)] for o in ops], _cfgtext(cfg)))


def _cfgtext(cfg):
    return '%s/%s %s' % (cfg['mode'], cfg['store'], ' > '.join('%s(%s,k=%s,h=%s)' % tuple(l) for l in cfg['levels']))


def shard(item):
    cfgs, depth = item
    T = Tally()
    H = {}
    for cfg in cfgs:
        explore_config(cfg, depth, T, H)
        T.hist('configs', 'depth%d/%s' % (len(cfg['levels']), cfg['mode']))
    for k, v in H.items():
        if k.startswith('states/config:'):
            T.hist('distinct_states_per_config', k.split(':')[1], v)
        else:
            T.hist('clause_outcomes', k, v)
    T.sample({'cfg': _cfgtext(cfgs[0]), 'ops': 'all %d sequences of length <= %d' % (sum(len(OPS) ** i for i in range(depth + 1)), depth)}, limit=1)
    return T


# ------------------------------------------------------------------ worlds: several objects, addressed operations
class World(object):
    """the objects of one configuration, each a Run (real penalties + model):
         {'kind': 'nest', 'cfg': cfg}                                   one nest; operations go to any of its levels
         {'kind': 'combo', 'comb': 'and_'|'or_'|'not_', 'members': [cfg, ...], 'settings': {...}, 'wrap': level|None}
                                                                        object 0 = the combination (levels: [wrapper,] combination),
                                                                        objects 1.. = its members
    """

    def __init__(self, w, rest0=None):
        self.w = w
        rest0 = rest0 or {}
        if w['kind'] == 'nest':
            self.runs = [Run(w['cfg'], rest0.get(0))]
            self.mode = w['cfg']['mode']
            dim = self.runs[0].dim
        else:
            members = [Run(m, rest0.get(i + 1), role='member%d' % i) for i, m in enumerate(w['members'])]
            for i, m in enumerate(members):
                m.roles = ['@member%d' % i]
            self.runs = [build_combo(w, members, rest0.get(0))] + members
            self.mode = w['comb']
            dim = max(r.dim for r in self.runs)
        for r in self.runs:              # every object is evaluated at the same points
            r.dim = dim
            r.pts = world_points(dim)
        self.rest0 = dict((i, r.rest0) for i, r in enumerate(self.runs))
        self.roles = [r.roles for r in self.runs]

    def apply(self, op):
        o, l, b = op_parse(op)
        return self.runs[o].apply(b, l)

    def fresh(self):
        return all(s == (0, ()) for r in self.runs for s in r.ref.state())

    def key(self, cans):
        return tuple(tuple(c[0] for c in cs) for cs in cans)

    def skew(self):
        """categorical: are the iteration counts of the world's levels / objects equal or not (non-vacuity histogram)"""
        ns = [[L.n for L in r.ref.levels] for r in self.runs]
        kind = 'nest levels' if self.w['kind'] == 'nest' else 'combination and members'
        eq = len(set(n for l in ns for n in l)) == 1
        return '%s: %s' % (kind, 'iteration counts equal' if eq else 'iteration counts differ')

    def unjudged(self):
        """the statement does not say under which iteration an inner Lagrange level files a sample that reaches it
        through an outer Lagrange level standing at another iteration: such a history is not judged from there on"""
        return any(r.ref.store_handed_down for r in self.runs)

    def check_state(self, ops, out):
        """every object of the world after the last operation, whichever object it was addressed to"""
        opname, cleared = None, {}
        if ops:
            o, l, b = op_parse(ops[-1])
            opname = op_text(ops[-1], self.roles)
            if b[0] == 'clear':
                cleared[o] = range(l, self.runs[o].D)
        return [r.check_state(ops, out, opname, cleared.get(i, ())) for i, r in enumerate(self.runs)]

    def check_points(self, ops, out, H):
        opname = op_text(ops[-1], self.roles) if ops else None
        before = [r.key() for r in self.runs]
        nz = ne = 0
        member_wrong = False
        for r in self.runs[1:] + self.runs[:1]:         # members first
            mine = []
            a, b = r.check_points(ops, mine, H, opname, purity=False)     # purity is judged below, over all objects
            nz += a; ne += b
            if r.role == 'combination' and member_wrong:
                # the combination's condition is made of the members' values: a wrong member is blamed once, as the member
                keep = [m for m in mine if not (m[0]['clause'] in ('value', 'error') and m[0]['ptype'] in ('and_', 'or_'))]
                if len(keep) < len(mine):
                    H['combination not judged where a member is wrong'] = H.get('combination not judged where a member is wrong', 0) + len(mine) - len(keep)
                mine = keep
            elif any(m[0]['clause'] in ('value', 'error', 'eval_raised', 'error_raised') for m in mine):
                member_wrong = True
            out.extend(mine)
        after = [r.key() for r in self.runs]
        for i, r in enumerate(self.runs):
            if after[i] != before[i]:       # evaluating an object moved its own or another one's state
                j = [k for k in range(r.D) if after[i][k] != before[i][k]][0]
                out.append((r.sig('evaluation_not_pure', j, opname),
                            'evaluating penalty/error of the objects of the world changed the closure state of %slevel %d: %r -> %r'
                            % (r.role + ' ' if r.role else '', j, before[i][j], after[i][j]), {'level': j}))
        return nz, ne


def build_combo(w, members, rest0=None):
    """the real and_/or_/not_ of the members' real penalties (+ the penalty decorating it) and its model -> Run"""
    import mystic.penalty as mp
    import mystic.coupler as cp
    kind = w['comb']
    st = dict(w.get('settings') or {})
    kw = dict(st)
    if kw.get('ptype'):
        kw['ptype'] = getattr(mp, kw['ptype'])
    if kind == 'not_':
        c = cp.not_(members[0].funcs[0], **kw)
        lev = R.not_level(members[0].ref.levels[0], st)
    else:
        c = getattr(cp, kind)(*[m.funcs[0] for m in members], **kw)
        lev = R.ComboLevel(kind, [m.ref for m in members], st)
    funcs, levels = [c], [lev]
    desc = [[kind, 'ptype=%s of %d member(s)' % (lev.ptype, len(members)), lev.k, lev.h]]
    roles = ['@combination']
    tags = {id(zero): 'zero', id(c): 'combination'}
    dim = 1
    wrap = w.get('wrap')
    if wrap:
        t, cn, k, h = wrap
        C = CONDS[cn]
        kwo = {'k': k, 'h': h}
        if C['args'] is not None: kwo['args'] = C['args']
        if C['kwds'] is not None: kwo['kwds'] = C['kwds']
        outer = getattr(mp, t)(C['impl'], **kwo)(c)
        tags[id(C['impl'])] = 'cond:' + cn
        tags[id(outer)] = 'wrapper'
        funcs.insert(0, outer); levels.insert(0, R.Level(t, C['ref'], k, h)); desc.insert(0, list(wrap)); roles.insert(0, '@wrapper')
        dim = C['dim']
    cfg = {'mode': kind, 'store': w.get('store', 'S0'), 'levels': desc}
    run = Run(cfg, rest0, built=(funcs, tags, R.Stack(levels, zero), dim, [d[0] for d in desc]), role='combination')
    run.roles = roles
    return run


def explore_world(w, alphabet, depth, T, H):
    """as explore_config, over the objects of a world: every sequence of addressed operations of length
    0..depth on freshly built objects; after the last operation EVERY object is compared with the model;
    point evaluation of every object once per distinct joint canonical state"""
    seen, dead, rest0 = set(), set(), None
    for n in range(depth + 1):
        for seq in itertools.product(range(len(alphabet)), repeat=n):
            if n and seq[:-1] in dead:
                continue
            W = World(w, rest0)
            ops = [alphabet[k] for k in seq]
            out = []
            T.count('traces')
            T.count('transitions', n)
            if n == 0:
                rest0 = W.rest0
                for r in W.runs:
                    if r.role != 'combination':
                        check_attributes(r, out)
            exc = None
            for op in ops:
                exc = W.apply(op)
                if exc is not None:
                    break
            if exc is not None:
                dead.add(seq)
                o, l, b = op_parse(ops[-1])
                name = op_text(ops[-1], W.roles)
                out.append((W.runs[o].sig('op_raised', l, name), '%s raised %s' % (name, exc), {}))
                _wflush(T, W, ops, out)
                continue
            if W.unjudged():
                dead.add(seq)
                hk = '_skew:not judged (nor extended): store(x) reached a Lagrange level through another one standing at a different iteration'
                H[hk] = H.get(hk, 0) + 1
                T.count('traces', -1); T.count('transitions', -n); T.count('sequences_not_judged')
                continue
            key = W.key(W.check_state(ops, out))
            if key not in seen:
                seen.add(key)
                nz, ne = W.check_points(ops, out, H)
                T.count('evaluations', 2 * ne)
                T.count('states')
                if nz and not W.fresh():
                    T.count('nontrivial_states')
                    T.nontriv((_wtext(w), key))
                skew = W.skew()
                if skew:
                    H['_skew:' + skew] = H.get('_skew:' + skew, 0) + 1
            _wflush(T, W, ops, out)
    H['states/config:%d' % min(len(seen), 99)] = H.get('states/config:%d' % min(len(seen), 99), 0) + 1


def _wflush(T, W, ops, out):
    for sig, detail, extra in out:
        case = {'world': W.w, 'ops': ops}
        case.update(extra)
        T.violate(sig, case, detail + '  [after ops %s; %s]' % ([op_text(o, W.roles) for o in ops], _wtext(W.w)))


def _lvtext(cfg):
    pre = cfg_pre(cfg)
    return ' > '.join('%s(%s,k=%s,h=%s)%s' % (tuple(l) + ('' if not pre[j] else ' then ' + '.'.join(op_text(o) for o in pre[j]),))
                      for j, l in enumerate(cfg['levels']))


def _wtext(w):
    if w['kind'] == 'nest':
        return 'nest/%s %s' % (w['cfg']['store'], _lvtext(w['cfg']))
    t = '%s(%s%s)' % (w['comb'], ', '.join('[' + _lvtext(m) + ']' for m in w['members']),
                      ''.join(', %s=%s' % kv for kv in sorted((w.get('settings') or {}).items())))
    if w.get('wrap'):
        t = '%s(%s,k=%s,h=%s) > ' % tuple(w['wrap']) + t
    return t


def shard_world(item):
    ws, depth = item
    T = Tally()
    H = {}
    for w, alphabet in ws:
        explore_world(w, alphabet, depth, T, H)
        if w['kind'] == 'nest':
            T.hist('configs', 'world:nest depth%d, levels out of step at build / ops on inner levels' % len(w['cfg']['levels']))
        else:
            T.hist('configs', 'world:%s of %d member(s)%s' % (w['comb'], len(w['members']), ', decorated' if w.get('wrap') else ''))
    for k, v in H.items():
        if k.startswith('states/config:'):
            T.hist('distinct_states_per_world', k.split(':')[1], v)
        elif k.startswith('_skew:'):
            T.hist('world_states', k[6:], v)
        else:
            T.hist('clause_outcomes', k, v)
    w, alphabet = ws[0]
    T.sample({'world': _wtext(w), 'ops': 'all %d sequences of length <= %d over %s'
              % (sum(len(alphabet) ** i for i in range(depth + 1)), depth, [op_text(o, World(w).roles) for o in alphabet])}, limit=1)
    return T


# ------------------------------------------------------------------ additive, argument routing
def shard_misc(item):
    """`additive` stacks independent penalties; extra call arguments reach the decorated function"""
    import mystic.penalty as mp
    import mystic.coupler as cp
    ta, thorough = item
    T = Tally()
    sp = STORESETS['S0']
    prefixes = [[], [['iter']], [['store', 'xa'], ['iter']], [['store', 'xb', 1], ['iter', 2]]]
    condpairs = list(itertools.product(CONDNAMES, repeat=2))
    for tb in TYPES:
        for ca, cb in condpairs:
            for pa, pb in itertools.product(range(len(prefixes)), repeat=2):
                if not thorough and (pa + pb) % 2:      # quick: half of the prefix pairs
                    continue
                cfa = {'mode': 'decorate', 'store': 'S0', 'levels': [[ta, ca, 20, 5]]}
                cfb = {'mode': 'decorate', 'store': 'S0', 'levels': [[tb, cb, 1, 5]]}
                ra, rb = Run(cfa), Run(cfb)
                for op in prefixes[pa]: ra.apply(op)
                for op in prefixes[pb]: rb.apply(op)
                # f + p  with f itself a penalty on `base`, p a penalty on `base`
                both = cp.additive(rb.funcs[0])(ra.funcs[0])
                third = cp.additive(rb.funcs[0])(both)
                dim = max(ra.dim, rb.dim)
                T.count('traces'); T.count('transitions', len(prefixes[pa]) + len(prefixes[pb]) + 2)
                for x in points(dim):
                    wa, sa = ra.ref.value(x)
                    wb, sb = rb.ref.value(x)
                    T.count('evaluations', 2)
                    # a member that is itself wrong is blamed by its own type, not as a fault of `additive`
                    blame = None
                    for r_, w_, s_, t_ in ((ra, wa, sa, ta), (rb, wb, sb, tb)):
                        try:
                            if agree(r_.funcs[0](list(x)), w_, s_) is False:
                                blame = t_
                        except Exception:
                            blame = t_
                    for name, fn, want, scale in (('additive', both, wa + wb, sa + sb),
                                                  ('additive twice', third, wa + wb + wb, sa + 2 * sb)):
                        try:
                            g = fn(list(x))
                        except Exception as e:
                            g = e
                        ok = agree(g, want, scale) if not isinstance(g, Exception) else False
                        if ok is None:
                            T.hist('clause_outcomes', 'additive:indeterminate not judged')
                        elif not ok:
                            sig = ({'clause': 'value', 'ptype': blame, 'inner_level': False, 'mode': 'decorate', 'op': None} if blame
                                   else {'clause': 'additive', 'twice': name != 'additive'})
                            T.violate(sig, {'misc': 'additive', 'ta': ta}, '%s(%s)(%s) at %r = %r, sum of the documented values %r'
                                      % (name, _cfgtext(cfb), _cfgtext(cfa), x, g, want))
                        else:
                            T.hist('clause_outcomes', 'additive:sum agrees')
                T.nontriv(('add', ta, tb, ca, cb, pa, pb))
    # extra positional / keyword arguments of the call go to the decorated function, at every depth
    def f2(x, a, b=0.0): return 0.5 * x[0] + a + 4.0 * b
    for tb in TYPES:
        for ca in CONDNAMES:
            Ca, Cb = CONDS[ca], CONDS['x0-1']
            kwa = {k: Ca[k] for k in ('args', 'kwds') if Ca[k] is not None}
            inner = getattr(mp, tb)(Cb['impl'], args=Cb['args'], k=1, h=5)(f2)
            outer = getattr(mp, ta)(Ca['impl'], k=20, h=5, **kwa)(inner)
            ref = R.Stack([R.Level(ta, Ca['ref'], 20, 5), R.Level(tb, Cb['ref'], 1, 5)], f2)
            outer.iter(); ref.iter()
            T.count('traces'); T.count('transitions', 1)
            for x in points(Ca['dim']):
                T.count('evaluations')
                want, scale = ref.value(x, 0, (2.0,), {'b': 0.5})
                try:
                    g = outer(list(x), 2.0, b=0.5)
                except Exception as e:
                    g = e
                ok = agree(g, want, scale) if not isinstance(g, Exception) else False
                if ok is False:
                    try:
                        wi, si = ref.value(x, 1, (2.0,), {'b': 0.5})
                        inner_ok = agree(inner(list(x), 2.0, b=0.5), wi, si) is not False
                    except Exception:
                        inner_ok = False
                    T.violate({'clause': 'call_arguments_or_value', 'ptype': ta if inner_ok else tb}, {'misc': 'args', 'ta': ta},
                              '%s(%s)(%s(x0-1)(f2))(%r, 2.0, b=0.5) = %r, expected f2(x,2.0,b=0.5) + penalties = %r' % (ta, ca, tb, x, g, want))
                else:
                    T.hist('clause_outcomes', 'call arguments reach f')
    T.count('states', 1)
    return T


# ------------------------------------------------------------------ configuration space
KH2 = [((1, 5), (20, 5)), ((100, 1), (1, 5)), ((20, 5), (100, 1)), ((1, 1), (20, 1))]
KH3 = [((1, 5), (20, 1), (100, 5)), ((20, 1), (100, 5), (1, 5))]
# the first two put the singular condition innermost and outermost and include a 2-D stack
ROT3 = [('x0-1', 'x0**2-4', '1/x0'), ('1/x0', 'x0+x1', 'x0-1'),
        ('x0+x1', 'x0-1', 'x0**2-4'), ('x0**2-4', '1/x0', 'x0+x1')]
def configs(thorough):
    """list of (depth_of_op_sequences_is_common) configurations, simplest first"""
    out = []
    def add(mode, store, levels):
        out.append({'mode': mode, 'store': store, 'levels': [list(l) for l in levels]})
    # depth 1: the full product, decorated on a non-zero base function
    for t in TYPES:
        for c in CONDNAMES:
            for k in KS:
                for h in HS:
                    add('decorate', 'S0', [(t, c, k, h)])
            add('decorate', 'S0', [(t, c, None, None)])          # documented defaults of k and h
    for t in R.LAGRANGE:                                           # second store set (singular xb) where a store exists
        for c in CONDNAMES:
            for k in KS:
                for h in HS:
                    add('decorate', 'S1', [(t, c, k, h)])
    for t in TYPES:
        for c in CONDNAMES:
            for k in KS:
                for h in HS:
                    add('with_penalty', 'S0', [(t, c, k, h)])
        for c in CONSNAMES:
            for k in KS:
                for h in HS:
                    add('as_penalty', 'S0', [(t, c, k, h)])
        add('as_penalty', 'S0', [(t, CONSNAMES[0], None, None)])
    # depth 2: every ordered pair of types x every ordered pair of conditions x (k,h) assignments
    for (t1, t2) in itertools.product(TYPES, repeat=2):
        for (c1, c2) in itertools.product(CONDNAMES, repeat=2):
            for (kh_a, kh_b) in KH2[:4 if thorough else 2]:
                add('decorate', 'S0', [(t1, c1) + kh_a, (t2, c2) + kh_b])
    if thorough:
        for (t1, t2) in itertools.product(TYPES, repeat=2):
            if t1 in R.LAGRANGE or t2 in R.LAGRANGE:
                for (c1, c2) in itertools.product(CONDNAMES, repeat=2):
                    add('decorate', 'S1', [(t1, c1, 1, 5), (t2, c2, 20, 5)])
    # depth 3: every ordered triple of types x condition rotations
    for ts in itertools.product(TYPES, repeat=3):
        for r in (ROT3 if thorough else ROT3[:2]):
            add('decorate', 'S0', [(ts[i], r[i]) + KH3[0][i] for i in range(3)])
        if thorough:
            add('decorate', 'S0', [(ts[i], ROT3[0][i]) + KH3[1][i] for i in range(3)])
    return out


# ---- worlds
I, I2, I3, CL = ['iter'], ['iter', 2], ['iter', 3], ['clear']
SA, SB = ['store', 'xa'], ['store', 'xb', 1]
# operations on a 2-level nest: the outermost level (plain) and level 1
A_NEST2 = [I, I2, CL, SA, SB, at(0, 1, *I), at(0, 1, *I3), at(0, 1, *CL), at(0, 1, *SA)]
A_NEST3 = [I, I2, CL, SA, at(0, 1, *I), at(0, 1, *I3), at(0, 1, *CL), at(0, 2, *I), at(0, 2, *CL)]
# operations on a combination (object 0) and its members (objects 1..)
A_COMBO1 = [I, I2, CL, SA, at(1, 0, *I), at(1, 0, *I3), at(1, 0, *CL), at(1, 0, *SA)]
A_COMBO2 = [I, I2, CL, SA, at(1, 0, *I), at(1, 0, *CL), at(1, 0, *SA), at(2, 0, *I), at(2, 0, *I3)]
A_COMBO3 = [I, I2, CL, at(1, 0, *I), at(2, 0, *I), at(2, 0, *CL), at(3, 0, *I), at(3, 0, *I3)]
# a penalty decorating a combination: wrapper (level 0), combination (level 1), member
A_WRAP = [I, I2, CL, SA, at(0, 1, *I), at(0, 1, *CL), at(1, 0, *I), at(1, 0, *CL)]

PRE_INNER = [[], [I], [I, I], [I3]]                       # how the inner penalty was used before being wrapped
PRE3 = [([I], []), ([], [I, I]), ([I3], [I])]             # (middle, innermost) of a 3-level nest
KH_SKEW = [(20, 5), (3, 2), (1, 5)]                       # per level: different growth factors outside / inside
SETTINGS = [{}, {'k': 10, 'h': 2}, {'k': 3}, {'h': 2}, {'ptype': 'quadratic_inequality', 'k': 2, 'h': 3},
            {'k': None}, {'ptype': 'quadratic_equality'}]
NOT_SETTINGS = [{}, {'k': 10, 'h': 2}, {'ptype': 'linear_inequality', 'k': 2}, {'ptype': 'quadratic_equality', 'h': 2}]
MEMBER_KH = [(3, 2), (20, 5), (1, 1)]


def _member(t, c, kh, pre=None):
    return {'mode': 'decorate', 'store': 'S0', 'base': 'zero', 'levels': [[t, c] + list(kh)], 'pre': [list(pre or [])]}


def worlds(thorough):
    """-> {family: [(world, alphabet)]}, {family: length of the op sequences}.  Every penalty type appears at every level of the nests and as a member at
    every position of the combinations; conditions rotate with the type indices"""
    out = {}
    nt, nc = len(TYPES), len(CONDNAMES)
    idx = list(range(nt))
    # (a) 2-level nests, every ordered pair of types, the inner one used before it is wrapped
    fam = out['nest2'] = []
    for i1, i2 in itertools.product(idx, repeat=2):
        t1, t2 = TYPES[i1], TYPES[i2]
        c1, c2 = CONDNAMES[(i1 + i2) % nc], CONDNAMES[(2 * i1 + i2 + 1) % nc]
        pres = PRE_INNER + ([[SA, I]] if t2 in R.LAGRANGE else [])
        for pre in pres:
            cfg = {'mode': 'decorate', 'store': 'S0', 'levels': [[t1, c1] + list(KH_SKEW[0]), [t2, c2] + list(KH_SKEW[1])],
                   'pre': [[], pre]}
            fam.append(({'kind': 'nest', 'cfg': cfg}, A_NEST2))
    # (b) 3-level nests: every ordered pair as (outer, middle) and as (middle, inner), the third type rotating
    fam = out['nest3'] = []
    triples = [(a, b, (a + b) % nt) for a, b in itertools.product(idx, repeat=2)]
    triples += [((b + 2 * c + 1) % nt, b, c) for b, c in itertools.product(idx, repeat=2)]
    if thorough:
        triples = list(itertools.product(idx, repeat=3))
    for n, tr in enumerate(triples):
        cs = [CONDNAMES[(tr[0] + n) % nc], CONDNAMES[(tr[1] + 2 * n + 1) % nc], CONDNAMES[(tr[2] + 3 * n + 2) % nc]]
        for pm, pi in (PRE3 if thorough else PRE3[:2]):
            cfg = {'mode': 'decorate', 'store': 'S0', 'levels': [[TYPES[tr[j]], cs[j]] + list(KH_SKEW[j]) for j in range(3)],
                   'pre': [[], pm, pi]}
            fam.append(({'kind': 'nest', 'cfg': cfg}, A_NEST3))
    # (c) and_ / or_ of one member: every type x every setting x member fresh / used before
    fam = out['combo1'] = []
    for kind in ('and_', 'or_'):
        for i1 in idx:
            for si, st in enumerate(SETTINGS if thorough else SETTINGS[:5]):
                for pre in ([], [I]):
                    m = _member(TYPES[i1], CONDNAMES[(i1 + si) % nc], MEMBER_KH[0], pre)
                    fam.append(({'kind': 'combo', 'comb': kind, 'members': [m], 'settings': st, 'wrap': None}, A_COMBO1))
    # (d) not_
    fam = out['not_'] = []
    for i1 in idx:
        for si, st in enumerate(NOT_SETTINGS if thorough else NOT_SETTINGS[:3]):
            for pre in ([], [I]):
                m = _member(TYPES[i1], PLAINCONDS[(i1 + si) % nc], MEMBER_KH[0], pre)
                fam.append(({'kind': 'combo', 'comb': 'not_', 'members': [m], 'settings': st, 'wrap': None}, A_COMBO1))
    # (e) two members: every ordered pair of types, settings rotating
    fam = out['combo2'] = []
    for kind in ('and_', 'or_'):
        for i1, i2 in itertools.product(idx, repeat=2):
            sts = SETTINGS[:5] if thorough else [SETTINGS[(i1 + 2 * i2 + (kind == 'or_')) % 5]]
            for st in sts:
                ms = [_member(TYPES[i1], CONDNAMES[(i1 + i2) % nc], MEMBER_KH[0]),
                      _member(TYPES[i2], CONDNAMES[(i1 + 2 * i2 + 1) % nc], MEMBER_KH[1], [I] if (i1 + i2) % 2 else [])]
                fam.append(({'kind': 'combo', 'comb': kind, 'members': ms, 'settings': st, 'wrap': None}, A_COMBO2))
    # (f) three members
    fam = out['combo3'] = []
    for kind in ('and_', 'or_'):
        for i1, i2 in itertools.product(idx, repeat=2):
            i3 = (i1 + 2 * i2 + 3) % nt
            st = SETTINGS[(i1 + i2 + (kind == 'or_')) % 2]          # no settings / k and h
            ms = [_member(TYPES[i], CONDNAMES[(i + j + i1) % nc], MEMBER_KH[j]) for j, i in enumerate((i1, i2, i3))]
            fam.append(({'kind': 'combo', 'comb': kind, 'members': ms, 'settings': st, 'wrap': None}, A_COMBO3))
    # (g) a penalty of every type decorating a combination of one member of every type
    fam = out['wrapped'] = []
    for kind in ('and_', 'or_'):
        for i0, i1 in itertools.product(idx, repeat=2):
            if not thorough and (i0 + i1 + (kind == 'or_')) % 2:
                continue
            m = _member(TYPES[i1], CONDNAMES[(i0 + i1) % nc], MEMBER_KH[0], [I] if i0 % 2 else [])
            wrap = [TYPES[i0], CONDNAMES[(i0 + 2 * i1 + 1) % nc], 20, 5]
            fam.append(({'kind': 'combo', 'comb': kind, 'members': [m], 'settings': SETTINGS[(i0 + i1) % 2], 'wrap': wrap}, A_WRAP))
    depth = dict((k, 3) for k in out)
    if thorough:
        depth.update({'nest2': 4, 'combo1': 4, 'not_': 4, 'combo3': 4, 'wrapped': 4})
    return out, depth


def run(ctx):
    depth = 5 if ctx.thorough else 4
    cfgs = configs(ctx.thorough)
    chunk = 6 if ctx.thorough else 12
    # contiguous chunks, simplest configurations first: the first case kept per signature is the smallest
    items = [('cfg', (cfgs[i:i + chunk], depth)) for i in range(0, len(cfgs), chunk)]
    items += [('misc', (t, ctx.thorough)) for t in TYPES]
    wfam, wdepth = worlds(ctx.thorough)
    wby = {}
    for name in sorted(wfam):
        ws, d = wfam[name], wdepth[name]
        wchunk = 10 if d == 3 else 2
        items += [('world', (ws[i:i + wchunk], d)) for i in range(0, len(ws), wchunk)]
        wby[name] = {'worlds': len(ws), 'first': _wtext(ws[0][0]), 'last': _wtext(ws[-1][0]), 'operations': [op_text(o, World(ws[0][0]).roles) for o in ws[0][1]],
                     'op_sequence_length': d, 'sequences_per_world': sum(len(ws[0][1]) ** i for i in range(d + 1))}
    by = {}
    for c in cfgs:
        k = 'depth%d/%s/%s' % (len(c['levels']), c['mode'], c['store'])
        by[k] = by.get(k, 0) + 1
    ctx.bounds = {
        'types': TYPES, 'conditions': CONDNAMES, 'as_penalty_constraints': CONSNAMES, 'k': KS + ['default'], 'h': HS + ['default'],
        'grid': GRID, 'points': 'grid^dim, dim = 2 when a level uses x0+x1 (or tie), else 1; worlds in two dimensions: grid x %r' % (WORLD_X1,),
        'ops': OPNAMES, 'op_sequence_length': depth, 'store_points': STORESETS,
        'configurations': by, 'configurations_total': len(cfgs),
        'depth1': 'full product 9 types x 4 conditions x 3 k x 2 h (+ defaults), three build modes',
        'depth2': 'all 81 ordered type pairs x all 16 ordered condition pairs x per-level (k,h) assignments %r%s'
                  % (KH2[:4 if ctx.thorough else 2], '; + store set S1 for the 17 pairs holding a Lagrange type' if ctx.thorough else ''),
        'depth3': 'all 729 ordered type triples x condition triples %r with (k,h) %r%s'
                  % (ROT3 if ctx.thorough else ROT3[:2], KH3[0], '; + %r on the first condition triple' % (KH3[1],) if ctx.thorough else ''),
        'additive': '81 type pairs x 16 condition pairs x %d pairs of op prefixes' % (16 if ctx.thorough else 8),
        'worlds': wby,
        'worlds_nest2': 'all 81 ordered type pairs x inner penalty used before being wrapped %r (+ store(xa).iter() for a Lagrange '
                        'inner type), (k,h) %r; operations on level 0 and on level 1' % ([[op_text(o) for o in p_] for p_ in PRE_INNER], KH_SKEW[:2]),
        'worlds_nest3': '%s; (middle, innermost) used before being wrapped %r; operations on levels 0, 1, 2'
                        % ('all 729 ordered type triples' if ctx.thorough else '162 type triples: every ordered pair as (outer, middle) and as (middle, inner)',
                           [[[op_text(o) for o in q] for q in p_] for p_ in (PRE3 if ctx.thorough else PRE3[:2])]),
        'worlds_combinators': 'coupler.and_/or_ of 1 member (9 types x settings %r x member fresh/iterated), of 2 members (81 ordered type '
                              'pairs), of 3 members (81 triples), decorated by a further penalty (type pairs); coupler.not_ (9 types x settings %r); '
                              'member (k,h) by position %r; operations on the combination, on the penalty decorating it, on every member'
                              % (SETTINGS if ctx.thorough else SETTINGS[:5], NOT_SETTINGS if ctx.thorough else NOT_SETTINGS[:3], MEMBER_KH),
    }
    ctx.rule = ("for every configuration, every op sequence of the stated length over the 5 operations is executed on a freshly "
                "built real penalty in lock step with the model, shortest first (traces = sequences run, transitions = operations executed; "
                "after the last operation of each sequence iteration(), stored(), stored(i) and all closure cells of every level are "
                "compared - every prefix is a sequence of its own, so every operation of every sequence is judged); at every distinct canonical closure "
                "state of a configuration penalty(x) and error(x) are compared at every grid point and every nesting level "
                "(evaluations). A (configuration, state) is non-trivial when n>0 or a store is non-empty at some level and the "
                "penalty differs from the decorated function at one grid point or more. Worlds: the same, over sequences of "
                "operations addressed to any level of a nest / to a combination, the penalty decorating it and its members; after the "
                "last operation of each sequence every level of every object is compared, and every object is evaluated at every grid "
                "point once per distinct joint state")
    ctx.assumptions = [
        "configurations: operations are issued on the outermost penalty only (as a solver does), inner levels are observed directly; "
        "worlds: operations are issued on any level / object",
        "an operation issued on a penalty reaches that penalty and everything it decorates, nothing above it and no other object; "
        "every level counts its own iterations: iter() adds one to each reached level from where it stands, iter(i) sets each to i",
        "and_/or_/not_ build a penalty of their own (documented: ptype default linear_equality, k default 1, h default 5) with an "
        "iteration state of its own; its condition is the sum / minimum of the members' current values (not_: the member's condition "
        "inverted, the member's state is not consulted); iter()/clear()/store() on the combination do not reach the members. "
        "Whether and_/or_ are zero exactly where all / any members are is C17's clause and is not judged here",
        "store(x) without an index in a nest whose Lagrange levels stand at different iterations: the statement is silent on where "
        "the inner sample belongs; a sequence is not judged (nor extended) from the operation on that makes "
        "an outer Lagrange level hand its own index to an inner Lagrange level standing at another iteration (counted in the histogram "
        "world_states); store(x, i) with an explicit index files under i at every level",
        "Lagrange types: the multiplier is the augmented-Lagrangian sum over completed iterations of the stored condition values "
        "(lam += 2 k h^i y_i; beta += 2 k h^i max(y_i, -beta/(2 k h^i))), a missing sample counts as 0",
        "barrier_inequality is judged against its documented log expression inside the feasible set (DESIGN section 5)",
        "Lagrange types with a non-zero accumulated multiplier are judged against the documented expression only: the linear "
        "multiplier term is sign-indefinite by construction, so zero-on-feasible / positive-on-violation is judged for them "
        "only while the multiplier is 0 (outcomes are histogrammed)",
        "error(x) of a stack is the Euclidean norm of the per-level violation magnitudes",
        "values agree when within 1e-12 relative to the sum of the magnitudes of the documented terms; exact zero is required "
        "where every term is zero; an inf-inf documented value is not judged beyond being non-finite",
    ]
    ctx.pmap(_dispatch, items)


def _dispatch(it):
    if it[0] == 'cfg':
        return shard(it[1])
    if it[0] == 'world':
        return shard_world(it[1])
    return shard_misc(it[1])


def replay(case):
    """re-run one case: the op sequence with every check after every op, no memoisation"""
    if 'misc' in case:
        T = shard_misc((case['ta'], True))
        return [v['detail'] for v in T.violations.values()]
    ops = [list(o) for o in case['ops']]
    if 'world' in case:
        w = case['world']
    else:
        cfg = case['cfg']
        w = {'kind': 'nest', 'cfg': {'mode': cfg['mode'], 'store': cfg['store'], 'levels': [list(l) for l in cfg['levels']]}}
    W = World(w)
    out, H = [], {}
    for r in W.runs:
        if r.role != 'combination':
            check_attributes(r, out)
    W.check_state([], out)
    W.check_points([], out, H)
    for i, op in enumerate(ops):
        exc = W.apply(op)
        if exc is not None:
            o, l, b = op_parse(op)
            out.append((W.runs[o].sig('op_raised', l), '%s raised %s' % (op_text(op, W.roles), exc), {}))
            break
        if W.unjudged():
            break
        W.check_state(ops[:i + 1], out)
        W.check_points(ops[:i + 1], out, H)
    seen, res = set(), []
    for sig, detail, extra in out:
        if 'x' in case and extra.get('x') is not None and extra.get('x') != case['x']:
            continue
        if detail not in seen:
            seen.add(detail)
            res.append(detail)
    return res
