"""C07 - results depend only on configuration and seed, not on call order or schedule.

(A) E1 diamond check + literal permutations of the configuration calls on NM, Powell, DE, DE2:
    for every subset U of the call set (in canonical order) and every pair a,b outside U the solver configured
    U.a.b.rest and U.b.a.rest must agree in (i) the canonical settings state right after U.a.b / U.b.a,
    (ii) the state of the owned random generator after configuration and after the run and (iii) the bit-exact
    6-step trajectory (per step: message, population, popEnergy, best, counters, both monitors, the cost call log).
    A smaller call set is additionally run in every literal order.
(B) E2: DifferentialEvolutionSolver2 under env.ScriptedMap - every evaluation order of the NP work items of every
    map call (deviation bound over the calls), sharing objects and on dill copies (the process-pool stand-in);
    oracle: one trajectory digest per configuration, equal to the serial default's (python_map).
(C) E2: ensembles (Lattice (2,2) / (2,1), Buckshot 3; nested NM / Powell): every member order per map call, sharing
    and copying map, Solve() vs Solve(step=True) vs a manual Step loop, and real threads under the baton scheduler
    of mc/c07_baton.py (hand-off at every member Step, bounded preemptions); oracle: one result per configuration.
    Under the serial map four drive modes (Solve, Solve(step=True), Step-until-message, while not Terminated(): Step())
    are compared in result, member counters, monitors and call logs, incl. ensembles without limits, with a member that
    stops at generation 0, and ensembles whose start points come from the python random stream (Sparsity, Lattice(int)).
(D) instance isolation: configuration A alone in a fresh process vs "another solver B (one setting different, same
    bounds and seed) configured and run first, then A" in one process; A must not depend on B.
"""
import os, sys, io, itertools, contextlib, tempfile, math
import numpy as np
from mc import env, tree, solverlab
from mc import c07_baton as baton
from mc.runner import Tally, digest

INF = float('inf')


# ====================================================================== shared helpers
def _vec(v):
    return tuple(float(a) for a in np.asarray(v, dtype=float).ravel())


def _fy(v):
    try:
        a = np.asarray(v, dtype=float)
        return float(a) if a.ndim == 0 else tuple(float(b) for b in a.ravel())
    except Exception:
        return repr(v)


def _mon(m):
    """(x, y) content of a monitor; Null -> empty"""
    if not len(m):
        return ((), ())
    return (tuple(_vec(x) for x in m._x), tuple(_fy(y) for y in m._y))


def rng_digest(rng):
    st, nst = rng.getstate()
    return digest(repr((st, nst[0], nst[1].tobytes(), nst[2], nst[3], repr(nst[4]))))


@contextlib.contextmanager
def quiet():
    old = sys.stdout
    sys.stdout = io.StringIO()
    try:
        yield
    finally:
        sys.stdout = old


class HarnessFault(Exception):
    pass


class Pre(object):
    """chooser wrapper: the first len(fix) choice points are answered from `fix` (shard prefix),
    the rest by the wrapped chooser"""

    def __init__(self, ch, fix):
        self.ch = ch
        self.fix = list(fix)
        self.i = 0
        self.seen = []

    def choose(self, n, label=None):
        if self.i < len(self.fix):
            c = self.fix[self.i]
            self.i += 1
            if c >= n:
                raise tree.Diverged('shard prefix choice %d out of range (%d options, %r)' % (c, n, label))
            self.seen.append((c, n, label))
            return c
        return self.ch.choose(n, label)


# ====================================================================== canonical settings state
import re
_IDNUM = re.compile(r'\d{7,}')


def canon(s, tags):
    """every entry of solver.__dict__ as hashable data; unknown objects raise (nothing dropped silently)"""
    return tuple((k, _cv(v, tags, 0)) for k, v in sorted(s.__dict__.items()))


def _cv(v, tags, depth):
    from mystic.monitors import Monitor, Null
    if v is None or isinstance(v, (bool, int, str, bytes)):
        return v
    if isinstance(v, float):
        return repr(v)
    t = tags.get(id(v))
    if isinstance(v, Null):
        return ('Null',)
    if isinstance(v, Monitor):
        return ('mon', t or type(v).__name__, _cv(v._x, tags, depth + 1), _cv(v._y, tags, depth + 1),
                tuple(v._id), tuple(v._info), v.k, v._npts)
    if t is not None:
        return ('tag', t)
    if isinstance(v, np.ndarray):
        return ('nd', str(v.dtype), v.shape, v.tobytes())
    if isinstance(v, np.generic):
        return ('ng', str(v.dtype), repr(v.item()))
    if depth > 7:
        return ('deep', type(v).__name__)
    if isinstance(v, (list, tuple)):
        return (type(v).__name__,) + tuple(_cv(x, tags, depth + 1) for x in v)
    if isinstance(v, dict):
        return ('dict',) + tuple((repr(k), _cv(x, tags, depth + 1)) for k, x in sorted(v.items(), key=lambda kv: repr(kv[0])))
    if isinstance(v, (set, frozenset)):
        return ('set',) + tuple(sorted(repr(x) for x in v))
    code = getattr(v, '__code__', None)
    if code is not None:
        cells = ()
        if v.__closure__:
            cells = tuple(_cell(c, tags, depth + 1) for c in v.__closure__)
        # generated constraint solvers are named solver_<id(...)>: the id is not part of the state
        return ('fn', getattr(v, '__module__', None), _IDNUM.sub('#', getattr(v, '__qualname__', None) or ''), code.co_firstlineno,
                digest(code.co_code), cells, v.__doc__ if isinstance(v.__doc__, str) and len(v.__doc__) < 200 else None)
    if isinstance(v, type) or type(v).__name__ in ('builtin_function_or_method', 'method', 'module'):
        return ('obj', repr(v))
    if callable(v) and getattr(v, '__name__', None) and type(v).__name__ in ('_ArrayFunctionDispatcher', 'ufunc', 'method-wrapper', 'wrapper_descriptor'):
        return ('callable', getattr(v, '__module__', None), v.__name__)       # numpy dispatchers / ufuncs held in closures: named, stateless
    raise HarnessFault('canon: object %r of type %s is neither data nor registered' % (v, type(v)))


def _cell(c, tags, depth):
    try:
        return _cv(c.cell_contents, tags, depth)
    except ValueError:
        return ('emptycell',)


# ====================================================================== (A) configuration order
CALLS_Q = ('init', 'ranges', 'constraints', 'penalty', 'objective', 'term', 'limits', 'evalmon', 'stepmon')
CALLS_T = CALLS_Q + ('reducer', 'savefreq')
NSTEPS = 6


def _apply_call(s, name, v, objs):
    dim = v.get('dim', 2)
    if name == 'init':
        if v.get('init', 'point') == 'point':
            s.SetInitialPoints(list(v['x0']))
        else:
            lo, hi = solverlab.effective_box(v.get('initbox', 'unit'), dim)
            s.SetRandomInitialPoints(list(lo), list(hi))
    elif name == 'ranges':
        lo, hi = solverlab.box_of(v['box'], dim)
        kw = {}
        if v.get('tight') is not None:
            kw['tight'] = v['tight']
        if v.get('clip') is not None:
            kw['clip'] = v['clip']
        s.SetStrictRanges(list(lo), list(hi), **kw)
    elif name == 'constraints':
        s.SetConstraints(objs['con'])
    elif name == 'penalty':
        s.SetPenalty(objs['pen'])
    elif name == 'objective':
        s.SetObjective(objs['cost'])
    elif name == 'term':
        s.SetTermination(objs['term'])
    elif name == 'limits':
        s.SetEvaluationLimits(v['limits'][0], v['limits'][1])
    elif name == 'evalmon':
        s.SetEvaluationMonitor(objs['evalmon'])
    elif name == 'stepmon':
        s.SetGenerationMonitor(objs['stepmon'])
    elif name == 'reducer':
        s.SetReducer(solverlab.REDUCERS[v.get('reducer', 'sum')], arraylike=True)
    elif name == 'savefreq':
        s.SetSaveFrequency(3, objs['savefile'])
    else:
        raise KeyError(name)


def _objects(v, savefile=None):
    from mystic.monitors import Monitor
    con = None
    if v.get('con'):
        kind, variant = (v['con'].split('/') + ['pure'])[:2]
        con = solverlab.Con(kind, variant == 'inplace')
    objs = {'cost': solverlab.Recorder(v.get('cost', 'sphere'), 50000),
            'con': con,
            'pen': solverlab.Pen(v['pen']) if v.get('pen') else None,
            'term': solverlab.make_term(v.get('term', 'never')),
            'evalmon': Monitor(), 'stepmon': Monitor(), 'savefile': savefile}
    tags = {}
    for k, o in objs.items():
        if o is not None and not isinstance(o, str):
            tags[id(o)] = k
    return objs, tags


def _snapshot(s, rec, n0, msg, objs):
    return (msg, tuple(_vec(p) for p in s.population), tuple(_fy(e) for e in s.popEnergy),
            _vec(s.bestSolution), _fy(s.bestEnergy), int(s.evaluations), int(s.generations),
            len(s._stepmon), len(s._evalmon), tuple(rec.log[n0:]), len(objs['stepmon']), len(objs['evalmon']))


SNAP_FIELDS = ('message', 'population', 'popEnergy', 'bestSolution', 'bestEnergy', 'evaluations', 'generations',
               'length of the step monitor', 'length of the evaluation monitor', 'cost call log',
               'length of the Monitor given to SetGenerationMonitor', 'length of the Monitor given to SetEvaluationMonitor')
FINAL_FIELDS = ('final', 'step monitor', 'evaluation monitor', 'the Monitor given to SetGenerationMonitor',
                'the Monitor given to SetEvaluationMonitor', 'restart file (generations, evaluations, best, energy)')


def configure(v, seq, savefile=None, at=(), full=False):
    """fresh solver + the calls of `seq` in that order (inside the caller's owned_random context).
    -> (solver, objects, canon digests {position: digest}, raw canons)"""
    objs, tags = _objects(v, savefile)
    if savefile and os.path.exists(savefile):
        os.remove(savefile)
    s = solverlab.new_solver(v['solver'], v.get('dim', 2), v.get('npop', 4))
    tags[id(s)] = 'solver'
    canons, raw = {}, {}
    failed = None
    for i, name in enumerate(seq):
        try:
            _apply_call(s, name, v, objs)
        except Exception as e:
            failed = ('RAISED', name, type(e).__name__, str(e)[:120])
        if full or (i + 1) in at or i + 1 == len(seq):
            c = failed if failed is not None else canon(s, tags)
            canons[i + 1] = digest(repr(c))
            if full:
                raw[i + 1] = c
    return s, objs, canons, raw


def canon_only(v, seq, pos, savefile=None):
    """settings-state digest after the first `pos` calls of seq (no Steps)"""
    rng = env.SeededRandom(v.get('seed', 0))
    with quiet(), env.owned_random(rng):
        s, objs, canons, raw = configure(v, seq[:pos], savefile, at=(pos,))
    return canons[pos]


def run_config(v, seq, savefile=None, want='digest', at=()):
    """configure a fresh solver by the calls of `seq` in that order, then NSTEPS x Step.
    -> dict(canons={position: digest}, rng_cfg, rng_end, traj digest...) ; want='full' keeps the raw data"""
    rng = env.SeededRandom(v.get('seed', 0))
    full = (want == 'full')
    traj = []
    with quiet(), env.owned_random(rng):
        s, objs, canons, raw_canons = configure(v, seq, savefile, at, full)
        rng_cfg = rng_digest(rng)
        rec = objs['cost']
        for k in range(v.get('nsteps', NSTEPS)):
            n0 = len(rec.log)
            try:
                msg = s.Step()
            except solverlab.Horizon:
                msg = 'HORIZON'
            except Exception as e:
                msg = 'RAISED %s: %s' % (type(e).__name__, str(e)[:120])
            traj.append(_snapshot(s, rec, n0, msg, objs))
            if isinstance(msg, str) and msg.startswith(('RAISED', 'HORIZON')):
                break
        rng_end = rng_digest(rng)
        saved = None
        if savefile and 'savefreq' in seq and os.path.exists(savefile):
            try:
                import dill
                with open(savefile, 'rb') as f:
                    r = dill.load(f)
                saved = (int(r.generations), int(r.evaluations), _vec(r.bestSolution), _fy(r.bestEnergy))
            except Exception as e:
                saved = ('UNREADABLE', type(e).__name__)
            os.remove(savefile)
        traj.append(('final', _mon(s._stepmon), _mon(s._evalmon), _mon(objs['stepmon']), _mon(objs['evalmon']), saved))
    out = {'canons': canons, 'rng_cfg': rng_cfg, 'rng_end': rng_end, 'traj': digest(repr(traj)),
           'nsteps_run': len(traj) - 1, 'ncalls': len(rec.log),
           'last_msg': traj[-2][0] if len(traj) > 1 else None}
    if full:
        out['raw_traj'] = traj
        out['raw_canons'] = raw_canons
    return out


def _first_traj_diff(ta, tb):
    for k, (a, b) in enumerate(zip(ta, tb)):
        if a != b:
            names = FINAL_FIELDS if (a[0] == 'final' or b[0] == 'final') else SNAP_FIELDS
            for name, x, y in zip(names, a, b):
                if x != y:
                    return name, 'step %d: %s differs: %s vs %s' % (k + 1, name, _clip(x), _clip(y))
    if len(ta) != len(tb):
        return 'length', 'trajectories have %d vs %d steps' % (len(ta), len(tb))
    return '?', 'digests differ'


def _clip(x, n=220):
    r = repr(x)
    return r if len(r) <= n else r[:n] + '...'


def _first_canon_diff(ca, cb):
    if not (isinstance(ca, tuple) and isinstance(cb, tuple)) or (ca and ca[0] == 'RAISED') or (cb and cb[0] == 'RAISED'):
        return 'exception', '%s vs %s' % (_clip(ca), _clip(cb))
    da, db = dict(ca), dict(cb)
    for k in sorted(set(da) | set(db)):
        if da.get(k) != db.get(k):
            return k, 'solver.%s = %s vs %s' % (k, _clip(da.get(k)), _clip(db.get(k)))
    return '?', 'canonical digests differ'


def compare_runs(v, seq1, seq2, mid, T, part, savefile=None, cache=None):
    """run both orders (through the cache), judge, record violations; mid = number of calls after which the
    settings state must already agree (None: only at the end of the configuration)"""
    pos = mid if mid is not None else len(seq1)

    def get(seq):
        r = cache.get(seq) if cache is not None else None
        if r is None:
            r = run_config(v, seq, savefile, at=(pos,))
            T.count('traces')
            T.count('transitions', len(seq) + r['nsteps_run'])
            T.hist('A_last_step_message', '%s:%s' % (v['solver'], (r['last_msg'] or 'None').split(' ')[0]))
            if cache is not None:
                cache[seq] = r
        elif pos not in r['canons']:
            r['canons'][pos] = canon_only(v, seq, pos, savefile)
            T.count('A_settings_only_runs')
            T.count('transitions', pos)
        return r
    r1, r2 = get(seq1), get(seq2)
    bad = []
    if r1['canons'][pos] != r2['canons'][pos]:
        bad.append('settings_state')
    elif r1['canons'][len(seq1)] != r2['canons'][len(seq2)]:
        bad.append('settings_state')
    if r1['rng_cfg'] != r2['rng_cfg']:
        bad.append('rng_state_after_configuration')
    if r1['traj'] != r2['traj']:
        bad.append('trajectory')
    elif r1['rng_end'] != r2['rng_end']:
        bad.append('rng_state_after_run')
    if not bad:
        return True
    f1 = run_config(v, seq1, savefile, want='full')
    f2 = run_config(v, seq2, savefile, want='full')
    pair = _swapped(seq1, seq2)
    for clause in bad:
        if clause == 'settings_state':
            p = pos if f1['raw_canons'][pos] != f2['raw_canons'][pos] else len(seq1)
            field, text = _first_canon_diff(f1['raw_canons'][p], f2['raw_canons'][p])
            text = 'after %d calls %s' % (p, text)
        elif clause == 'trajectory':
            field, text = _first_traj_diff(f1['raw_traj'], f2['raw_traj'])
        else:
            field, text = 'random generator', 'the owned random generator is in a different state (%s)' % clause
        T.violate({'part': part, 'clause': clause, 'solver': v['solver'], 'calls': pair, 'field': field, 'ranges_mode': _ranges_mode(v)},
                  {'part': 'A', 'variant': v, 'seq1': list(seq1), 'seq2': list(seq2), 'mid': mid},
                  '%s: order %s vs %s: %s [variant %s]' % (v['solver'], '.'.join(seq1), '.'.join(seq2), text, _short(v)))
    return False


def _ranges_mode(v):
    if v.get('clip') is not None:
        return 'clip=%s' % v['clip']
    return 'tight=%s' % v['tight'] if v.get('tight') is not None else 'default'


def _swapped(seq1, seq2):
    d = [a for a, b in zip(seq1, seq2) if a != b]
    if len(d) == 2:
        return '|'.join(sorted(d))
    return 'permutation'


def _short(v):
    return {k: x for k, x in v.items() if k not in ('solver', 'dim', 'npop')}


def diamonds(calls):
    out = []
    n = len(calls)
    for k in range(n - 1):
        for U in itertools.combinations(range(n), k):
            rest = [c for c in range(n) if c not in U]
            for a, b in itertools.combinations(rest, 2):
                r = [c for c in rest if c not in (a, b)]
                out.append((U, a, b, tuple(r)))
    return out


def _savefile():
    d = os.path.join(tempfile.gettempdir(), 'verif-c07-%d' % os.getpid())
    os.makedirs(d, exist_ok=True)
    return os.path.join(d, 'restart.pkl')


def _diamond_list(calls, only=None):
    ds = diamonds(calls)
    if only:
        ds = [d for d in ds if calls[d[1]] == only or calls[d[2]] == only]
    # neighbours in this order share many complete call sequences (the per-shard cache then saves ~20% of the runs)
    ds.sort(key=lambda d: d[0] + (d[1], d[2]) + d[3])
    return ds


def shard_diamond(item):
    v, calls, lo, hi, only = item
    T = Tally()
    calls = tuple(calls)
    sf = _savefile() if 'savefreq' in calls else None
    cache = {}
    ds = _diamond_list(calls, only)[lo:hi]
    active = set(v.get('_active', calls))
    for U, a, b, r in ds:
        s1 = tuple(calls[i] for i in U + (a, b) + r)
        s2 = tuple(calls[i] for i in U + (b, a) + r)
        ok = compare_runs(v, s1, s2, len(U) + 2, T, 'A-diamond', sf, cache)
        T.count('A_diamonds')
        T.hist('A_diamond_outcome', 'agree' if ok else 'DIFFER')
        if calls[a] in active and calls[b] in active:
            T.nontriv(('A', v['solver'], v['name'], len(calls), U, a, b))
    for r_ in cache.values():
        T.hist('A_trajectory_digest_by_config', '%s/%s/%d-calls:%s' % (v['solver'], v['name'], len(calls), r_['traj'].hex()))
        T.state(('A', v['solver'], v['name'], len(calls), r_['traj'], r_['rng_end']))
    if ds:
        T.sample({'part': 'A-diamond', 'solver': v['solver'], 'variant': v['name'],
                  'U': [calls[i] for i in ds[0][0]], 'a': calls[ds[0][1]], 'b': calls[ds[0][2]]}, 1)
    return T


def shard_perms(item):
    v, permuted, suffix, firsts = item
    T = Tally()
    sf = _savefile() if 'savefreq' in tuple(permuted) + tuple(suffix) else None
    base = tuple(permuted) + tuple(suffix)
    cache = {}
    n = 0
    for first in firsts:
        first = tuple(first)
        others = [c for c in permuted if c not in first]
        for p in itertools.permutations(others):
            seq = first + p + tuple(suffix)
            ok = compare_runs(v, base, seq, None, T, 'A-permutation', sf, cache)
            n += 1
            T.count('A_permutations')
            T.hist('A_permutation_outcome', 'agree' if ok else 'DIFFER')
            if seq != base:
                T.nontriv(('Ap', v['solver'], v['name'], seq))
    for r_ in cache.values():
        T.hist('A_trajectory_digest_by_config', '%s/%s/%d-perm:%s' % (v['solver'], v['name'], len(permuted), r_['traj'].hex()))
        T.state(('A', v['solver'], v['name'], len(permuted), r_['traj'], r_['rng_end']))
    T.sample({'part': 'A-permutation', 'solver': v['solver'], 'variant': v['name'], 'first': firsts[0], 'orders': n}, 1)
    return T


def sensitivity(v, calls):
    """non-vacuity: which single calls, when left out of the canonical sequence, change the observable run
    (an order-insensitive call that changes nothing would make agreeing orders prove nothing about it)"""
    calls = tuple(calls)
    sf = _savefile() if 'savefreq' in calls else None
    full = run_config(v, calls, sf)
    active = []
    for c in calls:
        r = run_config(v, tuple(x for x in calls if x != c), sf)
        if (r['traj'] != full['traj']) or (r['rng_end'] != full['rng_end']):
            active.append(c)
    return active


def variants(ctx):
    sd = ctx.seed
    return {
        'A1': {'name': 'A1', 'cost': 'sphere', 'init': 'point', 'x0': [3.0, -2.0], 'box': 'unit', 'con': 'clamp/pure',
               'pen': 'quad', 'term': 'never', 'limits': [4, None], 'seed': 11 + sd},
        # Powell spends ~150 evaluations per iteration: the quick lattice stops it after 2 generations (Steps 4-6 return the stop message)
        'A1p': {'name': 'A1p', 'cost': 'sphere', 'init': 'point', 'x0': [3.0, -2.0], 'box': 'unit', 'con': 'clamp/pure',
                'pen': 'quad', 'term': 'never', 'limits': [2, None], 'seed': 11 + sd},
        'A2': {'name': 'A2', 'cost': 'steps', 'init': 'random', 'initbox': 'unit', 'box': 'shift', 'clip': True,
               'con': 'tie/inplace', 'pen': 'ramp', 'term': 'cog1', 'limits': [None, 9], 'seed': 23 + sd},
        # thorough: array-valued cost + reducer
        'A3': {'name': 'A3', 'cost': 'vec', 'reducer': 'sum', 'init': 'point', 'x0': [0.8, -0.4], 'box': 'unit', 'clip': True,
               'con': 'round/pure', 'pen': 'quad', 'term': 'crt', 'limits': [5, 40], 'seed': 37 + sd},
        # thorough, small call sets only (slow settings): symbolic tight bounds / random re-entry bounds
        # (initial points are requested INSIDE the strict ranges: nothing is clipped, only the random stream matters)
        'A4': {'name': 'A4', 'cost': 'absum', 'init': 'random', 'initbox': 'unit', 'box': 'unit', 'tight': True,
               'con': 'pin1/inplace', 'pen': 'ramp', 'term': 'never', 'limits': [3, None], 'seed': 41 + sd, 'nsteps': 4},
        'A5': {'name': 'A5', 'cost': 'sphere', 'init': 'point', 'x0': [3.0, -2.0], 'box': 'unit', 'clip': False,
               'con': 'clamp/inplace', 'pen': 'quad', 'term': 'cog1', 'limits': [None, 12], 'seed': 43 + sd, 'nsteps': 4},
    }


# ====================================================================== (B) DE2 under a scripted map
def de2_cfgs(ctx):
    sd = ctx.seed
    out = [
        {'name': 'B2', 'cost': 'steps', 'seed': 102 + 7 * sd, 'initbox': 'unit', 'box': 'shift', 'con': 'clamp/inplace', 'pen': 'quad'},
        {'name': 'B3', 'cost': 'infwall', 'seed': 103 + 7 * sd, 'initbox': 'shift', 'box': 'shift', 'con': 'tie/pure', 'pen': 'ramp',
         'strategy': 'Rand1Bin'},
    ]
    if ctx.thorough:
        out += [
            {'name': 'B1', 'cost': 'sphere', 'seed': 101 + 7 * sd, 'initbox': 'unit'},
            {'name': 'B4', 'cost': 'illq', 'seed': 104 + 7 * sd, 'initbox': 'shift', 'box': 'unit', 'clip': True, 'con': 'round/pure',
             'strategy': 'Best1Exp'},
            {'name': 'B5', 'cost': 'vec', 'reducer': 'sum', 'seed': 105 + 7 * sd, 'initbox': 'unit', 'pen': 'quad', 'strategy': 'RandToBest1Exp'},
        ]
    return out


def de2_run(cfg, ch, mapkind, nsteps):
    """one DE2 run; mapkind in python (the serial default) / share / copy.
    -> (core trajectory, evaluations per step, sorted call multiset per step, orders used)"""
    from mystic.solvers import DifferentialEvolutionSolver2
    from mystic.monitors import Monitor
    import mystic.strategy as strat
    dim = cfg.get('dim', 2)
    rng = env.SeededRandom(cfg['seed'])
    rec = solverlab.Recorder(cfg['cost'], 20000)
    core, evals, calls = [], [], []
    kw = {}
    if cfg.get('strategy'):
        kw['strategy'] = getattr(strat, cfg['strategy'])
    with quiet(), env.owned_random(rng):
        s = DifferentialEvolutionSolver2(dim, cfg.get('npop', 4))
        lo, hi = solverlab.effective_box(cfg.get('initbox', 'unit'), dim)
        s.SetRandomInitialPoints(list(lo), list(hi))
        if cfg.get('box'):
            blo, bhi = solverlab.box_of(cfg['box'], dim)
            bk = {}
            if cfg.get('clip') is not None:
                bk['clip'] = cfg['clip']
            s.SetStrictRanges(list(blo), list(bhi), **bk)
        if cfg.get('con'):
            kind, variant = (cfg['con'].split('/') + ['pure'])[:2]
            s.SetConstraints(solverlab.Con(kind, variant == 'inplace'))
        if cfg.get('pen'):
            s.SetPenalty(solverlab.Pen(cfg['pen']))
        if cfg.get('reducer'):
            s.SetReducer(solverlab.REDUCERS[cfg['reducer']], arraylike=True)
        s.SetTermination(solverlab.make_term('never'))
        s.SetEvaluationMonitor(Monitor())
        s.SetGenerationMonitor(Monitor())
        m = None
        if mapkind != 'python':
            m = env.ScriptedMap(ch, copy=(mapkind == 'copy'), label='de2map')
            s.SetMapper(m)
        s.SetObjective(rec)
        for k in range(nsteps):
            n0 = len(rec.log)
            try:
                msg = s.Step(**kw)
            except solverlab.Horizon:
                msg = 'HORIZON'
            except Exception as e:
                msg = 'RAISED %s: %s' % (type(e).__name__, str(e)[:160])
            core.append((msg, tuple(_vec(p) for p in s.population), tuple(_fy(e) for e in s.popEnergy),
                         _vec(s.bestSolution), _fy(s.bestEnergy), int(s.generations), _mon(s._stepmon),
                         tuple(len(g) for g in s.genealogy), rng_digest(rng).hex()))
            evals.append(int(s.evaluations))
            calls.append(tuple(sorted(rec.log[n0:], key=repr)))
            if isinstance(msg, str) and msg.startswith(('RAISED', 'HORIZON')):
                break
    return tuple(core), tuple(evals), tuple(calls)


CORE_FIELDS = ('message', 'population', 'popEnergy', 'bestSolution', 'bestEnergy', 'generations', 'step monitor',
               'genealogy sizes', 'random generator state')


def _core_diff(a, b):
    for k, (x, y) in enumerate(zip(a, b)):
        if x != y:
            for name, p, q in zip(CORE_FIELDS, x, y):
                if p != q:
                    return name, 'generation %d: %s %s vs %s' % (k, name, _clip(p, 160), _clip(q, 160))
    return 'length', '%d vs %d steps' % (len(a), len(b))


def cost_returns_inf(cfg):
    return cfg['cost'] in ('infwall',)


def shard_de2(item):
    cfg, mapkind, nsteps, bound, fix = item
    T = Tally()
    ref = de2_run(cfg, None, 'python', nsteps)
    T.count('traces'); T.count('transitions', nsteps)
    nsched = 0
    seen = set()
    sub = None if bound is None else bound - sum(1 for c in fix if c)

    def run(ch):
        return de2_run(cfg, Pre(ch, fix), mapkind, nsteps)
    for ch, (core, evals, calls) in tree.explore(run, bound=sub):
        nsched += 1
        choices = list(fix) + ch.choices
        T.count('traces'); T.count('transitions', nsteps + len(choices))
        T.count('B_schedules')
        d = digest(repr((core, evals)))
        seen.add(d)
        T.hist('B_trajectory_digest_by_config', '%s/%s/%dgen:%s' % (cfg['name'], mapkind, nsteps, digest(repr(core)).hex()))
        if any(choices):
            T.nontriv(('B', cfg['name'], mapkind, nsteps, tuple(choices)))
        case = {'part': 'B', 'cfg': cfg, 'mapkind': mapkind, 'nsteps': nsteps, 'choices': choices}
        where = '[DE2 cfg=%s map=%s evaluation orders=%r]' % (cfg, mapkind, choices)
        if core != ref[0]:
            field, text = _core_diff(core, ref[0])
            T.violate({'part': 'B', 'clause': 'trajectory_vs_serial_default', 'mapkind': mapkind, 'field': field,
                       'cfg': cfg['name']}, case, 'DE2 trajectory under the scripted map differs from the serial default: %s %s' % (text, where))
        if mapkind == 'share' and calls != ref[2]:
            T.violate({'part': 'B', 'clause': 'evaluated_points_vs_serial_default', 'mapkind': mapkind, 'cfg': cfg['name']}, case,
                      'the multiset of points handed to the cost differs from the serial default %s' % where)
        if evals != ref[1]:
            T.violate({'part': 'B', 'clause': 'evaluations_vs_serial_default', 'mapkind': mapkind,
                       'cost_returns_inf': cost_returns_inf(cfg)}, case,
                      'DE2 solver.evaluations per generation %r, serial default %r %s' % (evals, ref[1], where))
    for d in seen:
        T.state(('B', cfg['name'], mapkind, nsteps, d))
    T.hist('B_distinct_digests_in_shard', len(seen))
    T.sample({'part': 'B', 'cfg': cfg, 'mapkind': mapkind, 'generations': nsteps, 'first_order_index': list(fix), 'schedules': nsched}, 1)
    return T


# ====================================================================== (C) ensembles
def ens_cfgs(ctx):
    sd = ctx.seed
    out = [
        {'name': 'C1', 'cost': 'sphere', 'box': 'unit', 'term': 'never', 'limits': [3, None], 'evalmon': False, 'seed': 201 + 5 * sd},
        # members stop at different generations (ChangeOverGeneration for some, the limit for others)
        {'name': 'C2', 'cost': 'sphere', 'box': 'shift', 'con': 'clamp/pure', 'pen': 'ramp', 'term': 'cog', 'limits': [5, None],
         'evalmon': True, 'seed': 202 + 5 * sd},
    ]
    if ctx.thorough:
        out.append({'name': 'C3', 'cost': 'rosen', 'box': 'shift', 'con': 'tie/inplace', 'term': 'ncog', 'limits': [5, 60],
                    'evalmon': True, 'seed': 203 + 5 * sd})
    return out


def ens_build(cfg, kind, nested, mapper):
    from mystic.solvers import LatticeSolver, BuckshotSolver, NelderMeadSimplexSolver, PowellDirectionalSolver
    from mystic.monitors import Monitor
    dim = 2
    if kind == 'B3':
        s = BuckshotSolver(dim, npts=3)
    elif kind == 'S3':          # start points come from fillpts (diffev on the python `random` stream)
        from mystic.solvers import SparsitySolver
        s = SparsitySolver(dim, npts=3)
    elif kind == 'Li6':         # integer nbins: randomly_bin orders the factors over the axes with random()
        s = LatticeSolver(dim, nbins=6)
    elif kind[0] == 'L' and kind[1:].isdigit() and len(kind) == 3:     # 'L22', 'L21', 'L33': bins per axis
        s = LatticeSolver(dim, nbins=(int(kind[1]), int(kind[2])))
    else:
        raise KeyError(kind)
    s.SetNestedSolver(NelderMeadSimplexSolver if nested == 'NM' else PowellDirectionalSolver)
    if cfg.get('box') is not None:
        lo, hi = cfg['box'] if isinstance(cfg['box'], (list, tuple)) else solverlab.box_of(cfg['box'], dim)
        s.SetStrictRanges(list(lo), list(hi))
    if cfg.get('con'):
        k, variant = (cfg['con'].split('/') + ['pure'])[:2]
        s.SetConstraints(solverlab.Con(k, variant == 'inplace'))
    if cfg.get('pen'):
        s.SetPenalty(solverlab.Pen(cfg['pen']))
    if cfg.get('limits') is not None:      # None: the ensemble is never given limits, members keep their own defaults
        s.SetEvaluationLimits(cfg['limits'][0], cfg['limits'][1])
    if cfg.get('evalmon'):
        s.SetEvaluationMonitor(Monitor())
    s.SetGenerationMonitor(Monitor())
    if cfg.get('term') == 'vtr8':
        import mystic.termination as mt
        t = mt.VTR(1e-8)
    else:
        t = solverlab.make_term(cfg.get('term', 'never'))
    if t is not None:
        s.SetTermination(t)
    s.SetObjective(solverlab.Recorder(cfg['cost'], 200000))
    if mapper is not None:
        s.SetMapper(mapper)
    return s


def _member_obs(m):
    return (m.id, _vec(m.bestSolution), _fy(m.bestEnergy), int(m.evaluations), int(m.generations))


def _member_deep(m):
    raw = m._cost[1]
    return (_mon(m._stepmon), _mon(m._evalmon), tuple(getattr(raw, 'log', ())))


def ens_observe(s):
    members = tuple(_member_obs(m) for m in s._allSolvers)
    result = (_vec(s.bestSolution), _fy(s.bestEnergy), members, int(s._total_evals))
    deep = (tuple(_member_deep(m) for m in s._allSolvers), _mon(s._stepmon), _mon(s._evalmon),
            int(s.evaluations), int(s.generations))
    return result, deep


RESULT_FIELDS = ('bestSolution', 'bestEnergy', 'per-member (id, best solution, best energy, evaluations, generations)',
                 'total evaluations')
DEEP_FIELDS = ('per-member (step monitor, evaluation monitor, cost call log)', 'ensemble step monitor',
               'ensemble evaluation monitor', 'ensemble evaluations', 'ensemble generations')


def _tuple_diff(names, a, b):
    if a is None or b is None or len(a) != len(b) or (a and isinstance(a[0], tuple) and a[0] and a[0][0] in ('RAISED', 'HORIZON')) \
            or (b and isinstance(b[0], tuple) and b[0] and b[0][0] in ('RAISED', 'HORIZON')):
        return 'exception', '%s vs %s' % (_clip(a, 260), _clip(b, 260))
    for n, x, y in zip(names, a, b):
        if x != y:
            if isinstance(x, tuple) and isinstance(y, tuple) and len(x) == len(y) and n.startswith('per-member'):
                for i, (p, q) in enumerate(zip(x, y)):
                    if p != q:
                        return n, 'member %d: %s vs %s' % (i, _clip(p, 200), _clip(q, 200))
            return n, '%s: %s vs %s' % (n, _clip(x, 200), _clip(y, 200))
    return '?', 'differ'


def ens_run(cfg, kind, nested, mode, mapper, max_steps=1500):
    """-> (result, deep, per-step trajectory (manual mode), number of ensemble steps)"""
    rng = env.SeededRandom(cfg['seed'])
    traj = []
    raised = None
    with quiet(), env.owned_random(rng):
        s = ens_build(cfg, kind, nested, mapper)
        try:
            if mode == 'solve':
                s.Solve()
            elif mode == 'solvestep':
                s.Solve(step=True)
            elif mode == 'manual':
                n = 0
                while True:
                    msg = s.Step()
                    n += 1
                    traj.append((msg, tuple(_member_obs(m) for m in s._allSolvers)))
                    if msg:
                        break
                    if n >= max_steps:
                        raise HarnessFault('manual Step loop did not stop within %d ensemble steps' % max_steps)
            elif mode == 'whileterm':       # the documented idiom: termination is asked BEFORE the first Step
                n = 0
                while not s.Terminated():
                    s.Step()
                    n += 1
                    traj.append((None, tuple(_member_obs(m) for m in s._allSolvers)))
                    if n >= max_steps:
                        raise HarnessFault('while not Terminated(): Step() did not stop within %d ensemble steps' % max_steps)
            else:
                raise KeyError(mode)
        except (HarnessFault, baton.HarnessFault, tree.Diverged, KeyError):
            raise
        except solverlab.Horizon as e:
            raised = ('HORIZON', str(e))
        except Exception as e:          # the library's exception is an outcome of this schedule / mode
            raised = ('RAISED', type(e).__name__, str(e)[:160])
        try:
            result, deep = ens_observe(s)
        except Exception as e:
            if raised is None:
                raise
            result, deep = ('unobservable after the exception',), None
    if raised is not None:
        result = (raised,) + tuple(result)
    return result, deep, tuple(traj)


MODES = ('solve', 'solvestep', 'manual')


def _make_mapper(mapkind, ch, max_preempt):
    if mapkind == 'python':
        return None
    if mapkind == 'share':
        return env.ScriptedMap(ch, copy=False, label='ensmap')
    if mapkind == 'copy':
        return env.ScriptedMap(ch, copy=True, label='ensmap')
    if mapkind == 'threads':
        return baton.BatonMap(ch, max_preempt=max_preempt, horizon=2000, label='baton')
    raise KeyError(mapkind)


def ens_exec(cfg, kind, nested, mode, mapkind, ch, max_preempt=0):
    m = _make_mapper(mapkind, ch, max_preempt)
    if mapkind == 'threads':
        with baton.step_boundaries():
            out = ens_run(cfg, kind, nested, mode, m)
    else:
        out = ens_run(cfg, kind, nested, mode, m)
    return out + (m,)


def ens_reference(cfg, kind, nested):
    """serial default (python_map) in the three modes; the cross-mode clause is judged here"""
    return {mode: ens_run(cfg, kind, nested, mode, None) for mode in MODES}


STEPWISE = ('solvestep', 'manual', 'whileterm')


def judge_modes(cfg, kind, nested, ref, T):
    """the serial default in every drive mode: Solve() / Solve(step=True) / `while True: Step()` until a message /
    `while not Terminated(): Step()` must agree in the result AND in every member's monitors, counters and call log"""
    ref = dict(ref)
    if 'whileterm' not in ref:
        ref['whileterm'] = ens_run(cfg, kind, nested, 'whileterm', None)
        T.count('traces'); T.count('transitions', len(ref['whileterm'][2]) + 1)
    base, bdeep = ref['solve'][0], ref['solve'][1]
    for mode in STEPWISE:
        T.count('C_mode_comparisons')
        case = {'part': 'C', 'cfg': cfg, 'kind': kind, 'nested': nested, 'mode': mode, 'mapkind': 'python', 'fix': [], 'choices': [],
                'max_preempt': 0}
        if ref[mode][0] != base:
            field, text = _tuple_diff(RESULT_FIELDS, ref[mode][0], base)
            T.violate({'part': 'C', 'clause': 'stepwise_vs_run_to_completion', 'ensemble': kind, 'nested': nested, 'mode': mode,
                       'field': field}, case,
                      '%s+%s: result in drive mode %s differs from Solve(): %s (this mode vs Solve) [cfg=%s]' % (kind, nested, mode, text, cfg))
        elif ref[mode][1] != bdeep:
            field, text = _tuple_diff(DEEP_FIELDS, ref[mode][1], bdeep)
            T.violate({'part': 'C', 'clause': 'stepwise_vs_run_to_completion_monitors', 'ensemble': kind, 'nested': nested, 'mode': mode,
                       'field': field}, case,
                      '%s+%s: member monitors / call logs in drive mode %s differ from Solve(): %s [cfg=%s]' % (kind, nested, mode, text, cfg))
    res = ref['solve'][0]
    if len(res) == 4:
        gens = [m[4] for m in res[2]]
        T.hist('C_member_generations_under_Solve', '%s/%s/%s:%s' % (cfg['name'], kind, nested, gens))
        if min(gens) == 0 and max(gens) > 0:
            T.count('C_configs_with_a_member_stopping_at_generation_0')
        if cfg.get('limits') is None and max(gens) > 10 * 2:
            T.count('C_configs_without_limits_needing_more_than_10nDim_member_iterations')


def shard_modes(item):
    """drive-mode comparison only (serial default map) for configurations that are too long for schedule exploration"""
    cfg, kind, nested = item
    T = Tally()
    ref = ens_reference(cfg, kind, nested)
    T.count('traces', 3); T.count('transitions', 3 + len(ref['manual'][2]))
    judge_modes(cfg, kind, nested, ref, T)
    T.hist('C_member_generations_at_stop', '%s/%s/%s:%s' % (cfg['name'], kind, nested, _stop_kinds(ref['manual'])))
    T.state(('Cm', cfg['name'], kind, nested, digest(repr(ref['solve'][0]))))
    T.nontriv(('Cm', cfg['name'], kind, nested))
    T.sample({'part': 'C-modes', 'cfg': cfg, 'ensemble': kind, 'nested': nested, 'modes': ['solve'] + list(STEPWISE)}, 1)
    return T


def mode_cfgs(ctx):
    """(configuration, ensemble kinds) judged across the drive modes only"""
    sd = ctx.seed
    out = [
        # no SetEvaluationLimits on the ensemble, default termination: members run on their own default limits and need
        # about 100 (NM) / 25 (Powell) iterations on rosen - far more than the ensemble's own default of 10*nDim
        ({'name': 'C5', 'cost': 'rosen', 'box': 'unit', 'term': 'default', 'limits': None, 'evalmon': False, 'seed': 205 + 5 * sd},
         ('L22', 'B3') if ctx.thorough else ('L22',)),
        # 3x3 lattice whose centre cell starts on the optimum of the sphere cost: that member meets VTR(1e-8) at generation 0
        # while the other eight need ~30 more ensemble steps
        ({'name': 'C6', 'cost': 'sphere', 'box': [[-0.7, -0.4], [1.3, 1.6]], 'term': 'vtr8', 'limits': [80, None], 'evalmon': True,
          'seed': 206 + 5 * sd}, ('L33',)),
    ]
    # ensembles whose start points are drawn from the python `random` stream that building the members also uses
    out.append(({'name': 'C8', 'cost': 'sphere', 'box': 'unit', 'term': 'never', 'limits': [3, None], 'evalmon': False, 'seed': 208 + 5 * sd},
                ('S3', 'Li6')))
    if ctx.thorough:
        out.append(({'name': 'C9', 'cost': 'rosen', 'box': 'shift', 'term': 'cog', 'limits': [6, None], 'evalmon': True, 'seed': 209 + 5 * sd},
                    ('S3', 'Li6')))
        out.append(({'name': 'C7', 'cost': 'sphere', 'box': [[-0.7, -0.4], [1.3, 1.6]], 'term': 'vtr8', 'limits': None, 'evalmon': False,
                     'seed': 207 + 5 * sd}, ('L33', 'L21')))
    return out


def shard_ens(item):
    cfg, kind, nested, mode, mapkind, bound, max_preempt, fix, judge_ref = item
    T = Tally()
    ref = ens_reference(cfg, kind, nested)
    T.count('traces', 3); T.count('transitions', 3)
    if judge_ref:
        judge_modes(cfg, kind, nested, ref, T)
        T.hist('C_member_generations_at_stop', '%s/%s/%s:%s' % (cfg['name'], kind, nested, _stop_kinds(ref['manual'])))
    rres, rdeep, rtraj = ref[mode]
    sub = None if bound is None else bound - sum(1 for c in fix if c)
    seen = set()
    nsched = 0

    def run(ch):
        return ens_exec(cfg, kind, nested, mode, mapkind, Pre(ch, fix), max_preempt)
    for ch, (res, deep, traj, m) in tree.explore(run, bound=sub):
        nsched += 1
        choices = list(fix) + ch.choices
        T.count('traces'); T.count('transitions', len(choices) + (getattr(m, 'handoffs', 0) or getattr(m, 'calls', 0)))
        T.count('C_schedules_%s' % mapkind)
        seen.add(digest(repr((res, deep))))
        T.hist('C_result_digest_by_config', '%s/%s/%s:%s' % (cfg['name'], kind, nested, digest(repr(res)).hex()))
        if mapkind == 'threads':
            T.hist('C_thread_preemptions', m.preemptions)
            T.hist('C_thread_max_concurrently_started_members', m.max_concurrent)
            nt = m.preemptions > 0 or any(choices)
        else:
            nt = any(choices)
        if nt:
            T.nontriv(('C', cfg['name'], kind, nested, mode, mapkind, tuple(choices)))
        case = {'part': 'C', 'cfg': cfg, 'kind': kind, 'nested': nested, 'mode': mode, 'mapkind': mapkind,
                'fix': [], 'choices': choices, 'max_preempt': max_preempt}
        where = '[%s+%s cfg=%s mode=%s map=%s choices=%r]' % (kind, nested, cfg, mode, mapkind, choices)
        sig = {'part': 'C', 'ensemble': kind, 'nested': nested, 'mode': mode, 'mapkind': mapkind}
        if res != rres:
            field, text = _tuple_diff(RESULT_FIELDS, res, rres)
            T.violate(dict(sig, clause='result_vs_serial_default', field=field), case,
                      'ensemble result depends on the map schedule: %s (this schedule vs serial default) %s' % (text, where))
        elif deep != rdeep:
            field, text = _tuple_diff(DEEP_FIELDS, deep, rdeep)
            T.violate(dict(sig, clause='monitors_or_calls_vs_serial_default', field=field), case,
                      'ensemble monitors / member call logs depend on the map schedule: %s %s' % (text, where))
        elif mode == 'manual' and traj != rtraj:
            T.violate(dict(sig, clause='stepwise_trajectory_vs_serial_default'), case,
                      'per-step member states of the manual Step loop depend on the map schedule %s' % where)
    for d in seen:
        T.state(('C', cfg['name'], kind, nested, mode, mapkind, d))
    T.hist('C_distinct_outcomes_in_shard', len(seen))
    T.sample({'part': 'C', 'cfg': cfg, 'ensemble': kind, 'nested': nested, 'mode': mode, 'map': mapkind,
              'max_preempt': max_preempt, 'deviation_bound': bound, 'prefix': list(fix), 'schedules': nsched}, 1)
    return T


def _stop_kinds(ref):
    res, deep, traj = ref
    if len(res) != 4:
        return 'exception in the serial default: %s' % (res[0],)
    msg = (traj[-1][0] or '') if traj else '?'
    return '%s after %d ensemble steps, member generations %s' % (msg.split(' ')[0], len(traj), [m[4] for m in res[2]])


# ====================================================================== (D) no state shared between solver instances
# Configuration A alone in a fresh process versus "some other solver B configured and run first, then A" in one
# process: A's settings state, trajectory and random-generator state must not depend on B (module-level caches,
# class attributes, anything that outlives a solver instance).  Every scenario runs in a process forked from the
# still pristine parent (before the parent itself has built any solver), so "alone" really is alone.
def iso_base(ctx):
    # the optimum of the cost lies outside the box: every solver keeps pushing candidates across the faces
    return {'name': 'D0', 'cost': 'sphere', 'init': 'point', 'x0': [-0.6, -0.55], 'box': 'neg', 'clip': True, 'con': None, 'pen': 'const',
            'term': 'never', 'limits': [5, None], 'seed': 301 + 3 * ctx.seed}


ISO_SETTINGS = [   # (setting, value in A, value in B): A and B differ in this one setting only (same bounds, same seed)
    ('clip', True, False), ('clip', False, True), ('clip', True, None), ('clip', None, True), ('clip', False, None), ('clip', None, False),
    ('tight', True, None), ('tight', None, True),
    ('con', None, 'tie/pure'), ('con', 'tie/pure', None),
    ('pen', 'const', None), ('pen', None, 'const'),
    ('term', 'never', 'cog1'), ('term', 'cog1', 'never'),
]
ISO_OTHER_CLASS = {'NM': 'DE2', 'Powell': 'NM', 'DE': 'Powell', 'DE2': 'DE'}


def _iso_variant(base, solver, setting, value):
    v = dict(base, solver=solver, dim=2)
    if setting == 'tight':
        v['clip'] = None        # SetStrictRanges rejects clip together with tight=False; tight is varied on the default clip
    v[setting] = value
    v['nsteps'] = 6
    if solver.startswith('DE'):     # a population spread over the whole box: difference vectors carry trials across the faces
        v['init'] = 'random'
        v['initbox'] = v['box']
    return v


def iso_scenarios(ctx):
    """-> list of (key of A, A, B or None)"""
    base = iso_base(ctx)
    out, seen = [], set()
    for solver in solverlab.SOLVERS:
        pairs = [(st, a, b, solver) for st, a, b in ISO_SETTINGS]
        pairs += [('clip', False, True, ISO_OTHER_CLASS[solver]), ('clip', True, False, ISO_OTHER_CLASS[solver])]   # B is another solver class
        for st, a, b, bsolver in pairs:
            A = _iso_variant(base, solver, st, a)
            B = _iso_variant(base, bsolver, st, b)
            ka = '%s:%s=%s' % (solver, st, a)
            if ka not in seen:
                seen.add(ka)
                out.append((ka, A, None))
            out.append((ka, A, B))
    return out


def _iso_task(item):
    """runs in a freshly forked process: [B,] then A; returns A's observations"""
    key, A, B = item
    try:
        import warnings
        warnings.filterwarnings('ignore')
        rb = run_config(B, CALLS_Q) if B is not None else None
        ra = run_config(A, CALLS_Q, want='full')
        return (key, None, {'traj': ra['traj'], 'rng_end': ra['rng_end'], 'canon': ra['canons'][len(CALLS_Q)], 'raw_traj': ra['raw_traj'],
                            'raw_canon': ra['raw_canons'][len(CALLS_Q)], 'nsteps': ra['nsteps_run'],
                            'b_traj': rb['traj'] if rb else None})
    except BaseException:
        import traceback
        return (key, traceback.format_exc(), None)


def _fresh_map(tasks, nproc):
    import multiprocessing as mp
    with mp.get_context('fork').Pool(max(1, min(nproc, len(tasks))), maxtasksperchild=1) as pool:
        return pool.map(_iso_task, tasks, 1)


def part_isolation(ctx, T, scenarios=None):
    from mc import runner
    sc = scenarios if scenarios is not None else iso_scenarios(ctx)
    res = _fresh_map(sc, runner.NPROC)
    alone = {}
    for (key, A, B), (k2, err, r) in zip(sc, res):
        if err:
            T.notes.append('HARNESS-FAULT in isolation scenario %s:\n%s' % (key, err))
            T.count('harness_faults')
            continue
        T.count('traces'); T.count('transitions', len(CALLS_Q) * (2 if B else 1) + r['nsteps'])
        if B is None:
            alone[key] = r
            T.state(('D', key, r['traj']))
    for (key, A, B), (k2, err, r) in zip(sc, res):
        if err or B is None or key not in alone:
            continue
        ref = alone[key]
        setting = [k for k in ('clip', 'tight', 'con', 'pen', 'term') if A.get(k) != B.get(k)]
        setting = setting[0] if setting else '?'
        T.count('D_pairs')
        T.nontriv(('D', key, B['solver'], setting, repr(B.get(setting))))
        T.hist('D_B_alone_behaves_differently_from_A', '%s/%s=%r vs %r:%s' % (A['solver'], setting, A.get(setting), B.get(setting), 'yes' if r['b_traj'] != ref['traj'] else 'no'))
        bad = []
        if r['canon'] != ref['canon']:
            field, text = _first_canon_diff(r['raw_canon'], ref['raw_canon'])
            bad.append(('settings_state', field, text))
        if r['traj'] != ref['traj']:
            field, text = _first_traj_diff(r['raw_traj'], ref['raw_traj'])
            bad.append(('trajectory', field, text))
        elif r['rng_end'] != ref['rng_end']:
            bad.append(('rng_state_after_run', 'random generator', 'the owned random generator ends in a different state'))
        T.hist('D_outcome', 'independent' if not bad else 'DEPENDS on the earlier solver')
        for clause, field, text in bad:
            T.violate({'part': 'D', 'clause': clause, 'solver': A['solver'], 'differs_in': setting, 'A_value': repr(A.get(setting)),
                       'B_value': repr(B.get(setting)), 'B_other_class': B['solver'] != A['solver'], 'field': field},
                      {'part': 'D', 'key': key, 'A': A, 'B': B},
                      '%s configured with %s=%r behaves differently when a %s with %s=%r (same bounds, same seed) was configured and run '
                      'earlier in the same process: %s (after B vs alone) [A=%s]'
                      % (A['solver'], setting, A.get(setting), B['solver'], setting, B.get(setting), text, _short(A)))
    T.sample({'part': 'D', 'A': sc[0][1], 'B': sc[1][2]}, 1)


# ====================================================================== dispatch / run / replay
def _dispatch(item):
    kind, payload = item
    try:
        return {'Ad': shard_diamond, 'Ap': shard_perms, 'B': shard_de2, 'C': shard_ens, 'Cm': shard_modes}[kind](payload)
    finally:
        d = os.path.join(tempfile.gettempdir(), 'verif-c07-%d' % os.getpid())
        if os.path.isdir(d):
            import shutil
            shutil.rmtree(d, ignore_errors=True)


def _fixes(nopt, bound, two_level=True):
    """shard prefixes over the first choice point(s): under a deviation bound the all-default branch carries most of
    the tree, so it is split once more"""
    if nopt <= 1:
        return [[]]
    if bound is None or not two_level:
        return [[c] for c in range(nopt)]
    return [[c] for c in range(1, nopt)] + [[0, c] for c in range(nopt)]


def _chunks(n, size):
    return [(i, min(n, i + size)) for i in range(0, n, size)]


def plan(ctx):
    th = ctx.thorough
    V = variants(ctx)
    items = []
    info = {}
    # ---------------- (A)
    full_calls = CALLS_T[:-1] if th else CALLS_Q          # thorough: + reducer (10 calls); savefreq handled below
    lattice = []
    for solver in solverlab.SOLVERS:
        if th:      # 10-call lattices: A3 (array cost + reducer) on every solver, A1 / A2 on two solvers each (quick has A1 on all at 9 calls)
            names = ['A3'] + (['A1'] if solver in ('Powell', 'DE') else ['A2'])
        else:
            names = ['A1p'] if solver == 'Powell' else ['A1']
        for nm in names:
            lattice.append((solver, nm, full_calls, None))
        if th:
            if solver in ('NM', 'DE2'):   # (SetSaveFrequency is base-class code; a dump costs ~20 ms, so two solvers)
                lattice.append((solver, 'A1', CALLS_T, 'savefreq'))   # every diamond in which SetSaveFrequency is a or b
            for nm in ('A4', 'A5'):
                lattice.append((solver, nm, ('init', 'ranges', 'constraints', 'penalty', 'objective', 'limits'), None))
    if not th:      # symbolic (tight=True) bounds are slow to build: a 4-call lattice on two solvers
        for solver in ('NM', 'DE2'):
            lattice.append((solver, 'A4', ('init', 'ranges', 'constraints', 'objective'), None))
    active_tab = {}
    for solver, nm, calls, only in lattice:
        v = dict(V[nm], solver=solver, dim=2)
        act = sensitivity(v, calls)
        ctx.tally.count('traces', len(calls) + 1)
        active_tab['%s/%s/%d' % (solver, nm, len(calls))] = act
        v['_active'] = act
        nd = len(_diamond_list(tuple(calls), only))
        size = 96 if solver == 'Powell' or only else 144
        if len(calls) <= 6:
            size = 60
        for lo, hi in _chunks(nd, size):
            items.append(('Ad', (v, list(calls), lo, hi, only)))
        info['%s/%s/%d calls%s' % (solver, nm, len(calls), '/pairs with savefreq' if only else '')] = nd
    # literal permutations
    if th:
        permuted = ('init', 'ranges', 'constraints', 'penalty', 'objective', 'limits', 'evalmon', 'reducer')
        suffix = ('term', 'stepmon')
        pv = {'NM': 'A3', 'Powell': 'A1', 'DE': 'A2', 'DE2': 'A3'}
        firsts = [[(a, b)] for a in permuted for b in permuted if a != b]      # 56 shards x 720 orders
    else:
        permuted = ('init', 'ranges', 'constraints', 'penalty', 'objective', 'evalmon')
        suffix = ('term', 'limits', 'stepmon')
        pv = {'NM': 'A2', 'Powell': 'A2', 'DE': 'A2', 'DE2': 'A1'}
        firsts = [[(a,)] for a in permuted]                                   # 6 shards x 120 orders
    for solver in solverlab.SOLVERS:
        v = dict(V[pv[solver]], solver=solver, dim=2)
        for f in firsts:
            items.append(('Ap', (v, list(permuted), list(suffix), f)))
    info['literal permutations'] = '%d orders of %d calls per solver' % (math.factorial(len(permuted)), len(permuted))
    # ---------------- (B)
    bplan = [(3, None)] if th else [(3, 2)]
    if th:
        bplan.append((4, 2))
    for cfg in de2_cfgs(ctx):
        for mapkind in ('share', 'copy'):
            for nsteps, bound in bplan:
                if th and mapkind == 'copy' and (cfg['name'] in ('B1', 'B4', 'B5')) != (nsteps == 4):
                    continue        # the copying map costs ~10x the sharing one: B2, B3 complete over 3 generations, the others at 4 generations with bound 2
                if not th and mapkind == 'copy' and cfg['name'] == 'B2':
                    bound = 1       # quick: the copying map gets the full bound on B3 only (a dill copy per work item is ~10x the cost)
                for fix in _fixes(24, bound):
                    items.append(('B', (cfg, mapkind, nsteps, bound, fix)))
    info['B plan (generations, deviation bound; None = complete)'] = bplan
    # ---------------- (C)
    cplan = []
    kinds = ('L21', 'B3', 'L22')
    nmem = {'L21': 2, 'B3': 3, 'L22': 4}
    for cfg in ens_cfgs(ctx):
        for kind in kinds:
            for nested in ('NM', 'Powell'):
                n = nmem[kind]
                nf = math.factorial(n)
                # run to completion: one map call, every order, sharing and copying
                for mapkind in ('share', 'copy'):
                    cplan.append((cfg, kind, nested, 'solve', mapkind, None, 0, [[c] for c in range(nf)] if nf > 6 else [[]]))
                # step-wise modes, sharing map: every order per map call, deviation bound across the calls
                for mode in ('solvestep', 'manual'):
                    if th:
                        b = {'L21': 4, 'B3': 3, 'L22': 2}[kind] if mode == 'manual' else {'L21': 4, 'B3': 2, 'L22': 1}[kind]
                    else:
                        b = {'L21': 3, 'B3': 2 if mode == 'manual' else 1, 'L22': 1}[kind]
                    cplan.append((cfg, kind, nested, mode, 'share', b, 0, _fixes(nf, b)))
                # step-wise modes, copying map (slow: dill copies the whole ensemble for every work item)
                if cfg['name'] in ('C1', 'C2') if th else cfg['name'] == 'C1':
                    for mode in ('solvestep', 'manual'):
                        if th:
                            bc = {'L21': 3, 'B3': 2 if (nested, mode) == ('NM', 'manual') else 1, 'L22': 1 if mode == 'manual' else 0}[kind]
                        else:
                            pick = (mode == 'manual') == (nested == 'NM')
                            bc = {'L21': 2 if pick else 0, 'B3': 1 if (nested, mode) == ('NM', 'manual') else 0, 'L22': 0}[kind]
                        if bc:
                            cplan.append((cfg, kind, nested, mode, 'copy', bc, 0, _fixes(nf, bc)))
                # real threads under the baton scheduler: Solve() with bounded preemptions at member-Step boundaries
                mp = (2 if cfg['name'] in ('C1', 'C2') else 1) if th else 1
                tf = [[c] for c in range(n)] if mp < 2 else [[c, d] for c in range(n) for d in range(n)]
                if th or not (kind == 'L22' and cfg['name'] == 'C2' and nested == 'Powell'):    # quick: the slowest 600-schedule row is left to thorough
                    cplan.append((cfg, kind, nested, 'solve', 'threads', None, mp, tf))
                bt = 2 if th else 1
                cplan.append((cfg, kind, nested, 'manual' if nested == 'NM' else 'solvestep', 'threads', bt, 1, _fixes(n, bt)))
    for cfg, mkinds in mode_cfgs(ctx):
        for kind in mkinds:
            for nested in ('NM', 'Powell'):
                items.append(('Cm', (cfg, kind, nested)))
                if kind == 'Li6':       # which axis gets which factor is one random ordering: three more seeds
                    for k in (1, 2, 3):
                        items.append(('Cm', (dict(cfg, name='%s.%d' % (cfg['name'], k), seed=cfg['seed'] + 1000 * k), kind, nested)))
    info['C drive-mode-only configurations'] = [(c['name'], list(k)) for c, k in mode_cfgs(ctx)]
    first = set()
    for cfg, kind, nested, mode, mapkind, bound, mp, fixes in cplan:
        for fix in fixes:
            key = (cfg['name'], kind, nested)
            items.append(('C', (cfg, kind, nested, mode, mapkind, bound, mp, fix, key not in first)))
            first.add(key)
    info['C plan rows (cfg, ensemble, nested, mode, map, deviation bound, max preemptions)'] = \
        sorted(set((k, m, mk, b, mp) for _, k, _, m, mk, b, mp, _ in cplan))
    return items, info, active_tab


def run(ctx):
    parts = os.environ.get('VERIF_PARTS')
    if not parts or 'D' in parts.split(','):
        part_isolation(ctx, ctx.tally)        # first: the parent has not built a single solver yet
    items, info, active_tab = plan(ctx)
    if parts:
        items = [it for it in items if it[0][0] in parts.split(',')]
    mk = os.environ.get('VERIF_C07_MAPKIND')        # development aid: restrict part C to one kind of map ('modes': the drive-mode shards)
    if mk:
        items = [it for it in items if it[0] not in ('C', 'Cm') or (it[0] == 'C' and it[1][4] == mk) or (it[0] == 'Cm' and mk == 'modes')]
    # heavy shards first (better packing on the pool)
    order = {'Cm': 0, 'C': 0, 'B': 1, 'Ad': 2, 'Ap': 3}
    items.sort(key=lambda it: order[it[0]])
    ctx.bounds = {'A_calls_quick': list(CALLS_Q), 'A_calls_thorough': list(CALLS_T), 'A_steps': NSTEPS,
                  'A_variants': variants(ctx), 'A_diamonds_per_lattice': info, 'A_calls_that_change_the_run': active_tab,
                  'D_base': iso_base(ctx), 'D_pairs(setting, A, B)': ISO_SETTINGS, 'D_other_class_B': ISO_OTHER_CLASS,
                  'B_configs': de2_cfgs(ctx), 'C_configs': ens_cfgs(ctx), 'C_drive_mode_configs': [dict(c, ensembles=list(k)) for c, k in mode_cfgs(ctx)],
                  'C_drive_modes': ['Solve()', 'Solve(step=True)', 'while True: msg = Step() until msg', 'while not Terminated(): Step()'], 'ensembles': ['Lattice(2,1)', 'Buckshot(3)', 'Lattice(2,2)'],
                  'nested': ['NelderMeadSimplexSolver', 'PowellDirectionalSolver'], 'shards': len(items)}
    ctx.rule = ("(A) every diamond (U, a, b) of the configuration-call lattice and every literal order of a smaller call set, each executed "
                "on a fresh real solver and followed by 6 Steps; a diamond is non-trivial when leaving out a and leaving out b each changes the "
                "observable run of that variant (measured, see A_calls_that_change_the_run). (B) every evaluation order of the 4 DE2 work items "
                "per map call within the deviation bound, sharing and dill-copying map; (C) every member order per map call (deviation bound "
                "across calls), Solve / Solve(step=True) / manual Step loop, sharing / copying map, and every baton-thread schedule with hand-offs "
                "at member Step boundaries within the preemption bound; under the serial default map the four drive modes (C_drive_modes) are compared in result, per-member counters, monitors and call logs on every configuration, including one without any evaluation limits whose members need far more than 10*nDim iterations and one with a member that terminates at generation 0. In (B),(C) a schedule is non-trivial when it differs from the serial order. "
                "(D) every (solver, A, B) with A and B differing in one setting: A alone in a fresh process vs B-then-A in one process. states = distinct (configuration, outcome digest) pairs: the *_digest_by_config histograms must show one digest per configuration.")
    ctx.assumptions = ["the copying map (dill copies of function, arguments and results) stands in for a process pool; real OS scheduling is not explored",
                       "thread schedules are explored at member-Step granularity (one thread runs at a time)",
                       "map results are returned in index order (the map contract)",
                       "VERIF_SEED rotates the seeds of the seeded generator only",
                       "DE2 counter comparison between maps is reported under its own clause when the cost itself returns inf "
                       "(the copying path estimates the count from the energies)"]
    ctx.pmap(_dispatch, items)
    _summarise(ctx)


def _summarise(ctx):
    h = ctx.tally.h
    lines = []
    for name in ('A_trajectory_digest_by_config', 'B_trajectory_digest_by_config', 'C_result_digest_by_config'):
        per = {}
        for key, n in h.get(name, {}).items():
            cfg, dg = key.rsplit(':', 1)
            per.setdefault(cfg, {})[dg] = n
        if per:
            worst = max(len(d) for d in per.values())
            total = sum(sum(d.values()) for d in per.values())
            lines.append('%s: %d configurations, %d executions, max distinct digests per configuration = %d'
                         % (name, len(per), total, worst))
            h[name + '_summary'] = {cfg: '%d executions -> %d digest(s)' % (sum(d.values()), len(d)) for cfg, d in sorted(per.items())}
            del h[name]
    ctx.explanation = '; '.join(lines)


def replay(case):
    T = Tally()
    part = case.get('part')
    if part == 'A':
        v = case['variant']
        calls = tuple(case['seq1'])
        sf = _savefile() if 'savefreq' in calls else None
        compare_runs(v, tuple(case['seq1']), tuple(case['seq2']), case.get('mid'), T, 'A-replay', sf, None)
    elif part == 'B':
        cfg = case['cfg']
        # the whole recorded schedule is the fixed prefix, nothing is explored below it
        T = shard_de2((cfg, case['mapkind'], case['nsteps'], sum(1 for c in case['choices'] if c), list(case['choices'])))
    elif part == 'D':
        class _C(object):
            seed = 0
        part_isolation(_C, T, [(case['key'], case['A'], None), (case['key'], case['A'], case['B'])])
    elif part == 'C':
        cfg = case['cfg']
        fix = list(case.get('fix', [])) + list(case.get('choices', []))
        if case['mapkind'] == 'python':
            judge_modes(cfg, case['kind'], case['nested'], ens_reference(cfg, case['kind'], case['nested']), T)
        else:
            T = shard_ens((cfg, case['kind'], case['nested'], case['mode'], case['mapkind'],
                           sum(1 for c in fix if c), case.get('max_preempt', 0), fix, False))
    return [v['detail'] for v in T.violations.values()]
