"""C07 - results depend only on configuration and seed, not on call order or schedule.

(A) E1 diamond check + literal permutations of the configuration calls on NM, Powell, DE, DE2:
    for every subset U of the call set (in canonical order) and every pair a,b outside U the solver configured
    U.a.b.rest and U.b.a.rest must agree in (i) the canonical settings state right after U.a.b / U.b.a,
    (ii) the state of the owned random generator after configuration and after the run and (iii) the bit-exact
    6-step trajectory (per step: message, population, popEnergy, best, counters, both monitors, the cost call log).
    A smaller call set is additionally run in every literal order.
(B) E2: DifferentialEvolutionSolver2 under env.ScriptedMap - every evaluation order of the NP work items of every
    map call (deviation bound over the calls), sharing objects and on dill copies (the process-pool stand-in);
    oracle: one trajectory digest per configuration, equal to the serial default's (python_map).
(C) E2: ensembles (Lattice (2,2) / (2,1), Buckshot 3; nested NM / Powell): every member order per map call, sharing
    and copying map, Solve() vs Solve(step=True) vs a manual Step loop, and real threads under the baton scheduler
    of mc/c07_baton.py (hand-off at every member Step, bounded preemptions); oracle: one result per configuration.
"""
import os, sys, io, itertools, contextlib, tempfile, math
import numpy as np
from mc import env, tree, solverlab
from mc import c07_baton as baton
from mc.runner import Tally, digest

INF = float('inf')


# ====================================================================== shared helpers
def _vec(v):
    return tuple(float(a) for a in np.asarray(v, dtype=float).ravel())


def _fy(v):
    try:
        a = np.asarray(v, dtype=float)
        return float(a) if a.ndim == 0 else tuple(float(b) for b in a.ravel())
    except Exception:
        return repr(v)


def _mon(m):
    """(x, y) content of a monitor; Null -> empty"""
    if not len(m):
        return ((), ())
    return (tuple(_vec(x) for x in m._x), tuple(_fy(y) for y in m._y))


def rng_digest(rng):
    st, nst = rng.getstate()
    return digest(repr((st, nst[0], nst[1].tobytes(), nst[2], nst[3], repr(nst[4]))))


@contextlib.contextmanager
def quiet():
    old = sys.stdout
    sys.stdout = io.StringIO()
    try:
        yield
    finally:
        sys.stdout = old


class HarnessFault(Exception):
    pass


class Pre(object):
    """chooser wrapper: the first len(fix) choice points are answered from `fix` (shard prefix),
    the rest by the wrapped chooser"""

    def __init__(self, ch, fix):
        self.ch = ch
        self.fix = list(fix)
        self.i = 0
        self.seen = []

    def choose(self, n, label=None):
        if self.i < len(self.fix):
            c = self.fix[self.i]
            self.i += 1
            if c >= n:
                raise tree.Diverged('shard prefix choice %d out of range (%d options, %r)' % (c, n, label))
            self.seen.append((c, n, label))
            return c
        return self.ch.choose(n, label)


# ====================================================================== canonical settings state
def canon(s, tags):
    """every entry of solver.__dict__ as hashable data; unknown objects raise (nothing dropped silently)"""
    return tuple((k, _cv(v, tags, 0)) for k, v in sorted(s.__dict__.items()))


def _cv(v, tags, depth):
    from mystic.monitors import Monitor, Null
    if v is None or isinstance(v, (bool, int, str, bytes)):
        return v
    if isinstance(v, float):
        return repr(v)
    t = tags.get(id(v))
    if isinstance(v, Null):
        return ('Null',)
    if isinstance(v, Monitor):
        return ('mon', t or type(v).__name__, _cv(v._x, tags, depth + 1), _cv(v._y, tags, depth + 1),
                tuple(v._id), tuple(v._info), v.k, v._npts)
    if t is not None:
        return ('tag', t)
    if isinstance(v, np.ndarray):
        return ('nd', str(v.dtype), v.shape, v.tobytes())
    if isinstance(v, np.generic):
        return ('ng', str(v.dtype), repr(v.item()))
    if depth > 7:
        return ('deep', type(v).__name__)
    if isinstance(v, (list, tuple)):
        return (type(v).__name__,) + tuple(_cv(x, tags, depth + 1) for x in v)
    if isinstance(v, dict):
        return ('dict',) + tuple((repr(k), _cv(x, tags, depth + 1)) for k, x in sorted(v.items(), key=lambda kv: repr(kv[0])))
    if isinstance(v, (set, frozenset)):
        return ('set',) + tuple(sorted(repr(x) for x in v))
    code = getattr(v, '__code__', None)
    if code is not None:
        cells = ()
        if v.__closure__:
            cells = tuple(_cell(c, tags, depth + 1) for c in v.__closure__)
        return ('fn', getattr(v, '__module__', None), getattr(v, '__qualname__', None), code.co_firstlineno,
                digest(code.co_code), cells, v.__doc__ if isinstance(v.__doc__, str) and len(v.__doc__) < 200 else None)
    if isinstance(v, type) or type(v).__name__ in ('builtin_function_or_method', 'method', 'module'):
        return ('obj', repr(v))
    raise HarnessFault('canon: object %r of type %s is neither data nor registered' % (v, type(v)))


def _cell(c, tags, depth):
    try:
        return _cv(c.cell_contents, tags, depth)
    except ValueError:
        return ('emptycell',)


# ====================================================================== (A) configuration order
CALLS_Q = ('init', 'ranges', 'constraints', 'penalty', 'objective', 'term', 'limits', 'evalmon', 'stepmon')
CALLS_T = CALLS_Q + ('reducer', 'savefreq')
NSTEPS = 6


def _apply_call(s, name, v, objs):
    dim = v.get('dim', 2)
    if name == 'init':
        if v.get('init', 'point') == 'point':
            s.SetInitialPoints(list(v['x0']))
        else:
            lo, hi = solverlab.effective_box(v.get('initbox', 'unit'), dim)
            s.SetRandomInitialPoints(list(lo), list(hi))
    elif name == 'ranges':
        lo, hi = solverlab.box_of(v['box'], dim)
        kw = {}
        if v.get('tight') is not None:
            kw['tight'] = v['tight']
        if v.get('clip') is not None:
            kw['clip'] = v['clip']
        s.SetStrictRanges(list(lo), list(hi), **kw)
    elif name == 'constraints':
        s.SetConstraints(objs['con'])
    elif name == 'penalty':
        s.SetPenalty(objs['pen'])
    elif name == 'objective':
        s.SetObjective(objs['cost'])
    elif name == 'term':
        s.SetTermination(objs['term'])
    elif name == 'limits':
        s.SetEvaluationLimits(v['limits'][0], v['limits'][1])
    elif name == 'evalmon':
        s.SetEvaluationMonitor(objs['evalmon'])
    elif name == 'stepmon':
        s.SetGenerationMonitor(objs['stepmon'])
    elif name == 'reducer':
        s.SetReducer(solverlab.REDUCERS[v.get('reducer', 'sum')], arraylike=True)
    elif name == 'savefreq':
        s.SetSaveFrequency(2, objs['savefile'])
    else:
        raise KeyError(name)


def _objects(v, savefile=None):
    from mystic.monitors import Monitor
    con = None
    if v.get('con'):
        kind, variant = (v['con'].split('/') + ['pure'])[:2]
        con = solverlab.Con(kind, variant == 'inplace')
    objs = {'cost': solverlab.Recorder(v.get('cost', 'sphere'), 50000),
            'con': con,
            'pen': solverlab.Pen(v['pen']) if v.get('pen') else None,
            'term': solverlab.make_term(v.get('term', 'never')),
            'evalmon': Monitor(), 'stepmon': Monitor(), 'savefile': savefile}
    tags = {}
    for k, o in objs.items():
        if o is not None and not isinstance(o, str):
            tags[id(o)] = k
    return objs, tags


def _snapshot(s, rec, n0, msg):
    return (msg, tuple(_vec(p) for p in s.population), tuple(_fy(e) for e in s.popEnergy),
            _vec(s.bestSolution), _fy(s.bestEnergy), int(s.evaluations), int(s.generations),
            _mon(s._stepmon), _mon(s._evalmon), tuple(rec.log[n0:]))


SNAP_FIELDS = ('message', 'population', 'popEnergy', 'bestSolution', 'bestEnergy', 'evaluations', 'generations',
               'step monitor', 'evaluation monitor', 'cost call log')


def run_config(v, seq, savefile=None, want='digest', omit=None):
    """configure a fresh solver by the calls of `seq` in that order, then NSTEPS x Step.
    -> dict(canons=[digest after each call], rng_cfg, rng_end, traj) ; want='full' keeps the raw data"""
    rng = env.SeededRandom(v.get('seed', 0))
    objs, tags = _objects(v, savefile)
    full = (want == 'full')
    canons, raw_canons, traj = [], [], []
    with quiet(), env.owned_random(rng):
        s = solverlab.new_solver(v['solver'], v.get('dim', 2), v.get('npop', 4))
        tags[id(s)] = 'solver'
        for name in seq:
            try:
                _apply_call(s, name, v, objs)
                c = canon(s, tags)
            except HarnessFault:
                raise
            except Exception as e:
                c = ('RAISED', name, type(e).__name__, str(e)[:120])
            canons.append(digest(repr(c)))
            if full:
                raw_canons.append(c)
        rng_cfg = rng_digest(rng)
        rec = objs['cost']
        for k in range(v.get('nsteps', NSTEPS)):
            n0 = len(rec.log)
            try:
                msg = s.Step()
            except solverlab.Horizon:
                msg = 'HORIZON'
            except Exception as e:
                msg = 'RAISED %s: %s' % (type(e).__name__, str(e)[:120])
            traj.append(_snapshot(s, rec, n0, msg))
            if isinstance(msg, str) and msg.startswith(('RAISED', 'HORIZON')):
                break
        rng_end = rng_digest(rng)
        saved = None
        if savefile and 'savefreq' in seq and os.path.exists(savefile):
            try:
                import dill
                with open(savefile, 'rb') as f:
                    r = dill.load(f)
                saved = (int(r.generations), int(r.evaluations), _vec(r.bestSolution), _fy(r.bestEnergy))
            except Exception as e:
                saved = ('UNREADABLE', type(e).__name__)
            os.remove(savefile)
        traj.append(('saved', saved))
    out = {'canons': canons, 'rng_cfg': rng_cfg, 'rng_end': rng_end, 'traj': digest(repr(traj)),
           'nsteps_run': len(traj) - 1, 'ncalls': len(rec.log),
           'last_msg': traj[-2][0] if len(traj) > 1 else None}
    if full:
        out['raw_traj'] = traj
        out['raw_canons'] = raw_canons
    return out


def _first_traj_diff(ta, tb):
    for k, (a, b) in enumerate(zip(ta, tb)):
        if a != b:
            if a[0] == 'saved' or b[0] == 'saved':
                return 'restart file', 'restart file written by SetSaveFrequency: %r vs %r' % (a, b)
            for name, x, y in zip(SNAP_FIELDS, a, b):
                if x != y:
                    return name, 'step %d: %s differs: %s vs %s' % (k + 1, name, _clip(x), _clip(y))
    if len(ta) != len(tb):
        return 'length', 'trajectories have %d vs %d steps' % (len(ta), len(tb))
    return '?', 'digests differ'


def _clip(x, n=220):
    r = repr(x)
    return r if len(r) <= n else r[:n] + '...'


def _first_canon_diff(ca, cb):
    if not (isinstance(ca, tuple) and isinstance(cb, tuple)) or (ca and ca[0] == 'RAISED') or (cb and cb[0] == 'RAISED'):
        return 'exception', '%s vs %s' % (_clip(ca), _clip(cb))
    da, db = dict(ca), dict(cb)
    for k in sorted(set(da) | set(db)):
        if da.get(k) != db.get(k):
            return k, 'solver.%s = %s vs %s' % (k, _clip(da.get(k)), _clip(db.get(k)))
    return '?', 'canonical digests differ'


def compare_runs(v, seq1, seq2, mid, T, part, savefile=None, cache=None):
    """run both orders (through the cache), judge, record violations; mid = number of calls after which the
    settings state must already agree (None: only at the end of the configuration)"""
    def get(seq):
        if cache is not None and seq in cache:
            return cache[seq]
        r = run_config(v, seq, savefile)
        T.count('traces')
        T.count('transitions', len(seq) + r['nsteps_run'])
        T.hist('A_last_step_message', '%s:%s' % (v['solver'], (r['last_msg'] or 'None').split(' ')[0]))
        if cache is not None:
            cache[seq] = r
        return r
    r1, r2 = get(seq1), get(seq2)
    bad = []
    pos = (mid if mid is not None else len(seq1)) - 1
    if r1['canons'][pos] != r2['canons'][pos]:
        bad.append('settings_state')
    elif r1['canons'][-1] != r2['canons'][-1]:
        bad.append('settings_state')
    if r1['rng_cfg'] != r2['rng_cfg']:
        bad.append('rng_state_after_configuration')
    if r1['traj'] != r2['traj']:
        bad.append('trajectory')
    elif r1['rng_end'] != r2['rng_end']:
        bad.append('rng_state_after_run')
    if not bad:
        return True
    f1 = run_config(v, seq1, savefile, want='full')
    f2 = run_config(v, seq2, savefile, want='full')
    pair = _swapped(seq1, seq2)
    for clause in bad:
        if clause == 'settings_state':
            p = pos if f1['raw_canons'][pos] != f2['raw_canons'][pos] else len(seq1) - 1
            field, text = _first_canon_diff(f1['raw_canons'][p], f2['raw_canons'][p])
            text = 'after %d calls %s' % (p + 1, text)
        elif clause == 'trajectory':
            field, text = _first_traj_diff(f1['raw_traj'], f2['raw_traj'])
        else:
            field, text = 'random generator', 'the owned random generator is in a different state (%s)' % clause
        T.violate({'part': part, 'clause': clause, 'solver': v['solver'], 'calls': pair, 'field': field},
                  {'part': 'A', 'variant': v, 'seq1': list(seq1), 'seq2': list(seq2), 'mid': mid},
                  '%s: order %s vs %s: %s [variant %s]' % (v['solver'], '.'.join(seq1), '.'.join(seq2), text, _short(v)))
    return False


def _swapped(seq1, seq2):
    d = [a for a, b in zip(seq1, seq2) if a != b]
    if len(d) == 2:
        return '|'.join(sorted(d))
    return 'permutation'


def _short(v):
    return {k: x for k, x in v.items() if k not in ('solver', 'dim', 'npop')}


def diamonds(calls):
    out = []
    n = len(calls)
    for k in range(n - 1):
        for U in itertools.combinations(range(n), k):
            rest = [c for c in range(n) if c not in U]
            for a, b in itertools.combinations(rest, 2):
                r = [c for c in rest if c not in (a, b)]
                out.append((U, a, b, tuple(r)))
    return out


def _savefile():
    d = os.path.join(tempfile.gettempdir(), 'verif-c07-%d' % os.getpid())
    os.makedirs(d, exist_ok=True)
    return os.path.join(d, 'restart.pkl')


def shard_diamond(item):
    v, calls, lo, hi = item
    T = Tally()
    calls = tuple(calls)
    sf = _savefile() if 'savefreq' in calls else None
    cache = {}
    ds = diamonds(calls)[lo:hi]
    active = set(v.get('_active', calls))
    for U, a, b, r in ds:
        s1 = tuple(calls[i] for i in U + (a, b) + r)
        s2 = tuple(calls[i] for i in U + (b, a) + r)
        ok = compare_runs(v, s1, s2, len(U) + 2, T, 'A-diamond', sf, cache)
        T.count('A_diamonds')
        T.hist('A_diamond_outcome', 'agree' if ok else 'DIFFER')
        if calls[a] in active and calls[b] in active:
            T.nontriv(('A', v['solver'], v['name'], U, a, b))
    for r_ in cache.values():
        T.state(('A', v['solver'], v['name'], r_['traj'], r_['rng_end']))
    T.sample({'part': 'A-diamond', 'solver': v['solver'], 'variant': v['name'],
              'U': [calls[i] for i in ds[0][0]], 'a': calls[ds[0][1]], 'b': calls[ds[0][2]]}, 1)
    return T


def shard_perms(item):
    v, permuted, suffix, first = item
    T = Tally()
    sf = _savefile() if 'savefreq' in tuple(permuted) + tuple(suffix) else None
    base = tuple(permuted) + tuple(suffix)
    cache = {}
    others = [c for c in permuted if c != first]
    n = 0
    for p in itertools.permutations(others):
        seq = (first,) + p + tuple(suffix)
        ok = compare_runs(v, base, seq, None, T, 'A-permutation', sf, cache)
        n += 1
        T.count('A_permutations')
        T.hist('A_permutation_outcome', 'agree' if ok else 'DIFFER')
        if seq != base:
            T.nontriv(('Ap', v['solver'], v['name'], seq))
    for r_ in cache.values():
        T.state(('A', v['solver'], v['name'], r_['traj'], r_['rng_end']))
    T.sample({'part': 'A-permutation', 'solver': v['solver'], 'variant': v['name'], 'first': first, 'orders': n}, 1)
    return T


def shard_sensitivity(item):
    """non-vacuity: leaving any single call out of the canonical sequence must change the observable run
    (otherwise agreeing orders would prove nothing about that call)"""
    v, calls = item
    T = Tally()
    calls = tuple(calls)
    sf = _savefile() if 'savefreq' in calls else None
    full = run_config(v, calls, sf)
    T.count('traces'); T.count('transitions', len(calls) + full['nsteps_run'])
    active = []
    for c in calls:
        r = run_config(v, tuple(x for x in calls if x != c), sf)
        T.count('traces'); T.count('transitions', len(calls) - 1 + r['nsteps_run'])
        matters = (r['traj'] != full['traj']) or (r['rng_end'] != full['rng_end'])
        T.hist('A_call_changes_the_run', '%s:%s' % (c, 'yes' if matters else 'no'))
        if matters:
            active.append(c)
    T.state(('A-sens', v['solver'], v['name'], full['traj']))
    T.notes.append('ACTIVE %s %s %s' % (v['solver'], v['name'], ','.join(active)))
    return T


def variants(ctx):
    sd = ctx.seed
    base = [
        {'name': 'A1', 'cost': 'sphere', 'init': 'point', 'x0': [3.0, -2.0], 'box': 'unit', 'con': 'clamp/pure',
         'pen': 'ramp', 'term': 'never', 'limits': [4, None], 'seed': 11 + sd},
        {'name': 'A2', 'cost': 'steps', 'init': 'random', 'initbox': 'unit', 'box': 'shift', 'clip': True,
         'con': 'tie/inplace', 'pen': 'quad', 'term': 'cog1', 'limits': [None, 9], 'seed': 23 + sd},
    ]
    extra = [
        {'name': 'A3', 'cost': 'vec', 'reducer': 'sum', 'init': 'point', 'x0': [0.8, -0.4], 'box': 'unit', 'tight': True,
         'con': 'round/pure', 'pen': 'text', 'term': 'crt', 'limits': [5, 40], 'seed': 37 + sd},
        {'name': 'A4', 'cost': 'absum', 'reducer': 'max', 'init': 'random', 'initbox': 'shift', 'box': 'unit', 'clip': False,
         'con': 'pin1/inplace', 'pen': 'ramp', 'term': 'never', 'limits': [3, None], 'seed': 41 + sd},
    ]
    return base, extra


# ====================================================================== dispatch / run (parts B, C appended below)
def _dispatch(item):
    kind, payload = item
    return _SHARDS[kind](payload)


_SHARDS = {'Ad': shard_diamond, 'Ap': shard_perms, 'As': shard_sensitivity}
