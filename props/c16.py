"""C16 - constraint transforms land in their target set and leave conforming input alone.

Engine E3 (+E2 where a transform draws).  Every decorator is wrapped around the
identity; every (configuration, input vector, container) case is executed on the
real code as t(x) and t(t(x)); every answer of the numpy.random choice/uniform
draws inside `bounded` and of the shuffle / random() draws inside `unique` is a
choice point enumerated completely by mc.tree.explore.

Oracles (independent of the code under test): exact membership predicates for the
target set (Fraction arithmetic where rounding matters), selectivity (entries that
are not addressed are bit-identical), fixed point (t(t(x)) == t(x); t(x) == x when
x conforms) and plain list models for the input-rewriting decorators.
"""
import itertools, math, struct
from fractions import Fraction
import numpy as np
from mc import tree, env
from mc.runner import Tally

INF = float('inf')
ALPHA = [-2.5, -1.0, 0.0, 0.123, 0.5, 1.0, 1.789, 4.0]
INT_ALPHA = [0, 1, 2, 3, 5]
SMALL_ALPHA = [-1.0, 0.5, 4.0]
UNIT = (0.0, 0.5, env.ONE_MINUS)
UNITS = {'full': UNIT, 'ends': (0.0, env.ONE_MINUS)}
_VEC = {}


def vectors(alpha, lo, hi):
    key = (tuple(alpha), lo, hi)
    if key not in _VEC:
        _VEC[key] = [v for n in range(lo, hi + 1) for v in itertools.product(alpha, repeat=n)]
    return _VEC[key]


def ident(x):
    return x


def fl(y):
    return tuple(float(v) for v in y)


def bits(t):
    return struct.pack('<%dd' % len(t), *t)


def same(a, b):
    """bit-identical floats"""
    return struct.pack('<d', a) == struct.pack('<d', b)


def _idx(i):
    return tuple(i) if isinstance(i, list) else i


def norm_index(index, n):
    """positions addressed on a length-n vector (python semantics, out-of-range
    members dropped individually) and the categorical kind of the selection"""
    if index is None:
        return list(range(n)), 'none'
    if isinstance(index, int):
        kind = 'negative' if index < 0 else 'int'
        idx = (index,)
    else:
        idx = tuple(index)
        kind = 'tuple'
    pos = []
    for i in idx:
        if -n <= i < n:
            pos.append(i % n)
        elif kind == 'tuple':
            kind = 'tuple_oor'
        else:
            kind += '_oor'
    return sorted(set(pos)), kind


# ------------------------------------------------------------------ acceptance rules
class SetRule(object):
    """the acceptable outputs of an addressed entry are a finite set computed
    exactly from the input value"""

    def __init__(self, fn):
        self.fn = fn
        self.cache = {}

    def acc(self, a):
        s = self.cache.get(a)
        if s is None:
            s = self.cache[a] = frozenset(self.fn(a))
        return s

    def ok(self, a, y):
        return y in self.acc(a)

    def conforms(self, a):
        return a in self.acc(a)

    def want(self, a):
        return sorted(self.acc(a))


class IntervalRule(object):
    """clip=False: anywhere inside an (allowed) interval"""

    def __init__(self, ivs, nearest):
        self.ivs = ivs
        self.nearest = nearest

    def conforms(self, a):
        return any(lo <= a <= hi for lo, hi in self.ivs)

    def allowed(self, a):
        if not self.nearest:
            return self.ivs
        below = [iv for iv in self.ivs if iv[1] < a]
        above = [iv for iv in self.ivs if iv[0] > a]
        out = []
        if below:
            out.append(max(below, key=lambda iv: iv[1]))
        if above:
            out.append(min(above, key=lambda iv: iv[0]))
        return out

    def ok(self, a, y):
        return any(lo <= y <= hi for lo, hi in self.allowed(a))

    def want(self, a):
        return ['inside one of %r' % (self.allowed(a),)]


_RULES = {}


def rule(key, maker):
    r = _RULES.get(key)
    if r is None:
        r = _RULES[key] = maker()
    return r


def _ivs(b):
    """JSON intervals -> list of (lo, hi) floats"""
    if not isinstance(b[0], list):
        b = [b]
    return tuple((-INF if lo is None else float(lo), INF if hi is None else float(hi)) for lo, hi in b)


def bounds_rule(ivs, clip, nearest):
    def make():
        def inside(a):
            return any(lo <= a <= hi for lo, hi in ivs)
        if not clip:
            return IntervalRule(ivs, nearest)

        def fn(a):
            if inside(a):
                return [a]
            if nearest:   # a neighbouring interval end (section 5: gap values may go to either neighbour)
                below = [hi for lo, hi in ivs if hi < a]
                above = [lo for lo, hi in ivs if lo > a]
                return ([max(below)] if below else []) + ([min(above)] if above else [])
            return [min(max(a, lo), hi) for lo, hi in ivs]   # clipped into any one of the intervals
        return SetRule(fn)
    return rule(('bounds', ivs, clip, nearest), make)


def discrete_rule(samples):
    S = tuple(float(s) for s in samples)

    def make():
        def fn(a):
            d = [abs(Fraction(s) - Fraction(a)) for s in S]
            m = min(d)
            return [s for s, di in zip(S, d) if di == m]
        return SetRule(fn)
    return rule(('discrete', S), make)


def round_rule(digits):
    def make():
        scale = Fraction(10) ** digits

        def fn(a):
            fa = Fraction(a) * scale
            out = []
            for k in (math.floor(fa), math.ceil(fa)):
                if abs(Fraction(k) - fa) <= Fraction(1, 2):
                    out.append(float(Fraction(k) / scale))
            return out
        return SetRule(fn)
    return rule(('round', digits), make)


def const_rule(v):
    return rule(('const', v), lambda: SetRule(lambda a: [v]))


def clip_rule(lo, hi):
    lo_ = -INF if lo is None else lo
    hi_ = INF if hi is None else hi
    return rule(('clip', lo, hi), lambda: SetRule(lambda a: [min(max(a, lo_), hi_)]))


def zero_rule(tol):
    return rule(('zero', tol), lambda: SetRule(lambda a: [0.0] if abs(a) < tol else [a]))


# ------------------------------------------------------------------ builders: cfg (JSON-able dict) -> t = decorator(identity)
FUNCS = {'plus1': lambda v: v + 1.0, 'half': lambda v: v / 2.0}


def build(c):
    import mystic.constraints as mc
    import mystic.tools as mt
    f = c['fam']
    if f == 'bounds':
        b = c['bounds']
        if c['form'] == 'dict':
            bb = dict((k, (tuple(v) if not isinstance(v[0], list) else [tuple(i) for i in v])) for k, v in b)
        elif isinstance(b[0], list):
            bb = [tuple(i) for i in b]
        else:
            bb = tuple(b)
        return mc.impose_bounds(bb, index=_idx(c['index']), clip=c['clip'], nearest=c['nearest'])(ident)
    if f == 'discrete':
        return mc.discrete(list(c['samples']), index=_idx(c['index']))(ident)
    if f == 'integers':
        return mc.integers(ints=(float if c['ints'] == 'float' else True), index=_idx(c['index']))(ident)
    if f == 'rounded':
        return mc.rounded(c['digits'], index=_idx(c['index']))(ident)
    if f == 'precision':
        return mc.precision(c['digits'], index=_idx(c['index']))(ident)
    if f == 'monotonic':
        return mc.monotonic(ascending=c['asc'], outer=c['outer'], index=_idx(c['index']))(ident)
    if f == 'sorting':
        return mc.sorting(ascending=c['asc'], outer=c['outer'], index=_idx(c['index']))(ident)
    if f == 'impose_at':
        return mc.impose_at(list(c['index']), c['target'])(ident)
    if f == 'impose_as':
        return mc.impose_as([tuple(p) for p in c['mask']], c['offset'])(ident)
    if f == 'stat':
        return getattr(mc, c['which'])(*c['args'])(ident)
    if f in ('unique', 'reuse'):
        return mc.impose_unique(unique_full(c['form']))(ident)
    if f == 'masked':
        return mt.masked(None if c['mask'] is None else dict((k, v) for k, v in c['mask']))(ident)
    if f == 'partial':
        return mt.partial(dict((k, v) for k, v in c['mask']))(ident)
    if f == 'synchronized':
        m = {}
        for k, v in c['mask']:
            if isinstance(v, list):
                v = tuple(FUNCS[i] if isinstance(i, str) else i for i in v)
            m[k] = v
        return mt.synchronized(m)(ident)
    if f == 'clipped':
        return mt.clipped(c['min'], c['max'], exit=c['exit'])(ident)
    if f == 'suppressed':
        return mt.suppressed(c['tol'], exit=c['exit'], clip=c['clip'])(ident)
    raise KeyError(f)


def unique_full(form):
    return {'range6': range(6), 'list3': [0.5, 1.0, 2.0], 'int': int, 'float': float, 'none': None,
            'dict': {'min': 0, 'max': 6}, 'dict_int': {'min': 0, 'max': 6, 'type': int},
            'dict_int3': {'min': 0, 'max': 3, 'type': int}}[form]


def describe(c):
    c = dict(c)
    f = c.pop('fam')
    c.pop('inputs', None)
    name = {'bounds': 'impose_bounds', 'stat': c.get('which', ''), 'unique': 'impose_unique',
            'reuse': 'impose_unique'}.get(f, f)
    c.pop('which', None)
    return '%s(%s)(identity)' % (name, ', '.join('%s=%r' % kv for kv in sorted(c.items())))


# ------------------------------------------------------------------ element-wise families: position -> rule
def elementwise_rules(c, n):
    """{position: rule} of the addressed entries, and the index kind"""
    f = c['fam']
    if f == 'bounds':
        if c['form'] != 'dict':
            pos, kind = norm_index(_idx(c['index']), n)
            r = bounds_rule(_ivs(c['bounds']), c['clip'], c['nearest'])
            return dict((p, r) for p in pos), kind
        idx = c['index']
        keys = [k for k, v in c['bounds']]
        if idx is not None:   # "index filters the dict": literal key match
            sel = set([idx] if isinstance(idx, int) else idx)
            keys = [k for k in keys if k in sel]
        out = {}
        for k, v in c['bounds']:
            if k in keys and -n <= k < n:
                out[k % n] = bounds_rule(_ivs(v), c['clip'], c['nearest'])
        _, kind = norm_index(_idx(idx), n)
        if any(not (-n <= k < n) for k in keys) and not kind.endswith('oor'):
            kind += '_key_oor'
        return out, kind
    if f in ('discrete', 'integers', 'rounded', 'precision'):
        pos, kind = norm_index(_idx(c['index']), n)
        if f == 'discrete':
            r = discrete_rule(c['samples'])
        elif f == 'integers':
            r = round_rule(0)
        else:
            r = round_rule(c['digits'] or 0)
        return dict((p, r) for p in pos), kind
    if f == 'impose_at':
        idx = c['index']
        kind = 'list_oor' if any(not (-n <= i < n) for i in idx) else 'list'
        out = {}
        for k, i in enumerate(idx):
            if -n <= i < n:
                tg = c['target']
                out[i % n] = const_rule(float(tg[k] if isinstance(tg, list) else tg))
        return out, kind
    if f == 'partial':
        keys = [k for k, v in c['mask']]
        kind = 'keys_oor' if any(not (-n <= k < n) for k in keys) else 'keys'
        return dict((k % n, const_rule(float(v))) for k, v in c['mask'] if -n <= k < n), kind
    if f == 'clipped':
        r = clip_rule(c['min'], c['max'])
        return dict((p, r) for p in range(n)), 'none'
    if f == 'suppressed':   # clip=True only
        r = zero_rule(c['tol'])
        return dict((p, r) for p in range(n)), 'none'
    raise KeyError(f)


def judge_elementwise(c, x, y1):
    """-> list of (clause, detail)"""
    n = len(x)
    rules, kind = elementwise_rules(c, n)
    out = []
    if len(y1) != n:
        return [('length', 'returned %d entries for %d' % (len(y1), n))], kind
    # impose_bounds says nothing about negative positions (its index is matched against the
    # non-negative positions found out of bounds): such an entry may be bounded or left alone
    lenient = c['fam'] == 'bounds' and kind.startswith('negative')
    # integers(ints=True, index=...) documents two things at once: "return results as ints" and "only round at
    # the given indices"; the int cast of the entries that are not addressed is the documented result type,
    # so for them only "is the truncation of the input" is asked
    intcast = c['fam'] == 'integers' and c.get('ints') == 'True'
    for i in range(n):
        a, y = x[i], y1[i]
        r = rules.get(i)
        if r is None:
            if intcast and y == float(int(a)):
                pass
            elif not same(a, y):
                out.append(('selectivity', 'entry %d is not addressed but changed %r -> %r' % (i, a, y)))
        elif lenient and same(a, y):
            pass
        elif r.conforms(a):
            if not (a == y):
                out.append(('conforming_entry_changed', 'entry %d = %r is already in the target set but became %r' % (i, a, y)))
        elif not r.ok(a, y):
            out.append(('membership', 'entry %d: %r -> %r, acceptable %r' % (i, a, y, r.want(a))))
    return out, kind


# ------------------------------------------------------------------ order
def judge_order(c, x, y1):
    n = len(x)
    idx = _idx(c['index'])
    pos, kind = norm_index(idx, n)
    out = []
    if len(y1) != n:
        return [('length', 'returned %d entries for %d' % (len(y1), n))], kind
    for i in range(n):
        if i not in pos and not same(x[i], y1[i]):
            out.append(('selectivity', 'entry %d is not addressed but changed %r -> %r' % (i, x[i], y1[i])))
    sx = [x[p] for p in pos]
    sy = [y1[p] for p in pos]
    asc = c['asc']
    le = (lambda a, b: a <= b) if asc else (lambda a, b: a >= b)
    if not all(le(sy[i], sy[i + 1]) for i in range(len(sy) - 1)):
        out.append(('membership', 'addressed entries %r are not %s' % (sy, 'ascending' if asc else 'descending')))
    if c['fam'] == 'sorting':
        if sorted(sx) != sorted(sy):
            out.append(('membership', 'addressed entries %r are not a rearrangement of %r' % (sy, sx)))
    else:
        best = None
        for a, y in zip(sx, sy):   # entries that already respect the running extreme stay
            if best is None or le(best, a):
                best = a
                if not (a == y):
                    out.append(('conforming_entry_changed', 'entry value %r does not break monotonicity but became %r' % (a, y)))
    return out, kind


# ------------------------------------------------------------------ impose_as
def _potential(pairs):
    """depth d with d[b] = d[a] + 1 for every pair, or None when no such assignment exists"""
    d = {}
    adj = {}
    for a, b in pairs:
        adj.setdefault(a, []).append((b, 1))
        adj.setdefault(b, []).append((a, -1))
    for s in adj:
        if s in d:
            continue
        d[s] = 0
        stack = [s]
        while stack:
            u = stack.pop()
            for v, w in adj[u]:
                if v not in d:
                    d[v] = d[u] + w
                    stack.append(v)
                elif d[v] != d[u] + w:
                    return None
    return d


def judge_impose_as(c, x, y1):
    n = len(x)
    off = c['offset'] or 0
    pairs = [tuple(p) for p in c['mask']]
    live = [(a, b) for a, b in pairs if 0 <= a < n and 0 <= b < n]
    kind = 'pairs' if len(live) == len(pairs) else 'pairs_oor'
    out = []
    if len(y1) != n:
        return [('length', 'returned %d entries for %d' % (len(y1), n))], kind, False
    touched = set(i for p in pairs for i in p)
    for i in range(n):
        if i not in touched and not same(x[i], y1[i]):
            out.append(('selectivity', 'entry %d is in no pair but changed %r -> %r' % (i, x[i], y1[i])))
    satisfiable = (not off) or _potential(live) is not None
    # out-of-range indices: the docstring examples show them tolerated as trailing *tracking* entries
    # (the second member of exactly one pair); an out-of-range source, or one that links in-range
    # entries, is outside what the docstring defines: selectivity only, counted as 'oor_not_a_leaf'
    oor = set(i for p in pairs for i in p if not 0 <= i < n)
    for i in oor:
        uses = [(a, b) for a, b in pairs if i in (a, b)]
        if len(uses) != 1 or uses[0][1] != i:
            return out, 'pairs_oor_not_a_leaf', False
    if satisfiable:
        for a, b in live:
            if not (y1[b] == y1[a] + off):
                out.append(('membership', 'pair (%d,%d): y[%d]=%r is not y[%d]+offset=%r' % (a, b, b, y1[b], a, y1[a] + off)))
        if all(x[b] == x[a] + off for a, b in live) and not all(p == q for p, q in zip(x, y1)):
            out.append(('conforming_entry_changed', 'x satisfies every pair relation but was changed to %r' % (list(y1),)))
    return out, kind, satisfiable


# ------------------------------------------------------------------ synchronized (non-interfering masks)
def judge_synchronized(c, x, y1):
    n = len(x)
    out = []
    exp = list(x)
    kind = 'keys'
    for k, v in c['mask']:
        if isinstance(v, list):
            j = v[0]
            s = v[1] if len(v) > 1 else 1
            kindv = 'callable' if isinstance(s, str) else 'scale'
        else:
            j, s, kindv = v, None, 'plain'
        if not (-n <= k < n and -n <= j < n):
            kind = 'keys_oor'
            continue
        src = x[j]
        exp[k % n] = src if s is None else (FUNCS[s](src) if isinstance(s, str) else s * src)
    if len(y1) != n:
        return [('length', 'returned %d entries for %d' % (len(y1), n))], kind
    keys = set(k % n for k, v in c['mask'] if -n <= k < n)
    for i in range(n):
        if i in keys:
            if not (y1[i] == exp[i]):
                out.append(('membership', 'entry %d should be tied to %r, got %r' % (i, exp[i], y1[i])))
        elif not same(x[i], y1[i]):
            out.append(('selectivity', 'entry %d is not a key of the mask but changed %r -> %r' % (i, x[i], y1[i])))
    return out, kind


# ------------------------------------------------------------------ statistics
def _stat(which, v):
    f = [Fraction(i) for i in v]
    n = len(f)
    if which == 'with_mean':
        return sum(f) / n
    if which in ('with_variance', 'with_std'):
        m = sum(f) / n
        return sum((i - m) ** 2 for i in f) / n
    if which == 'with_spread':
        return max(f) - min(f)
    return sum(f)


def stat_target(c):
    a = c['args']
    if c['which'] == 'with_std':
        return a[0] ** 2
    if c['which'] == 'normalized':
        return a[0] if a else 1.0
    return a[0]


def judge_stat(c, x, y1):
    """-> (violations, outcome) ; degenerate inputs (target unreachable) are not judged"""
    which = c['which']
    T = Fraction(stat_target(c))
    sx = _stat(which, x)
    if which in ('with_variance', 'with_std', 'with_spread') and sx == 0 and T != 0:
        return [], 'degenerate'
    if which == 'normalized' and (sx == 0 or all(i == 0 for i in x)) and T != 0:
        return [], 'degenerate'
    out = []
    if len(y1) != len(x):
        return [('length', 'returned %d entries for %d' % (len(y1), len(x)))], 'judged'
    if any(v != v or abs(v) == INF for v in y1):
        return [('membership', 'non-finite result %r' % (list(y1),))], 'judged'
    sy = _stat(which, y1)
    if abs(sy - T) > Fraction(1, 10 ** 12) * max(1, abs(T)):
        out.append(('membership', 'statistic of the result is %r, target %r (input statistic %r)' % (float(sy), float(T), float(sx))))
    if sx == T and not all(p == q for p, q in zip(x, y1)):
        out.append(('conforming_entry_changed', 'input already has the target statistic but became %r' % (list(y1),)))
    return out, 'judged'


# ------------------------------------------------------------------ masked / suppressed(clip=False)
def masked_model(c, x):
    """plain list model of the documented insertion; None when the mask cannot be applied"""
    mask = dict((k, v) for k, v in (c['mask'] or []))
    if mask and (min(mask) < 0 or max(mask) > len(x) + len(mask) - 1):
        return None
    y = list(x)
    for k in sorted(mask):
        y.insert(k, float(mask[k]))
    return y


def judge_masked(c, x, y1):
    want = masked_model(c, x)
    if want is None:
        return [('membership', 'mask cannot be applied to %d entries but %r was returned' % (len(x), list(y1)))]
    if len(want) != len(y1) or not all(same(a, b) for a, b in zip(want, y1)):
        return [('membership', 'expected %r (mask values at their keys, the input in order elsewhere), got %r' % (want, list(y1)))]
    return []


def judge_suppress_spread(c, x, y1):
    tol = c['tol']
    n = len(x)
    out = []
    if len(y1) != n:
        return [('length', 'returned %d entries for %d' % (len(y1), n))]
    small = [i for i in range(n) if abs(x[i]) < tol]
    rest = [i for i in range(n) if i not in small]
    for i in small:
        if y1[i] != 0.0:
            out.append(('membership', 'entry %d = %r is below tol=%r but became %r' % (i, x[i], tol, y1[i])))
    if rest:
        shift = sum(Fraction(x[i]) for i in small) / len(rest)
        for i in rest:
            if abs(Fraction(y1[i]) - Fraction(x[i]) - shift) > Fraction(1, 10 ** 12):
                out.append(('selectivity', 'entry %d: %r -> %r, documented spread of the suppressed mass is %r' % (i, x[i], y1[i], float(shift))))
    return out


# ------------------------------------------------------------------ unique
UNIQUE_FLOATY = ('float', 'dict')


def _integral(x):
    return all(isinstance(v, int) for v in x)


def unique_spec(form, x):
    """-> (kind, lo, hi, members, must_reject) from the documentation of `unique`"""
    n = len(x)
    lo, hi = min(x), max(x)
    if form == 'none':
        form = 'int' if _integral(x) else 'float'
    if form in ('range6', 'list3'):
        S = list(unique_full(form))
        return 'set', None, None, S, (not all(v in S for v in x)) or n > len(S)
    if form == 'int':
        return 'int', lo, hi, None, (not _integral(x)) or n > hi - lo + 1
    if form == 'float':
        return 'float', lo, hi, None, (lo == hi and n > 1)
    d = unique_full(form)
    m, M = d['min'], d['max']
    if lo < m or hi >= M:
        return 'x', m, M, None, True
    if form == 'dict':
        return 'half_open_float', m, M, None, False
    return 'half_open_int', m, M, None, n > M - m


def judge_unique(form, x, y1, drawn_float):
    """y1 = raw returned list (not floated)"""
    n = len(x)
    kind, lo, hi, S, _ = unique_spec(form, x)
    out = []
    notes = []
    if len(y1) != n:
        return [('length', 'returned %d entries for %d' % (len(y1), n))], notes
    first = [i for i in range(n) if x[i] not in x[:i]]
    for i in first:
        if not (y1[i] == x[i]):
            out.append(('conforming_entry_changed', 'entry %d = %r is a first occurrence but became %r' % (i, x[i], y1[i])))
    repl = [i for i in range(n) if i not in first]
    for i in range(n):
        for j in range(i + 1, n):
            if y1[i] == y1[j]:
                if drawn_float and (i in repl or j in repl):
                    notes.append('float_draw_collision')
                else:
                    out.append(('membership', 'entries %d and %d are both %r' % (i, j, y1[i])))
    for i in repl:
        v = y1[i]
        isint = float(v) == math.floor(float(v))
        if kind == 'set':
            ok = v in S
        elif kind == 'int':
            ok = isint and lo <= v <= hi
        elif kind == 'float':
            ok = lo <= v <= hi
        elif kind == 'half_open_float':
            ok = lo <= v < hi
        elif kind == 'half_open_int':
            ok = isint and lo <= v < hi
        else:
            ok = True
        if not ok:
            out.append(('membership', 'replacement value %r at entry %d is not an allowed value (%s %r..%r%s)'
                        % (v, i, kind, lo, hi, '' if S is None else ' members %r' % (S,))))
    return out, notes


# ------------------------------------------------------------------ connected
def judge_connected(pairs, groups):
    out = []
    sets = [set([k]) | set(v) for k, v in groups.items()]
    nodes = set(i for p in pairs for i in p)
    for a, b in pairs:
        if not any(a in s and b in s for s in sets):
            out.append(('membership', 'pair (%d,%d) is not inside one group of %r' % (a, b, groups)))
            break
    for s, t in itertools.combinations(sets, 2):
        if s & t:
            out.append(('membership', 'groups of %r overlap in %r' % (groups, sorted(s & t))))
            break
    if set().union(*sets) != nodes if sets else nodes:
        out.append(('membership', 'groups %r do not cover exactly the nodes %r' % (groups, sorted(nodes))))
    return out


# ------------------------------------------------------------------ execution of one case on the real code
class _NoDraws(object):
    """chooser of the deterministic families: any draw is unowned randomness"""
    trace = ()

    def choose(self, n, label=None):
        raise env.UnownedRandomness('draw %r inside a transform that is expected to be deterministic' % (label,))


RANDOM_FAMS = ('bounds', 'unique', 'reuse')
NO_FIXED_POINT = ('masked', 'connected', 'reuse')


def _call(t, arg):
    try:
        y = t(arg)
    except env.UnownedRandomness:
        raise
    except tree.Diverged:
        raise
    except Exception as e:
        return None, ('raised', type(e).__name__, str(e)[:200])
    return y, None


def _snap(y):
    try:
        return list(y)
    except TypeError:
        return [y]


def execute(c, x, arr, rng=None):
    """t(x) and t(t(x)) literally; returns raw snapshots"""
    f = c['fam']
    if f == 'connected':
        import mystic.tools as mt
        g, err = _call(mt.connected, [tuple(p) for p in x])
        return {'y1': g, 'e1': err, 'y2': None, 'e2': None}
    mk = (lambda v: np.array(v)) if arr else (lambda v: list(v))
    via = c.get('via')
    if via:
        # the decorated function is built with other settings, applied once to an input of the same size, and then
        # brought to the settings of c through its documented setter: from here on it must behave as c says
        t = build(dict(c, **via['from']))
        ch0 = rng.ch if rng is not None else None
        if rng is not None:
            rng.ch = tree.Chooser()
        try:
            _call(t, mk(x if f != 'reuse' else x[0]))
        finally:
            if rng is not None:
                rng.ch = ch0
        v = via['value']
        if via['setter'] == 'type':
            v = float if v == 'float' else True
        getattr(t, via['setter'])(tuple(v) if isinstance(v, list) and via['setter'] == 'index' else v)
    else:
        t = build(c)
    if f == 'reuse':
        ch = rng.ch
        rng.ch = tree.Chooser()     # the first application takes the default answers (not choice points)
        try:
            ya, ea = _call(t, mk(x[0]))
        finally:
            rng.ch = ch
        yb, eb = _call(t, mk(x[1]))
        return {'ya': None if ea else _snap(ya), 'ea': ea, 'y1': None if eb else _snap(yb), 'e1': eb, 'y2': None, 'e2': None}
    y, e1 = _call(t, mk(x))
    if e1:
        return {'y1': None, 'e1': e1, 'y2': None, 'e2': None}
    y1 = _snap(y)
    if f in NO_FIXED_POINT:
        return {'y1': y1, 'e1': None, 'y2': None, 'e2': None}
    # the second application takes the default answers and is not a choice point: when t(x) conforms it
    # uses no draw (unique shuffles its unused candidate list regardless), and when it does not conform
    # the first application has already been reported
    ch = rng.ch if rng is not None else None
    if rng is not None:
        rng.ch = tree.Chooser()
    try:
        z, e2 = _call(t, y)
    finally:
        if rng is not None:
            rng.ch = ch
    return {'y1': y1, 'e1': None, 'y2': None if e2 else _snap(z), 'e2': e2}


def sig_extra(c):
    d = _sig_extra(c)
    if c.get('via'):
        d = dict(d, after_setter=c['via']['setter'])
    return d


def _sig_extra(c):
    f = c['fam']
    if f == 'bounds':
        return {'form': c['form'], 'clip': c['clip'], 'nearest': c['nearest']}
    if f == 'integers':
        return {'ints': c['ints']}
    if f == 'impose_at':
        return {'target': 'list' if isinstance(c['target'], list) else 'scalar'}
    if f == 'impose_as':
        d = {'offset': bool(c['offset']), 'mask': c.get('name', 'enumerated')}
        if converging_unequal([tuple(p) for p in c['mask']]):
            d['mask_shape'] = 'converging_chains_of_unequal_length'
        return d
    if f == 'stat':
        return {'which': c['which']}
    if f in ('unique', 'reuse'):
        return {'form': c['form']}
    if f == 'synchronized':
        return {'mask': c.get('name', '')}
    if f in ('clipped', 'suppressed'):
        d = {'exit': c['exit']}
        if f == 'suppressed':
            d['clip'] = c['clip']
        return d
    return {}


def evaluate(c, x, arr, o, drew_float=False):
    """-> (violations [(clause, detail, extra_sig)], outcome, index_kind, changed)"""
    f = c['fam']
    V = []
    kind = ''
    e1 = o['e1']
    # ---- families with their own shapes
    if f == 'connected':
        if e1:
            return [('raised', 'connected(%r) raised %s: %s' % (x, e1[1], e1[2]), {'error': e1[1]})], 'violation', kind, False
        V = [(cl, d, {}) for cl, d in judge_connected([tuple(p) for p in x], o['y1'])]
        return V, ('violation' if V else 'judged'), kind, len(x) > 1
    if f in ('unique', 'reuse'):
        xx = x[1] if f == 'reuse' else x
        must = unique_spec(c['form'], xx)[4]
        if e1:
            if e1[1] == 'ValueError' and must:
                return [], 'rejected', kind, False
            return [('raised', 'raised %s: %s' % (e1[1], e1[2]), {'error': e1[1]})], 'violation', kind, False
        vs, notes = judge_unique(c['form'], xx, o['y1'], drew_float)
        V = [(cl, d, {}) for cl, d in vs]
        if must and not V:
            V.append(('membership', 'no sequence of pairwise-distinct allowed values exists for this input but %r was returned' % (o['y1'],), {}))
        changed = not all(p == q for p, q in zip(xx, o['y1']))
        if f == 'unique' and not V and not notes:      # a float draw that collided (probability zero) leaves a duplicate: t(t(x)) is not asked
            if o['e2']:
                V.append(('fixed_point_raised', 't(x) = %r, t(t(x)) raised %s: %s' % (o['y1'], o['e2'][1], o['e2'][2]), {'error': o['e2'][1]}))
            elif not (len(o['y2']) == len(o['y1']) and all(p == q for p, q in zip(o['y1'], o['y2']))):
                V.append(('fixed_point', 't(x) = %r but t(t(x)) = %r' % (o['y1'], o['y2']), {}))
        out = 'violation' if V else ('changed' if changed else 'unchanged')
        if notes and not V:
            out = 'float_draw_collision'
        return V, out, kind, changed
    # ---- expected rejections
    n = len(x)
    if f in ('monotonic', 'sorting'):
        _, kind = norm_index(_idx(c['index']), n)
        if e1 and e1[1] == 'IndexError' and kind.endswith('oor'):
            return [], 'rejected', kind, False
    if f == 'masked' and e1 and e1[1] == 'KeyError' and masked_model(c, x) is None:
        return [], 'rejected', 'keys_oor', False
    if e1:
        if f in ('bounds', 'discrete', 'integers', 'rounded', 'precision', 'impose_at', 'partial'):
            _, kind = elementwise_rules(c, n)
        return [('raised', 'raised %s: %s' % (e1[1], e1[2]), {'error': e1[1]})], 'violation', kind, False
    try:
        y1 = fl(o['y1'])
    except (TypeError, ValueError):
        return [('membership', 'result %r is not a vector of numbers' % (o['y1'],), {})], 'violation', kind, True
    outcome = None
    fixed = True
    if f in ('monotonic', 'sorting'):
        vs, kind = judge_order(c, x, y1)
    elif f == 'impose_as':
        vs, kind, sat = judge_impose_as(c, x, y1)
        fixed = sat
        if not sat:
            outcome = 'oor_not_a_leaf' if kind == 'pairs_oor_not_a_leaf' else 'unsatisfiable_mask'
    elif f == 'synchronized':
        vs, kind = judge_synchronized(c, x, y1)
    elif f == 'stat':
        vs, outcome = judge_stat(c, x, y1)
        if outcome == 'degenerate':
            fixed = False
        else:
            outcome = None
    elif f == 'masked':
        vs = judge_masked(c, x, y1)
        kind = 'keys'
    elif f == 'suppressed' and not c['clip']:
        vs = judge_suppress_spread(c, x, y1)
        fixed = False
    else:
        vs, kind = judge_elementwise(c, x, y1)
    V = [(cl, d, {}) for cl, d in vs]
    changed = len(y1) != n or bits(y1) != bits(tuple(float(v) for v in x))
    if fixed and f not in NO_FIXED_POINT and not V:
        if o['e2']:
            V.append(('fixed_point_raised', 't(x) = %r, t(t(x)) raised %s: %s' % (list(y1), o['e2'][1], o['e2'][2]), {'error': o['e2'][1]}))
        else:
            try:
                y2 = fl(o['y2'])
            except (TypeError, ValueError):
                y2 = None
            if y2 is None or len(y2) != len(y1) or bits(y2) != bits(y1):
                V.append(('fixed_point', 't(x) = %r but t(t(x)) = %r' % (list(y1), o['y2'] if y2 is None else list(y2)), {}))
    if V:
        outcome = 'violation'
    elif outcome is None:
        outcome = 'changed' if changed else 'unchanged'
    return V, outcome, kind, changed


def run_case(c, x, arr, chooser, rng=None):
    """one execution under the given chooser -> (violations, outcome, kind, changed, o, ndraws)"""
    if rng is None:
        rng = env.ScriptedRandom(chooser, unit=UNITS[c.get('unit', 'full')], vector_draws=c.get('draws', 'shared'))
        with env.owned_random(rng):
            o = execute(c, x, arr, rng)
    else:
        rng.ch = chooser
        rng.log = []
        rng.vector_draws = c.get('draws', 'shared')
        rng.unit = UNITS[c.get('unit', 'full')]
        o = execute(c, x, arr, rng)
    drew_float = any(k[0] == 'random' for k in rng.log)
    V, outcome, kind, changed = evaluate(c, x, arr, o, drew_float)
    return V, outcome, kind, changed, o, len(rng.log)


# ------------------------------------------------------------------ configurations
INDEXES = [None, 0, -1, [0, 2], [0, 9]]
ONE = [0.0, 1.0]
TWO = [[-1.0, 0.0], [1.0, 2.0]]
DICT = [[0, [0.0, 1.0]], [2, [[-1.0, 0.0], [1.0, 2.0]]]]


def configs(thorough):
    C = []
    draws = ['shared', 'each'] if thorough else ['shared']
    forms = [('one', ONE), ('two', TWO), ('dict', DICT)]
    if thorough:
        forms += [('one', [None, 1.0]), ('two', [[-2.5, -1.0], [0.5, 4.0]])]
    for form, b in forms:
        for idx in INDEXES:
            for clip in (True, False):
                for nearest in (True, False):
                    for d in (draws if (not clip and nearest) else ['shared']):
                        c = {'fam': 'bounds', 'form': form, 'bounds': b, 'index': idx, 'clip': clip,
                             'nearest': nearest, 'draws': d, 'unit': 'full' if thorough else 'ends'}
                        if d == 'each':
                            c['inputs'] = 'general3'
                        C.append(c)
    sets = [[1.0], [2.0, 1.0], [0.0, 1.0, 4.0]] + ([[-1.0, 0.5], [0.123, 1.789, -2.5]] if thorough else [])
    # (an EMPTY selection addresses nothing - it is not "no index given")
    for s in sets:
        for idx in INDEXES + [[]]:
            C.append({'fam': 'discrete', 'samples': s, 'index': idx})
    for ints in ('True', 'float'):
        for idx in INDEXES + [[]]:
            C.append({'fam': 'integers', 'ints': ints, 'index': idx})
    for fam in ('rounded', 'precision'):
        for dg in [-1, 0, 1] + ([None, 2] if thorough else []):
            for idx in INDEXES + [[]]:
                C.append({'fam': fam, 'digits': dg, 'index': idx})
    for fam in ('monotonic', 'sorting'):
        for asc in (True, False):
            for outer in (False, True):
                # (order is by POSITION: a negative index addresses a late position although it is a small number)
                for idx in INDEXES + [[], [0, -1], [-1, 0], [1, -2]] + ([[0, 2, -1], [-1, -3], [-3, 1]] if thorough else []):
                    C.append({'fam': fam, 'asc': asc, 'outer': outer, 'index': idx})
    # settings changed through the decorated function's own setter after it has been used once
    def _tup(i):
        return None if i is None else ([i] if isinstance(i, int) else list(i))
    moves = [(None, 0), (0, None), ([0, 2], -1), (0, [0, 2]), (-1, [0, 9]), (None, []), ([0, 2], [])]
    for a, b in moves:
        C.append({'fam': 'discrete', 'samples': [0.0, 1.0, 4.0], 'index': b, 'via': {'from': {'index': a}, 'setter': 'index', 'value': _tup(b)}})
        C.append({'fam': 'integers', 'ints': 'float', 'index': b, 'via': {'from': {'index': a}, 'setter': 'index', 'value': _tup(b)}})
        C.append({'fam': 'rounded', 'digits': 0, 'index': b, 'via': {'from': {'index': a}, 'setter': 'index', 'value': _tup(b)}})
        C.append({'fam': 'precision', 'digits': 1, 'index': b, 'via': {'from': {'index': a}, 'setter': 'index', 'value': _tup(b)}})
        C.append({'fam': 'sorting', 'asc': True, 'outer': False, 'index': b, 'via': {'from': {'index': a}, 'setter': 'index', 'value': _tup(b)}})
        C.append({'fam': 'monotonic', 'asc': True, 'outer': False, 'index': b, 'via': {'from': {'index': a}, 'setter': 'index', 'value': _tup(b)}})
    C.append({'fam': 'discrete', 'samples': [0.0, 1.0, 4.0], 'index': None, 'via': {'from': {'samples': [1.0]}, 'setter': 'samples', 'value': [0.0, 1.0, 4.0]}})
    C.append({'fam': 'rounded', 'digits': 1, 'index': None, 'via': {'from': {'digits': 0}, 'setter': 'digits', 'value': 1}})
    C.append({'fam': 'precision', 'digits': 0, 'index': [0, 2], 'via': {'from': {'digits': 1}, 'setter': 'digits', 'value': 0}})
    C.append({'fam': 'integers', 'ints': 'float', 'index': None, 'via': {'from': {'ints': 'True'}, 'setter': 'type', 'value': 'float'}})
    for idx, tg in [([0], 1.0), ([1, 3], -99.0), ([-1], 0.5), ([0, 9], 4.0), ([1, 3], [10.0, 20.0]),
                    ([0, 2], [1.0, -1.0]), ([0, 9], [10.0, 20.0]), ([0, 1, 2, 3], 0.0),
                    # an out-of-range index listed BEFORE in-range ones: each index keeps its own target
                    ([9, 0], [10.0, 20.0]), ([7, 1, 3], [10.0, 20.0, 30.0]), ([9, 1, 0], [1.0, 2.0, 3.0]), ([2, 9, 0], [5.0, 6.0, 7.0])]:
        C.append({'fam': 'impose_at', 'index': idx, 'target': tg})
    masks = [('pair', [[0, 1]]), ('pair_reversed', [[1, 0]]), ('chain', [[0, 1], [1, 2]]),
             ('chain_listed_backwards', [[1, 2], [0, 1]]), ('chain3', [[0, 1], [1, 2], [2, 3]]),
             ('chain3_middle_last', [[2, 3], [0, 1], [1, 2]]), ('star', [[0, 2], [0, 3]]),
             ('two_groups', [[0, 1], [2, 3]]), ('converging', [[0, 1], [3, 1]]), ('pair_oor', [[0, 9]]),
             ('docstring', [[0, 1], [3, 1], [4, 5], [5, 6], [5, 7]]),
             ('converging_unequal', [[0, 1], [1, 2], [3, 2]])]
    for name, m in masks:
        for off in (None, 0.5, 10.0):
            C.append({'fam': 'impose_as', 'name': name, 'mask': m, 'offset': off})
    # every list of 1..k distinct ordered pairs over nodes 0..3, on the small input set
    nodes = [(a, b) for a in range(4) for b in range(4) if a != b]
    for k in range(1, (3 if thorough else 2) + 1):
        for m in itertools.permutations(nodes, k):
            for off in (None, 0.5):
                C.append({'fam': 'impose_as', 'mask': [list(p) for p in m], 'offset': off, 'inputs': 'small'})
    for which, args in [('with_mean', [0.5]), ('with_mean', [-1.0]), ('with_variance', [1.0]), ('with_variance', [0.25]),
                        ('with_std', [2.0]), ('with_spread', [3.0]), ('with_spread', [1.5]), ('normalized', []),
                        ('normalized', [2.5])]:
        C.append({'fam': 'stat', 'which': which, 'args': args})
    for form in ['range6', 'int', 'float', 'dict', 'dict_int', 'none', 'list3'] + (['dict_int3'] if thorough else []):
        C.append({'fam': 'unique', 'form': form, 'inputs': 'general'})
        C.append({'fam': 'unique', 'form': form, 'inputs': 'int'})
        C.append({'fam': 'reuse', 'form': form, 'inputs': 'reuse'})
    for m in [None, [], [[0, 10.0]], [[0, 10.0], [3, -1.0]], [[1, 7.0]], [[2, 5.0], [0, 6.0]], [[4, 0.5]]]:
        C.append({'fam': 'masked', 'mask': m})
    for m in [[[0, 10.0]], [[0, 10.0], [3, -1.0]], [[-1, 0.5]], [[9, 1.0]], [[1, 1.0], [2, 0.0]]]:
        C.append({'fam': 'partial', 'mask': m})
    for name, m in [('plain', [[0, 1]]), ('plain_docstring', [[0, 1], [3, -1]]), ('scale', [[0, [1, 2.0]]]),
                    ('callable', [[0, [1, 'plus1']]]), ('docstring_scaled', [[0, [1, 'half']], [3, [1, -1]]]),
                    ('tuple_no_scale', [[0, [1]]]), ('key_oor', [[9, 0]]), ('source_oor', [[0, 9]]),
                    ('negative_key', [[-1, 0]])]:
        C.append({'fam': 'synchronized', 'name': name, 'mask': m})
    for lo, hi in [(0.0, 1.0), (None, 1.0), (0.0, None), (-1.0, 1.789), (None, None)]:
        for ex in (False, True):
            C.append({'fam': 'clipped', 'min': lo, 'max': hi, 'exit': ex})
    for tol in (1e-8, 0.2, 0.5, 1.0):
        for ex in (False, True):
            for clip in (True, False):
                C.append({'fam': 'suppressed', 'tol': tol, 'exit': ex, 'clip': clip})
    C.append({'fam': 'connected', 'inputs': 'pairs'})
    return C


def inputs_for(c, thorough):
    kind = c.get('inputs', 'general')
    heavy = (not thorough) and c['fam'] == 'bounds'                # quick tier: the slow family gets
    if kind == 'general' and heavy:                                 # all vectors to length 3 + length 4 over 3 values
        return vectors(ALPHA, 1, 3) + vectors(SMALL_ALPHA, 4, 4)
    if kind == 'int' and heavy:
        return vectors(INT_ALPHA, 1, 3) + vectors([0, 1, 5], 4, 4)
    if kind == 'general':
        return vectors(ALPHA, 1, 4)
    if kind == 'general3':
        return vectors(ALPHA, 1, 3)
    if kind == 'int':
        return vectors(INT_ALPHA, 1, 4)
    if kind == 'small':
        return vectors(SMALL_ALPHA, 3, 4)
    if kind == 'reuse':
        v = vectors([1, 2, 5] if thorough else [1, 2], 1, 3)
        return [(a, b) for a in v for b in v]
    if kind == 'pairs':
        nodes = [(a, b) for a in range(4) for b in range(4) if a != b]
        return [m for k in range(1, (4 if thorough else 3) + 1) for m in itertools.permutations(nodes, k)]
    raise KeyError(kind)


def weight(c):
    w = {'bounds': 8.0, 'discrete': 3.0, 'stat': 3.0, 'masked': 6.0, 'unique': 1.0}.get(c['fam'], 1.0)
    if c['fam'] == 'bounds':
        if c['index'] is not None or c['form'] == 'dict':
            w *= 2
        if not c['clip']:
            w *= 3 if c.get('draws') == 'shared' else 40
        if not c['nearest']:
            w *= 3
    if c.get('inputs') == 'small':
        w = 0.05
    if c.get('inputs') in ('reuse', 'pairs'):
        w = 1.0
    return w


def converging_unequal(mask):
    """is there an entry tracked through two pairs whose sources sit at different depths below their chain heads?
    (e.g. [(0,1),(1,2),(3,2)]: entry 2 follows 1, which is one step below head 0, and 3, which is a head itself)"""
    if cyclic_mask(mask):
        return False
    src = {}
    for a, b in mask:
        src.setdefault(b, set()).add(a)
    memo = {}

    def depth(v):
        if v not in memo:
            memo[v] = 0 if v not in src else 1 + max(depth(a) for a in src[v])
        return memo[v]
    return any(len(set(depth(a) for a in ss)) > 1 for ss in src.values())


def cyclic_mask(mask):
    """does the 'entry i tracks entry j' relation of an impose_as mask contain a directed cycle?"""
    nxt = {}
    for i, j in mask:
        nxt.setdefault(i, set()).add(j)
    state = {}

    def visit(v):
        if state.get(v) == 1:
            return True
        if state.get(v) == 2:
            return False
        state[v] = 1
        for w in nxt.get(v, ()):
            if visit(w):
                return True
        state[v] = 2
        return False
    return any(visit(v) for v in list(nxt))


class _Alarm(Exception):
    pass


def returns_in_time(c, x, seconds=0.5):
    """apply the transform once under an interval timer: True if it returned (or raised), False if it was still running"""
    import signal

    def ring(signum, frame):
        raise _Alarm()
    t = build(c)
    old = signal.signal(signal.SIGALRM, ring)
    signal.setitimer(signal.ITIMER_REAL, seconds)
    try:
        try:
            t(list(x))
        except _Alarm:
            return False
        except Exception:
            return True
        return True
    finally:
        signal.setitimer(signal.ITIMER_REAL, 0)
        signal.signal(signal.SIGALRM, old)


# ------------------------------------------------------------------ shard
def shard(item):
    cfgs, chunk, nchunks, thorough = item
    import json
    T = Tally()
    states = set()
    rng = env.ScriptedRandom(_NoDraws(), unit=UNIT)
    with env.owned_random(rng):
        for c in cfgs:
            f = c['fam']
            ckey = json.dumps(c, sort_keys=True)
            if f == 'impose_as' and cyclic_mask(c['mask']):
                # a mask in which an entry (transitively) tracks itself: only "does it return" is asked, on one input
                x = inputs_for(c, thorough)[0]
                ok = returns_in_time(c, x)
                T.count('traces'); T.count('transitions')
                T.hist('outcome:impose_as', 'cyclic_mask:' + ('returned' if ok else 'never_returns'))
                states.add((ckey, False, x, 'cyclic', repr(ok)))
                if not ok:
                    T.violate({'family': f, 'clause': 'does_not_return', 'mask_class': 'cyclic'},
                              {'cfg': c, 'x': x, 'array': False, 'choices': []},
                              '%s(list %r) was still running after 0.5 s (the offset loop never ends for a cyclic mask)' % (describe(c), list(x)))
                continue
            xs = inputs_for(c, thorough)[chunk::nchunks]
            containers = (False,) if f == 'connected' else (False, True)
            randomised = f in RANDOM_FAMS
            T.count('configurations_x_chunks')
            for x in xs:
                for arr in containers:
                    cont = 'ndarray' if arr else 'list'
                    if randomised:
                        def run(ch, c=c, x=x, arr=arr):
                            return run_case(c, x, arr, ch, rng)
                        execs = tree.explore(run)
                    else:
                        execs = [(_NoDraws(), run_case(c, x, arr, _NoDraws(), rng))]
                    nex = 0
                    nontrivial = False
                    for ch, (V, outcome, kind, changed, o, ndraw) in execs:
                        nex += 1
                        T.count('traces')
                        T.count('transitions', (1 if o['y2'] is None and not o['e2'] else 2) + len(ch.trace))
                        T.hist('outcome:' + f, outcome)
                        if kind:
                            T.hist('index_kind:' + f, kind + ':' + outcome)
                        if randomised:
                            T.hist('draws_per_execution:' + f, ndraw)
                        states.add((ckey, arr, x, repr(o['y1']), repr(o['e1'])))
                        nontrivial = nontrivial or changed
                        for clause, detail, extra in V:
                            sig = {'family': f, 'clause': clause, 'container': cont}
                            if kind:
                                sig['index_kind'] = kind
                            sig.update(sig_extra(c))
                            sig.update(extra)
                            T.violate(sig, {'cfg': c, 'x': x, 'array': arr, 'choices': list(ch.choices) if randomised else []},
                                      '%s(%s %r): %s' % (describe(c), cont, list(x), detail))
                    if randomised:
                        T.hist('executions_per_case:' + f, nex if nex < 8 else ('8-63' if nex < 64 else '64+'))
                    if nontrivial:
                        T.nontriv((ckey, arr, x))
            if len(T.samples) < 1 and xs:
                T.sample({'transform': describe(c), 'input': xs[len(xs) // 2]}, limit=1)
    T.count('states', len(states))
    return T


# ------------------------------------------------------------------ entry points
def run(ctx):
    thorough = ctx.thorough
    C = configs(thorough)
    import os
    only = os.environ.get('VERIF_C16_FAMILIES')   # debugging aid: restrict to some families (reported as a cap)
    if only:
        C = [c for c in C if c['fam'] in only.split(',')]
        ctx.cap('restricted to families %s by VERIF_C16_FAMILIES' % only)
    items = []
    batch, bw = [], 0.0
    for c in sorted(C, key=lambda c: -weight(c)):
        w = weight(c)
        kind = c.get('inputs', 'general')
        if kind in ('general', 'general3', 'int', 'pairs'):
            if c['fam'] == 'bounds':
                nchunks = 32 if (not c['clip'] and kind == 'general') else 8
            elif c['fam'] == 'unique':
                nchunks = 16 if kind == 'int' else 2
            elif kind == 'pairs':
                nchunks = 16
            else:
                nchunks = 4 if w > 1.0 else 2
            for k in range(nchunks):
                items.append(([c], k, nchunks, thorough))
        else:
            batch.append(c)
            bw += w
            if bw >= 2.0:
                items.append((batch, 0, 1, thorough))
                batch, bw = [], 0.0
    if batch:
        items.append((batch, 0, 1, thorough))
    fams = {}
    for c in C:
        fams[c['fam']] = fams.get(c['fam'], 0) + 1
    ctx.bounds = {
        'input_alphabet': ALPHA, 'vector_lengths': [1, 4], 'containers': ['list', 'ndarray'],
        'quick_tier_reduction': 'impose_bounds: all vectors of length 1..3 plus length 4 over a 3-value alphabet (thorough: all of length 1..4)',
        'index': INDEXES, 'configurations_per_family': fams,
        'impose_bounds': {'one': ONE, 'two': TWO, 'dict': DICT, 'clip': [True, False], 'nearest': [True, False],
                          'uniform_answers': list(UNIT), 'choice_answers': 'every interval, per entry',
                          'array_draws': 'one answer per uniform(size=k) call (quick); one answer per element as well (thorough)'},
        'unique': {'forms': ['range(6)', '[0.5,1,2]', 'int', 'float', 'None', "{'min':0,'max':6}", "{'min':0,'max':6,'type':int}"],
                   'inputs': 'general alphabet (float) and all vectors of length 1..4 over %r (int)' % (INT_ALPHA,),
                   'shuffle': 'every order', 'random()': list(UNIT),
                   'reuse': 'one decorated function applied to two inputs in a row, all pairs of vectors of length 1..3 over a 2 (quick) / 3 (thorough) value alphabet'},
        'impose_as': {'curated_masks': 11, 'offsets': [None, 0.5, 10.0],
                      'enumerated_masks': 'every list of 1..%d distinct ordered pairs over nodes 0..3, offsets None/0.5, inputs of length 3..4 over %r'
                                          % (3 if thorough else 2, SMALL_ALPHA)},
        'connected': 'every list of 1..%d distinct ordered pairs over nodes 0..3' % (4 if thorough else 3),
        'shards': len(items),
    }
    ctx.rule = ("a case is (configuration, input vector, container); it is executed as t(x) and t(t(x)) on the real decorators around the "
                "identity, once per complete assignment of answers to the random draws it makes; states = distinct (case, outcome) pairs; "
                "a case is non-trivial when some execution of t(x) changed, inserted or replaced at least one entry "
                "(rejections and no-ops are not counted)")
    ctx.assumptions = [
        "decorated function is the identity, so inner (input) and outer (output) forms are observed through the same return value",
        "uniform()/random() answers restricted to {0, 0.5, 1-2^-53}; choice() and shuffle() answers enumerated completely",
        "impose_bounds: with nearest=True a value between two intervals may go to either neighbouring end/interval (DESIGN section 5)",
        "rounding ties may go to either neighbour; acceptable values are computed with exact rationals",
        "sorting/monotonic raising IndexError for an out-of-range index, masked raising KeyError for an inapplicable mask and unique "
        "raising ValueError when no admissible sequence exists are counted as 'rejected', not as violations",
        "unique with float replacements: two equal draws, or a draw that reproduces an existing entry, are probability-zero events the "
        "source acknowledges; they are counted (float_draw_collision), not raised",
        "with_variance/with_std/with_spread on zero-spread input and normalized on zero-sum input cannot reach the target (degenerate, counted)",
        "suppressed(clip=False) documents that the suppressed mass is spread over the other entries; idempotence is not demanded of it or of masked",
        "synchronized masks are non-interfering (no key is also a source), since the docstring leaves the order within one mask open",
    ]
    ctx.pmap(shard, items)
    _merge_containers(ctx.tally)


def _merge_containers(T):
    """signatures that differ only in the container are one root cause"""
    import json
    groups = {}
    for key, v in T.violations.items():
        s = dict(v['sig'])
        s.pop('container', None)
        groups.setdefault(json.dumps(s, sort_keys=True), []).append(v)
    merged = {}
    for k, vs in groups.items():
        conts = sorted(set(v['sig'].get('container') for v in vs))
        first = min(vs, key=lambda v: (len(v['case'].get('x', [])), v['sig'].get('container') or ''))
        sig = dict(first['sig'])
        sig['container'] = '+'.join(c for c in conts if c) if len(conts) < 2 else 'any'
        nk = json.dumps(sig, sort_keys=True)
        merged[nk] = {'sig': sig, 'case': first['case'], 'detail': first['detail'], 'count': sum(v['count'] for v in vs)}
    T.violations = merged


def replay(case):
    c = case['cfg']
    x = case['x']
    if c['fam'] == 'reuse':
        x = (tuple(x[0]), tuple(x[1]))
    elif c['fam'] == 'connected':
        x = tuple(tuple(p) for p in x)
    else:
        x = tuple(x)
    ch = tree.ReplayChooser(case.get('choices', []))
    V, outcome, kind, changed, o, nd = run_case(c, x, case['array'], ch)
    return ['%s(%s %r): %s' % (describe(c), 'ndarray' if case['array'] else 'list', list(x), d) for cl, d, ex in V]
